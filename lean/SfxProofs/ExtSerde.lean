import SfxModel.ExtSerde
/-
  ExtSerde.lean — extension `Serde`: theorems about the model of the serde representation (`SfxModel/ExtSerde.lean`).  Core Lean only.
-/
namespace Sfx.ExtSerdePf
open Sfx Sfx.ExtSerde

/-! ## 1. the decimal printer -/

theorem decF_ne_nil (k v : Nat) (h : v < k) : decF k v ≠ [] := by
  induction k generalizing v with
  | zero => omega
  | succ k ih =>
    unfold decF
    split
    · simp
    · simp

theorem decF_digits (k v : Nat) (h : v < k) : ∀ b ∈ decF k v, isDigit b = true := by
  induction k generalizing v with
  | zero => omega
  | succ k ih =>
    unfold decF
    split
    · intro b hb
      simp at hb
      subst hb
      simp [isDigit]; omega
    · intro b hb
      rw [List.mem_append] at hb
      rcases hb with hb | hb
      · exact ih (v / 10) (by omega) b hb
      · simp at hb
        subst hb
        simp [isDigit]; omega

theorem valDigits_snoc (ds : List Nat) (d : Nat) : valDigits (ds ++ [d]) = 10 * valDigits ds + (d - 48) := by
  simp [valDigits, List.foldl_append]

theorem valDigits_decF (k v : Nat) (h : v < k) : valDigits (decF k v) = v := by
  induction k generalizing v with
  | zero => omega
  | succ k ih =>
    unfold decF
    split
    · simp [valDigits]
    · rw [valDigits_snoc, ih (v / 10) (by omega)]; omega

/-- no leading zero: a positive number's first digit is not `0` -/
theorem decF_head (k v : Nat) (h : v < k) (hv : 0 < v) : ∃ d tl, decF k v = d :: tl ∧ d ≠ 48 := by
  induction k generalizing v with
  | zero => omega
  | succ k ih =>
    unfold decF
    split
    · exact ⟨48 + v, [], rfl, by omega⟩
    · obtain ⟨d, tl, he, hd⟩ := ih (v / 10) (by omega) (by omega)
      exact ⟨d, tl ++ [48 + v % 10], by rw [he]; rfl, hd⟩

theorem natDec_zero : natDec 0 = [48] := rfl

theorem natDec_digits (v : Nat) : ∀ b ∈ natDec v, isDigit b = true := decF_digits (v + 1) v (by omega)
theorem natDec_ne_nil (v : Nat) : natDec v ≠ [] := decF_ne_nil (v + 1) v (by omega)
/-- the printer and the digit reader are inverse -/
theorem valDigits_natDec (v : Nat) : valDigits (natDec v) = v := valDigits_decF (v + 1) v (by omega)
theorem natDec_head (v : Nat) (hv : 0 < v) : ∃ d tl, natDec v = d :: tl ∧ d ≠ 48 := decF_head (v + 1) v (by omega) hv

/-- `natDec v` is THE canonical decimal of `v`: only digits, at least one, no leading zero except for `0` itself, and its value is `v` -/
theorem natDec_canonical (v : Nat) :
    (∀ b ∈ natDec v, 48 ≤ b ∧ b ≤ 57) ∧ natDec v ≠ [] ∧ (∀ tl, natDec v = 48 :: tl → tl = [] ∧ v = 0) ∧ valDigits (natDec v) = v := by
  refine ⟨fun b hb => by have := natDec_digits v b hb; simpa [isDigit] using this, natDec_ne_nil v, ?_, valDigits_natDec v⟩
  intro tl h
  rcases Nat.eq_zero_or_pos v with hv | hv
  · subst hv; rw [natDec_zero] at h; simp at h; exact ⟨h, rfl⟩
  · obtain ⟨d, tl', he, hd⟩ := natDec_head v hv
    rw [he] at h; simp at h; omega

/-! ## 2. the digit reader on printed numbers -/

/-- `rest` does not continue the number -/
def stops (rest : List Nat) : Prop := ∀ b r, rest = b :: r → isDigit b = false

theorem takeDigits_append (ds rest : List Nat) (hd : ∀ b ∈ ds, isDigit b = true) (hr : stops rest) : takeDigits (ds ++ rest) = ds := by
  induction ds with
  | nil =>
    cases rest with
    | nil => rfl
    | cons b r => simp [takeDigits, hr b r rfl]
  | cons d ds ih =>
    simp only [List.cons_append, takeDigits, hd d (by simp), if_true]
    rw [ih (fun b hb => hd b (by simp [hb]))]

theorem dropDigits_append (ds rest : List Nat) (hd : ∀ b ∈ ds, isDigit b = true) (hr : stops rest) : dropDigits (ds ++ rest) = rest := by
  induction ds with
  | nil =>
    cases rest with
    | nil => rfl
    | cons b r => simp [dropDigits, hr b r rfl]
  | cons d ds ih =>
    simp only [List.cons_append, dropDigits, hd d (by simp), if_true]
    exact ih (fun b hb => hd b (by simp [hb]))

theorem readNatLit_natDec (v : Nat) (rest : List Nat) (hr : stops rest) : readNatLit (natDec v ++ rest) = some (v, rest) := by
  unfold readNatLit
  rw [takeDigits_append _ _ (natDec_digits v) hr, dropDigits_append _ _ (natDec_digits v) hr]
  rcases Nat.eq_zero_or_pos v with hv | hv
  · subst hv; simp [natDec_zero, valDigits]
  · obtain ⟨d, tl, he, hd⟩ := natDec_head v hv
    have hval := valDigits_natDec v
    rw [he] at hval ⊢
    simp [hd, hval]

theorem skipWs_of_not_ws (b : Nat) (r : List Nat) (h : isWs b = false) : skipWs (b :: r) = b :: r := by
  simp [skipWs, h]

theorem isWs_of_isDigit (b : Nat) (h : isDigit b = true) : isWs b = false := by
  simp [isDigit] at h
  simp [isWs]; omega

theorem stops_close (c : Nat) (r : List Nat) (h : isDigit c = false) : stops (c :: r) := by
  intro b r' e; simp at e; rw [← e.1]; exact h

/-! ## 3. `Bits::deserialize` on a printed integer -/

theorem readBits_intDec (L : Layout) (x : Int) (rest : List Nat) (hr : stops rest) :
    readBits L (intDec x ++ rest) = if inI L.signed L.n x then some (x, rest) else none := by
  unfold readBits intDec
  by_cases hx : x < 0
  · have hm : (x.natAbs == 0) = false := by simp; omega
    have hv : -(Int.ofNat x.natAbs) = x := by rw [Int.ofNat_eq_natCast]; omega
    simp only [if_pos hx, List.cons_append, skipWs_of_not_ws 45 _ (by decide), readMag, readNatLit_natDec _ _ hr, hm, Bool.and_false,
      Bool.false_and, if_true, hv]
    simp
  · obtain ⟨d, tl, he⟩ : ∃ d tl, natDec x.natAbs = d :: tl := by
      cases h : natDec x.natAbs with
      | nil => exact absurd h (natDec_ne_nil _)
      | cons d tl => exact ⟨d, tl, rfl⟩
    have hd : isDigit d = true := natDec_digits x.natAbs d (by rw [he]; simp)
    have hws : isWs d = false := isWs_of_isDigit d hd
    have h45 : d ≠ 45 := by simp [isDigit] at hd; omega
    have hlit := readNatLit_natDec x.natAbs rest hr
    rw [he] at hlit
    simp only [if_neg hx, he, List.cons_append, skipWs_of_not_ws d _ hws]
    simp only [List.cons_append] at hlit
    split
    · next h => simp at h; omega
    · have hv' : ((x.natAbs : Nat) : Int) = x := by omega
      simp [readMag, hlit, hv']

/-! ## 4. the round trip, and what the representation does not depend on -/

theorem stops_brace : stops [125] := stops_close 125 [] (by decide)

/-- reading back the serialized form: the value when it is a value of the `Bits` type, an error otherwise — in particular
`de (ser x) = some x` for every bit pattern, and an out-of-range integer in the field `bits` is rejected -/
theorem de_ser_eq (L : Layout) (x : Int) : de L (ser L x) = if inI L.signed L.n x then some x else none := by
  have hb := readBits_intDec L x [125] stops_brace
  unfold de ser jsonHead
  simp only [List.cons_append, List.nil_append]
  rw [skipWs_of_not_ws 123 _ (by decide)]
  simp only [readMap]
  rw [skipWs_of_not_ws 34 _ (by decide)]
  simp only [readKey, readKeyChar, BEq.rfl, if_true]
  rw [skipWs_of_not_ws 58 _ (by decide)]
  simp only [hb]
  by_cases h : inI L.signed L.n x
  · have : isWs 125 = false := by decide
    simp [h, skipWs, this]
  · simp [h]

/-- C10 (serde part): deserializing the serialized form returns the same value — for every layout and every bit pattern of it -/
theorem de_ser (L : Layout) (x : Int) (hx : inRange L x) : de L (ser L x) = some x := by
  rw [de_ser_eq]; exact if_pos hx

/-- an integer outside the range of the `Bits` type is rejected -/
theorem de_ser_out_of_range (L : Layout) (v : Int) (hv : ¬ inRange L v) : de L (ser L v) = none := by
  rw [de_ser_eq]; exact if_neg hv

/-- the serialized form does not depend on the layout at all — in particular not on the number of fractional bits -/
theorem ser_layout_indep (L L' : Layout) (x : Int) : ser L x = ser L' x := rfl
theorem ser_frac_indep (s : Bool) (n f f' : Nat) (x : Int) : ser ⟨s, n, f⟩ x = ser ⟨s, n, f'⟩ x := rfl
theorem serPretty_frac_indep (s : Bool) (n f f' : Nat) (x : Int) : serPretty ⟨s, n, f⟩ x = serPretty ⟨s, n, f'⟩ x := rfl
theorem cborSer_frac_indep (s : Bool) (n f f' : Nat) (x : Int) : cborSer ⟨s, n, f⟩ x = cborSer ⟨s, n, f'⟩ x := rfl
/-- the reader depends on the `Bits` type only -/
theorem de_frac_indep (s : Bool) (n f f' : Nat) (bs : List Nat) : de ⟨s, n, f⟩ bs = de ⟨s, n, f'⟩ bs := rfl
theorem cborDe_frac_indep (s : Bool) (n f f' : Nat) (bs : List Nat) : cborDe ⟨s, n, f⟩ bs = cborDe ⟨s, n, f'⟩ bs := rfl

/-- `Wrapping<F>` has the representation of `F` (both directions, both formats) -/
theorem serW_eq (L : Layout) (x : Int) : serW L x = ser L x := rfl
theorem serPrettyW_eq (L : Layout) (x : Int) : serPrettyW L x = serPretty L x := rfl
theorem deW_eq (L : Layout) (bs : List Nat) : deW L bs = de L bs := rfl
theorem cborSerW_eq (L : Layout) (x : Int) : cborSerW L x = cborSer L x := rfl
theorem cborDeW_eq (L : Layout) (bs : List Nat) : cborDeW L bs = cborDe L bs := rfl
theorem deW_serW (L : Layout) (x : Int) (hx : inRange L x) : deW L (serW L x) = some x := de_ser L x hx

/-- the serialized form is exactly `{"bits":` + the canonical decimal of the bits (see `natDec_canonical`) + `}` -/
theorem ser_eq (L : Layout) (x : Int) :
    ser L x = [123, 34, 98, 105, 116, 115, 34, 58] ++ (if x < 0 then 45 :: natDec x.natAbs else natDec x.natAbs) ++ [125] := rfl

/-! ## 5. insignificant white space, the sequence form, the pretty printer -/

def allWs (w : List Nat) : Prop := ∀ b ∈ w, isWs b = true

theorem skipWs_append (w rest : List Nat) (hw : allWs w) : skipWs (w ++ rest) = skipWs rest := by
  induction w with
  | nil => rfl
  | cons b w ih =>
    simp only [List.cons_append, skipWs, hw b (by simp), if_true]
    exact ih (fun c hc => hw c (by simp [hc]))

theorem stops_ws_close (w : List Nat) (c : Nat) (r : List Nat) (hw : allWs w) (hc : isDigit c = false) : stops (w ++ c :: r) := by
  cases w with
  | nil => exact stops_close c r hc
  | cons b w =>
    intro b' r' e
    simp at e
    rw [← e.1]
    have := hw b (by simp)
    simp [isWs] at this
    simp [isDigit]; omega

/-- the object form with any JSON white space between the tokens -/
theorem de_map_ws (L : Layout) (x : Int) (w0 w1 w2 w3 w4 w5 : List Nat)
    (h0 : allWs w0) (h1 : allWs w1) (h2 : allWs w2) (h3 : allWs w3) (h4 : allWs w4) (h5 : allWs w5) :
    de L (w0 ++ 123 :: (w1 ++ 34 :: 98 :: 105 :: 116 :: 115 :: 34 :: (w2 ++ 58 :: (w3 ++ (intDec x ++ (w4 ++ 125 :: w5))))))
      = if inI L.signed L.n x then some x else none := by
  have hb := readBits_intDec L x (w4 ++ 125 :: w5) (stops_ws_close w4 125 w5 h4 (by decide))
  have hb' : readBits L (w3 ++ (intDec x ++ (w4 ++ 125 :: w5))) = if inI L.signed L.n x then some (x, w4 ++ 125 :: w5) else none := by
    rw [← hb]; unfold readBits; rw [skipWs_append _ _ h3]
  have h5' : skipWs w5 = [] := by have := skipWs_append w5 [] h5; simpa [skipWs] using this
  unfold de
  rw [skipWs_append _ _ h0, skipWs_of_not_ws 123 _ (by decide)]
  simp only [readMap]
  rw [skipWs_append _ _ h1, skipWs_of_not_ws 34 _ (by decide)]
  simp only [readKey, readKeyChar, BEq.rfl, if_true]
  rw [skipWs_append _ _ h2, skipWs_of_not_ws 58 _ (by decide)]
  simp only [hb']
  by_cases h : inI L.signed L.n x
  · simp only [if_pos h]
    rw [skipWs_append _ _ h4, skipWs_of_not_ws 125 _ (by decide)]
    simp [h5']
  · simp [h]

/-- the sequence form `[v]` (`visit_seq`), with any white space -/
theorem de_seq_ws (L : Layout) (x : Int) (w0 w1 w2 w3 : List Nat) (h0 : allWs w0) (h1 : allWs w1) (h2 : allWs w2) (h3 : allWs w3) :
    de L (w0 ++ 91 :: (w1 ++ (intDec x ++ (w2 ++ 93 :: w3)))) = if inI L.signed L.n x then some x else none := by
  have hb := readBits_intDec L x (w2 ++ 93 :: w3) (stops_ws_close w2 93 w3 h2 (by decide))
  have hb' : readBits L (w1 ++ (intDec x ++ (w2 ++ 93 :: w3))) = if inI L.signed L.n x then some (x, w2 ++ 93 :: w3) else none := by
    rw [← hb]; unfold readBits; rw [skipWs_append _ _ h1]
  have h3' : skipWs w3 = [] := by have := skipWs_append w3 [] h3; simpa [skipWs] using this
  unfold de
  rw [skipWs_append _ _ h0, skipWs_of_not_ws 91 _ (by decide)]
  simp only [readSeq, hb']
  by_cases h : inI L.signed L.n x
  · simp only [if_pos h]
    rw [skipWs_append _ _ h2, skipWs_of_not_ws 93 _ (by decide)]
    simp [h3']
  · simp [h]

theorem de_seq (L : Layout) (x : Int) (hx : inRange L x) : de L (91 :: (intDec x ++ [93])) = some x := by
  have := de_seq_ws L x [] [] [] [] (by simp [allWs]) (by simp [allWs]) (by simp [allWs]) (by simp [allWs])
  simp only [List.nil_append] at this
  rw [this]; exact if_pos hx

/-- the pretty-printed form reads back as well -/
theorem de_serPretty (L : Layout) (x : Int) (hx : inRange L x) : de L (serPretty L x) = some x := by
  have := de_map_ws L x [] [10, 32, 32] [] [32] [10] [] (by simp [allWs]) (by simp [allWs, isWs]) (by simp [allWs]) (by simp [allWs, isWs])
    (by simp [allWs, isWs]) (by simp [allWs])
  simp only [List.nil_append, List.cons_append] at this
  unfold serPretty
  simp only [List.cons_append, List.nil_append]
  rw [this]; exact if_pos hx

/-! ## 6. what the reader rejects -/

theorem readMag_range (L : Layout) (neg : Bool) (bs : List Nat) (v : Int) (r : List Nat) (h : readMag L neg bs = some (v, r)) :
    inI L.signed L.n v := by
  simp only [readMag] at h
  cases hl : readNatLit bs with
  | none => simp [hl] at h
  | some p =>
    obtain ⟨m, rest⟩ := p
    simp only [hl] at h
    by_cases c1 : (neg && m == 0 && !negZeroOk L) = true
    · rw [if_pos c1] at h; exact absurd h (by simp)
    · rw [if_neg c1] at h
      by_cases c2 : inI L.signed L.n (if neg = true then -(Int.ofNat m) else Int.ofNat m)
      · rw [if_pos c2] at h
        injection h with h; injection h with h1 h2
        rw [← h1]; exact c2
      · rw [if_neg c2] at h; exact absurd h (by simp)

theorem readBits_range (L : Layout) (bs : List Nat) (v : Int) (r : List Nat) (h : readBits L bs = some (v, r)) : inI L.signed L.n v := by
  unfold readBits at h
  split at h <;> exact readMag_range L _ _ v r h

theorem readMap_range (L : Layout) (bs : List Nat) (v : Int) (r : List Nat) (h : readMap L bs = some (v, r)) : inI L.signed L.n v := by
  simp only [readMap] at h
  cases hk : readKey (skipWs bs) with
  | none => simp [hk] at h
  | some r1 =>
    simp only [hk] at h
    split at h
    · next r2 _ =>
      cases hb : readBits L r2 with
      | none => simp [hb] at h
      | some p =>
        obtain ⟨v', r3⟩ := p
        simp only [hb] at h
        split at h
        · injection h with h; injection h with h1 h2
          rw [← h1]; exact readBits_range L _ _ _ hb
        · exact absurd h (by simp)
    · exact absurd h (by simp)

theorem readSeq_range (L : Layout) (bs : List Nat) (v : Int) (r : List Nat) (h : readSeq L bs = some (v, r)) : inI L.signed L.n v := by
  simp only [readSeq] at h
  cases hb : readBits L bs with
  | none => simp [hb] at h
  | some p =>
    obtain ⟨v', r3⟩ := p
    simp only [hb] at h
    split at h
    · injection h with h; injection h with h1 h2
      rw [← h1]; exact readBits_range L _ _ _ hb
    · exact absurd h (by simp)

/-- whatever the input, an accepted value is a bit pattern of the layout (serde's primitive visitor range-checks; nothing wraps) -/
theorem de_range (L : Layout) (bs : List Nat) (v : Int) (h : de L bs = some v) : inRange L v := by
  simp only [de] at h
  have key : ∀ (o : Option (Int × List Nat)), (∀ v r, o = some (v, r) → inI L.signed L.n v) →
      (match o with
        | some (v, rest) => if (skipWs rest).isEmpty = true then some v else none
        | none => none) = some v → inRange L v := by
    intro o ho hm
    cases o with
    | none => exact absurd hm (by simp)
    | some p =>
      obtain ⟨v', r⟩ := p
      simp only at hm
      split at hm
      · injection hm with hm; rw [← hm]; exact ho v' r rfl
      · exact absurd hm (by simp)
  refine key _ ?_ h
  intro v' r hr
  split at hr
  · exact readMap_range L _ _ _ hr
  · exact readSeq_range L _ _ _ hr
  · exact absurd hr (by simp)

/-- `{}`: `missing_field("bits")` -/
theorem de_missing (L : Layout) : de L [123, 125] = none := rfl
/-- `[]`: `invalid_length(0)` -/
theorem de_empty_seq (L : Layout) : de L [91, 93] = none := rfl

/-- anything but the closing brace after the value — in particular `,` and a second key (`duplicate_field`, `unknown_field`) — is an error -/
theorem de_second_key (L : Layout) (x : Int) (any : List Nat) : de L (jsonHead ++ intDec x ++ 44 :: any) = none := by
  have hb := readBits_intDec L x (44 :: any) (stops_close 44 any (by decide))
  unfold de jsonHead
  simp only [List.cons_append, List.nil_append]
  rw [skipWs_of_not_ws 123 _ (by decide)]
  simp only [readMap]
  rw [skipWs_of_not_ws 34 _ (by decide)]
  simp only [readKey, readKeyChar, BEq.rfl, if_true]
  rw [skipWs_of_not_ws 58 _ (by decide)]
  simp only [hb]
  by_cases h : inI L.signed L.n x
  · simp only [if_pos h]
    rw [skipWs_of_not_ws 44 _ (by decide)]
    rfl
  · simp [h]

/-- a second array element is an error (`TrailingCharacters`) -/
theorem de_seq_extra (L : Layout) (x : Int) (any : List Nat) : de L (91 :: (intDec x ++ 44 :: any)) = none := by
  have hb := readBits_intDec L x (44 :: any) (stops_close 44 any (by decide))
  unfold de
  rw [skipWs_of_not_ws 91 _ (by decide)]
  simp only [readSeq, hb]
  by_cases h : inI L.signed L.n x
  · simp only [if_pos h]
    rw [skipWs_of_not_ws 44 _ (by decide)]
    rfl
  · simp [h]

/-- a first key that does not start with `b` or a backslash is an error (`unknown_field`) -/
theorem de_unknown_key (L : Layout) (c : Nat) (any : List Nat) (h1 : c ≠ 98) (h2 : c ≠ 92) : de L (123 :: 34 :: c :: any) = none := by
  unfold de
  rw [skipWs_of_not_ws 123 _ (by decide)]
  simp only [readMap]
  rw [skipWs_of_not_ws 34 _ (by decide)]
  simp [readKey, readKeyChar, h1, h2]

/-- the escaped spellings of the key are the key -/
theorem readKey_escaped (r : List Nat) :
    readKey (34 :: 92 :: 117 :: 48 :: 48 :: 54 :: 50 :: 92 :: 117 :: 48 :: 48 :: 54 :: 57 :: 92 :: 117 :: 48 :: 48 :: 55 :: 52 ::
      92 :: 117 :: 48 :: 48 :: 55 :: 51 :: 34 :: r) = some r := rfl

/-! ## 7. CBOR -/

theorem fromBe_beBytes1 (v : Nat) (h : v < 256) : fromBe (beBytes 1 v) = v := by
  simp [fromBe, beBytes, Codec.leBytes]; omega
theorem fromBe_beBytes2 (v : Nat) (h : v < 65536) : fromBe (beBytes 2 v) = v := by
  simp [fromBe, beBytes, Codec.leBytes]; omega
theorem fromBe_beBytes4 (v : Nat) (h : v < 4294967296) : fromBe (beBytes 4 v) = v := by
  simp [fromBe, beBytes, Codec.leBytes]; omega
theorem fromBe_beBytes8 (v : Nat) (h : v < 18446744073709551616) : fromBe (beBytes 8 v) = v := by
  simp [fromBe, beBytes, Codec.leBytes]; omega
theorem beBytes_length (k v : Nat) : (beBytes k v).length = k := by
  unfold beBytes
  rw [List.length_reverse]
  induction k generalizing v with
  | zero => rfl
  | succ k ih => simp [Codec.leBytes, ih]

/-- reading a head written in the shortest form gives the argument back -/
theorem cborArg_cborHead (major v : Nat) (rest : List Nat) (_hm : major < 8) (hv : v < 18446744073709551616) :
    ∃ b r, cborHead major v ++ rest = b :: r ∧ b / 32 = major ∧ cborArg (b % 32) r = some (v, rest) := by
  unfold cborHead
  by_cases h1 : v < 24
  · refine ⟨major * 32 + v, rest, by simp [h1], by omega, ?_⟩
    have : (major * 32 + v) % 32 = v := by omega
    simp [this, cborArg, h1]
  · by_cases h2 : v < 256
    · refine ⟨major * 32 + 24, v :: rest, by simp [h1, h2], by omega, ?_⟩
      have : (major * 32 + 24) % 32 = 24 := by omega
      simp [this, cborArg, fromBe]
    · by_cases h3 : v < 65536
      · refine ⟨major * 32 + 25, beBytes 2 v ++ rest, by simp [h1, h2, h3], by omega, ?_⟩
        have : (major * 32 + 25) % 32 = 25 := by omega
        have hl := beBytes_length 2 v
        simp [this, cborArg, hl, fromBe_beBytes2 v h3]
      · by_cases h4 : v < 4294967296
        · refine ⟨major * 32 + 26, beBytes 4 v ++ rest, by simp [h1, h2, h3, h4], by omega, ?_⟩
          have : (major * 32 + 26) % 32 = 26 := by omega
          have hl := beBytes_length 4 v
          simp [this, cborArg, hl, fromBe_beBytes4 v h4]
        · refine ⟨major * 32 + 27, beBytes 8 v ++ rest, by simp [h1, h2, h3, h4], by omega, ?_⟩
          have : (major * 32 + 27) % 32 = 27 := by omega
          have hl := beBytes_length 8 v
          simp [this, cborArg, hl, fromBe_beBytes8 v hv]

theorem cborTags_not_tag (fuel d b : Nat) (r : List Nat) (h : b / 32 ≠ 6) : cborTags (fuel + 1) d (b :: r) = some (d, b :: r) := by
  simp [cborTags, h]

/-- a CBOR integer written by the serializer reads back (any layout whose range holds it) -/
theorem cborReadBits_cborInt (L : Layout) (d : Nat) (x : Int) (i : List Nat) (hx : inI L.signed L.n x) (hi : cborInt x = some i) :
    cborReadBits L d i = some (x, []) := by
  unfold cborInt at hi
  by_cases h0 : 0 ≤ x
  · rw [if_pos h0] at hi
    by_cases h1 : x < 2 ^ 64
    · rw [if_pos h1] at hi
      injection hi with hi
      obtain ⟨b, r, he, hmaj, harg⟩ := cborArg_cborHead 0 x.toNat [] (by decide) (by omega)
      rw [List.append_nil, hi] at he
      have hv : max x 0 = x := by omega
      unfold cborReadBits
      rw [he, List.length_cons, cborTags_not_tag _ _ _ _ (by omega)]
      simp [hmaj, harg, hv, hx]
    · rw [if_neg h1] at hi; exact absurd hi (by simp)
  · rw [if_neg h0] at hi
    by_cases h1 : -1 - x < 2 ^ 64
    · rw [if_pos h1] at hi
      injection hi with hi
      obtain ⟨b, r, he, hmaj, harg⟩ := cborArg_cborHead 1 (-1 - x).toNat [] (by decide) (by omega)
      rw [List.append_nil, hi] at he
      have hv : -1 - max (-1 - x) 0 = x := by omega
      unfold cborReadBits
      rw [he, List.length_cons, cborTags_not_tag _ _ _ _ (by omega)]
      simp [hmaj, harg, hv, hx]
    · rw [if_neg h1] at hi; exact absurd hi (by simp)

/-- CBOR round trip: whenever `serde_cbor` can serialize the value (its bits are a CBOR integer), reading the bytes gives it back -/
theorem cborDe_cborSer (L : Layout) (x : Int) (bs : List Nat) (hx : inRange L x) (h : cborSer L x = some bs) : cborDe L bs = some x := by
  unfold cborSer at h
  cases hi : cborInt x with
  | none => simp [hi] at h
  | some i =>
    simp only [hi, Option.map_some] at h
    injection h with h
    have hb := cborReadBits_cborInt L 1 x i hx hi
    subst h
    unfold cborDe
    simp only [List.cons_append, List.nil_append, List.length_cons]
    rw [cborTags_not_tag _ _ _ _ (by decide)]
    simp [cborArg, cborReadKey, cborTags, hb]

set_option linter.unusedSimpArgs false in
/-- the serializer fails exactly outside the CBOR integers `-2^64 ..= 2^64 - 1` -/
theorem cborSer_isSome (L : Layout) (x : Int) : (cborSer L x).isSome = true ↔ (-(2 : Int) ^ 64 ≤ x ∧ x < (2 : Int) ^ 64) := by
  unfold cborSer cborInt
  by_cases h0 : 0 ≤ x <;> by_cases h1 : x < 2 ^ 64 <;> by_cases h2 : -1 - x < 2 ^ 64 <;> simp [h0, h1, h2] <;> omega

/-- every layout of at most 64 bits serializes -/
theorem cborSer_small (L : Layout) (x : Int) (hv : L.valid) (hn : L.n ≤ 64) (hx : inRange L x) : (cborSer L x).isSome = true := by
  rw [cborSer_isSome]
  unfold inRange inI minI maxI at hx
  obtain ⟨hw, _⟩ := hv
  have e1 : (2 : Int) ^ (8 - 1) = 128 := by decide
  have e2 : (2 : Int) ^ (16 - 1) = 32768 := by decide
  have e3 : (2 : Int) ^ (32 - 1) = 2147483648 := by decide
  have e4 : (2 : Int) ^ (64 - 1) = 9223372036854775808 := by decide
  have f1 : (2 : Int) ^ 8 = 256 := by decide
  have f2 : (2 : Int) ^ 16 = 65536 := by decide
  have f3 : (2 : Int) ^ 32 = 4294967296 := by decide
  have f4 : (2 : Int) ^ 64 = 18446744073709551616 := by decide
  rcases hw with h | h | h | h | h <;> rw [h] at hx <;> cases hs : L.signed <;> simp only [hs] at hx <;> (try omega)
  all_goals simp at hx <;> omega

/-- `serde_json::Value` round trip: every layout of at most 64 bits passes (a `serde_json::Number` holds `i64 ∪ u64`) -/
theorem valRoundTrip_small (L : Layout) (x : Int) (hv : L.valid) (hn : L.n ≤ 64) (hx : inRange L x) : valRoundTrip L x = some x := by
  have h := (cborSer_isSome L x).mp (cborSer_small L x hv hn hx)
  unfold valRoundTrip
  unfold inRange inI minI maxI at hx
  obtain ⟨hw, _⟩ := hv
  have e1 : (2 : Int) ^ (8 - 1) = 128 := by decide
  have e2 : (2 : Int) ^ (16 - 1) = 32768 := by decide
  have e3 : (2 : Int) ^ (32 - 1) = 2147483648 := by decide
  have e4 : (2 : Int) ^ (64 - 1) = 9223372036854775808 := by decide
  have g : (2 : Int) ^ 63 = 9223372036854775808 := by decide
  have hlo : -(2 : Int) ^ 63 ≤ x := by
    rcases hw with h' | h' | h' | h' | h' <;> rw [h'] at hx <;> cases hs : L.signed <;> simp only [hs] at hx <;> (try omega)
    all_goals simp at hx <;> omega
  rw [if_pos ⟨hlo, h.2⟩]

end Sfx.ExtSerdePf
