import SfxProofs.ParseBoundsLoop
import SfxProofs.ParseBoundsFolds
/-
  ParseBounds.lean — C08 part A: the tokeniser `parse_bounds` accepts exactly the grammar of `TextSpec.literal`, its slices
  carry the literal's value (leading integer zeros / trailing fraction zeros trimmed), and its errors are never `Overflow`.
  Core Lean only.  Helper files: ParseBoundsDigits.lean (digit lists), ParseBoundsLoop.lean (the scan loop).
-/
namespace Sfx.ParsePf
open FromStr (parseBoundsLoop Bounds Parse slice)

/-! ### `parse_bounds` against `TextSpec.split` -/

theorem run_minus (radix : Nat) (r : List Nat) :
    run radix (45 :: r) (45 :: r) 0 {} = run radix ([45] ++ r) r ([45] : List Nat).length (st0 (some true)) := by
  unfold run; rw [parseBoundsLoop]; simp

theorem run_plus (radix : Nat) (r : List Nat) :
    run radix (43 :: r) (43 :: r) 0 {} = run radix ([43] ++ r) r ([43] : List Nat).length (st0 (some false)) := by
  unfold run; rw [parseBoundsLoop]; simp

/-- `parse_bounds` succeeds exactly when `TextSpec.split` succeeds with two digit lists, and then returns the trimmed lists -/
theorem parseBounds_char (radix : Nat) (bytes : List Nat) :
    (∃ neg ip fp, TextSpec.split bytes = some (neg, ip, fp) ∧ D radix ip = true ∧ D radix fp = true ∧
        FromStr.parseBounds bytes radix = .ok ⟨neg, ltrim ip, rtrim fp⟩) ∨
    ((∃ e, FromStr.parseBounds bytes radix = .error e) ∧
      ∀ neg ip fp, TextSpec.split bytes = some (neg, ip, fp) → (D radix ip && D radix fp) = false) := by
  rw [parseBounds_eq_run]
  have other : ∀ bytes : List Nat, (∀ b, bytes.head? = some b → b ≠ 43 ∧ b ≠ 45) →
      (∃ neg ip fp, TextSpec.split bytes = some (neg, ip, fp) ∧ D radix ip = true ∧ D radix fp = true ∧
        run radix bytes bytes 0 {} = .ok ⟨neg, ltrim ip, rtrim fp⟩) ∨
      ((∃ e, run radix bytes bytes 0 {} = .error e) ∧
        ∀ neg ip fp, TextSpec.split bytes = some (neg, ip, fp) → (D radix ip && D radix fp) = false) := by
    intro bytes h
    rw [split_other bytes h]
    rcases run_rest radix [] bytes none false rfl (Or.inr h) with ⟨ip, fp, h1, h2, h3, h4⟩ | ⟨h1, h2⟩
    · exact Or.inl ⟨false, ip, fp, h1, h2, h3, h4⟩
    · exact Or.inr ⟨h1, h2⟩
  cases bytes with
  | nil => exact other [] (by simp)
  | cons b r =>
    by_cases h45 : b = 45
    · subst h45
      rw [split_minus, run_minus]
      rcases run_rest radix [45] r (some true) true rfl (Or.inl rfl) with ⟨ip, fp, h1, h2, h3, h4⟩ | ⟨h1, h2⟩
      · exact Or.inl ⟨true, ip, fp, h1, h2, h3, h4⟩
      · exact Or.inr ⟨h1, h2⟩
    by_cases h43 : b = 43
    · subst h43
      rw [split_plus, run_plus]
      rcases run_rest radix [43] r (some false) false rfl (Or.inl rfl) with ⟨ip, fp, h1, h2, h3, h4⟩ | ⟨h1, h2⟩
      · exact Or.inl ⟨false, ip, fp, h1, h2, h3, h4⟩
      · exact Or.inr ⟨h1, h2⟩
    · exact other (b :: r) (by intro b' hb'; simp at hb'; subst hb'; exact ⟨h43, h45⟩)

/-- the error kinds of `parse_bounds`: InvalidDigit (0), NoDigits (1), TooManyPoints (2) -/
theorem parseBounds_err_lt {radix : Nat} {bytes : List Nat} {e : Nat}
    (h : FromStr.parseBounds bytes radix = .error e) : e < 3 := by
  rw [parseBounds_eq_run] at h
  unfold run at h
  split at h
  · rename_i k hk
    injection h with h; subst h
    rcases loop_err radix _ _ _ _ hk with h | h <;> omega
  · unfold finish at h
    split at h
    · injection h with h; omega
    · cases h

/-! ### `TextSpec.literal` through `TextSpec.split` -/

theorem literal_of_split {radix : Nat} (hr : Radix radix) {bytes : List Nat} {neg : Bool} {ip fp : List Nat}
    (h : TextSpec.split bytes = some (neg, ip, fp)) (hi : D radix ip = true) (hf : D radix fp = true) :
    TextSpec.literal radix bytes = some (neg, nv radix ip * radix ^ fp.length + nv radix fp, fp.length) := by
  unfold TextSpec.literal
  rw [h]
  simp [digitsVal_eq hr, hi, hf]

theorem literal_of_split_none {radix : Nat} {bytes : List Nat} (h : TextSpec.split bytes = none) :
    TextSpec.literal radix bytes = none := by
  unfold TextSpec.literal
  rw [h]; rfl

theorem literal_of_split_bad {radix : Nat} (hr : Radix radix) {bytes : List Nat} {neg : Bool} {ip fp : List Nat}
    (h : TextSpec.split bytes = some (neg, ip, fp)) (hbad : (D radix ip && D radix fp) = false) :
    TextSpec.literal radix bytes = none := by
  unfold TextSpec.literal
  rw [h]
  cases hi : D radix ip
  · simp [digitsVal_eq hr, hi]
  · rw [hi] at hbad
    simp at hbad
    simp [digitsVal_eq hr, hi, hbad]

theorem literal_none_of_err {radix : Nat} (hr : Radix radix) {bytes : List Nat}
    (h : ∀ neg ip fp, TextSpec.split bytes = some (neg, ip, fp) → (D radix ip && D radix fp) = false) :
    TextSpec.literal radix bytes = none := by
  cases hs : TextSpec.split bytes with
  | none => exact literal_of_split_none hs
  | some x =>
    obtain ⟨neg, ip, fp⟩ := x
    exact literal_of_split_bad hr hs (h _ _ _ hs)

/-! ### main theorems, part (1) -/

/-- `parse_bounds` succeeds exactly on the grammar of `TextSpec.literal` -/
theorem parseBounds_ok_iff {radix : Nat} (hr : radix = 2 ∨ radix = 8 ∨ radix = 10 ∨ radix = 16) (bytes : List Nat) :
    (∃ p, FromStr.parseBounds bytes radix = .ok p) ↔ (TextSpec.literal radix bytes).isSome := by
  rcases parseBounds_char radix bytes with ⟨neg, ip, fp, h1, h2, h3, h4⟩ | ⟨⟨e, he⟩, h2⟩
  · rw [literal_of_split hr h1 h2 h3]
    exact ⟨fun _ => rfl, fun _ => ⟨_, h4⟩⟩
  · rw [literal_none_of_err hr h2]
    constructor
    · rintro ⟨p, hp⟩; rw [he] at hp; cases hp
    · intro h; cases h

/-- the slices returned by `parse_bounds` carry the literal's sign and value: the integer slice is the integer part without
its leading zeros, the fraction slice is the fraction part without its trailing zeros -/
theorem parseBounds_value {radix : Nat} (hr : radix = 2 ∨ radix = 8 ∨ radix = 10 ∨ radix = 16) {bytes : List Nat}
    {p : FromStr.Parse} (h : FromStr.parseBounds bytes radix = .ok p) :
    ∃ num k, TextSpec.literal radix bytes = some (p.neg, num, k) ∧
      ∃ iv fv, TextSpec.digitsVal radix p.int = some iv ∧ TextSpec.digitsVal radix p.frac = some fv ∧
        num * radix ^ p.frac.length = (iv * radix ^ p.frac.length + fv) * radix ^ k ∧
        (p.int ≠ [] → p.int.head? ≠ some 48) ∧ (p.frac ≠ [] → p.frac.getLast? ≠ some 48) ∧ p.frac.length ≤ k := by
  rcases parseBounds_char radix bytes with ⟨neg, ip, fp, h1, h2, h3, h4⟩ | ⟨⟨e, he⟩, _⟩
  · rw [h4] at h
    injection h with h
    subst h
    refine ⟨_, _, literal_of_split hr h1 h2 h3, nv radix (ltrim ip), nv radix (rtrim fp), ?_, ?_, ?_,
      fun _ => ltrim_head ip, fun _ => rtrim_last fp, ?_⟩
    · show TextSpec.digitsVal radix (ltrim ip) = _
      rw [digitsVal_eq hr, show D radix (ltrim ip) = true from D_drop h2 _]; rfl
    · show TextSpec.digitsVal radix (rtrim fp) = _
      rw [digitsVal_eq hr, show D radix (rtrim fp) = true from D_take h3 _]; rfl
    · show _ * radix ^ (rtrim fp).length = (_ * radix ^ (rtrim fp).length + _) * _
      have hle := tlen_le fp
      rw [rtrim_length, nv_ltrim, nv_rtrim radix fp]
      have hp : radix ^ fp.length = radix ^ (fp.length - tlen fp) * radix ^ tlen fp := by
        rw [← Nat.pow_add]; congr 1; omega
      rw [hp]
      generalize radix ^ (fp.length - tlen fp) = A
      generalize radix ^ tlen fp = B
      grind
    · show (rtrim fp).length ≤ fp.length
      rw [rtrim_length]; exact tlen_le fp
  · rw [he] at h; cases h

/-- the errors of `parse_bounds` are InvalidDigit / NoDigits / TooManyPoints (never Overflow), and only on malformed input -/
theorem parseBounds_err {radix : Nat} (hr : radix = 2 ∨ radix = 8 ∨ radix = 10 ∨ radix = 16) {bytes : List Nat} {e : Nat}
    (h : FromStr.parseBounds bytes radix = .error e) : e < 3 ∧ TextSpec.literal radix bytes = none := by
  refine ⟨parseBounds_err_lt h, ?_⟩
  rcases parseBounds_char radix bytes with ⟨neg, ip, fp, _, _, _, h4⟩ | ⟨_, h2⟩
  · rw [h4] at h; cases h
  · exact literal_none_of_err hr h2


/-! ### main theorems, part (2): the integer folds and `$get_int` -/

theorem cast_mod (a n : Nat) : ((a % 2 ^ n : Nat) : Int) = (a : Int) % 2 ^ n := by
  push_cast; rfl

theorem intSpec_eq (v n nbits : Nat) :
    intSpec v n nbits = (((v : Int) * 2 ^ (n - nbits)) % 2 ^ n, decide (2 ^ nbits ≤ v)) := by
  simp only [intSpec, Int.natCast_emod, Int.natCast_mul, Int.natCast_pow, Int.cast_ofNat_Int]

/-- `dec_str_int_to_bin::<I>` (any width `n`): the value modulo `2^n` and the exact overflow flag.  "Keep the last `n` digits"
is harmless because `10^n ≡ 0 (mod 2^n)` and a number of more than `n` digits without a leading zero is `≥ 10^n ≥ 2^n`. -/
theorem decStrIntToBin_spec (n : Nat) {ds : List Nat} {v : Nat}
    (hv : TextSpec.digitsVal 10 ds = some v) (h0 : ds.head? ≠ some 48) :
    FromStr.decStrIntToBin n ds = ((v : Int) % 2 ^ n, decide (2 ^ n ≤ v)) := by
  obtain ⟨hD, rfl⟩ := digitsVal_some radix10 hv
  rw [decStrIntToBin_nv n hD h0, cast_mod]

/-- `bin_str_int_to_bin::<I>` (a plain pair in the model, no `Outcome`) -/
theorem binStrIntToBin_spec {n : Nat} (hn : 1 ≤ n) {ds : List Nat} {v : Nat}
    (hv : TextSpec.digitsVal 2 ds = some v) (h0 : ds.head? ≠ some 48) :
    FromStr.binStrIntToBin n ds = ((v : Int) % 2 ^ n, decide (2 ^ n ≤ v)) := by
  obtain ⟨hD, rfl⟩ := digitsVal_some radix2 hv
  rw [binStrIntToBin_nv hn hD h0, cast_mod]

/-- `oct_str_int_to_bin::<I>` on a non-empty slice (the empty slice panics: `powStrIntToBin_nil`), incl. the first-digit test -/
theorem octStrIntToBin_spec {n : Nat} (hn : 4 ≤ n) {ds : List Nat} {v : Nat} (hne : ds ≠ [])
    (hv : TextSpec.digitsVal 8 ds = some v) (h0 : ds.head? ≠ some 48) :
    FromStr.octStrIntToBin n ds = .ok ((v : Int) % 2 ^ n, decide (2 ^ n ≤ v)) false := by
  obtain ⟨hD, rfl⟩ := digitsVal_some radix8 hv
  rw [octStrIntToBin_nv hn hne hD h0, cast_mod]

/-- `hex_str_int_to_bin::<I>` on a non-empty slice, incl. the first-digit test -/
theorem hexStrIntToBin_spec {n : Nat} (hn : 5 ≤ n) {ds : List Nat} {v : Nat} (hne : ds ≠ [])
    (hv : TextSpec.digitsVal 16 ds = some v) (h0 : ds.head? ≠ some 48) :
    FromStr.hexStrIntToBin n ds = .ok ((v : Int) % 2 ^ n, decide (2 ^ n ≤ v)) false := by
  obtain ⟨hD, rfl⟩ := digitsVal_some radix16 hv
  rw [hexStrIntToBin_nv hn hne hD h0, cast_mod]

/-- `bytes[0]` on an empty slice: the octal / hex folds panic (their callers test `int.is_empty()` first) -/
theorem powStrIntToBin_nil (k : Nat) (digit : Nat → Nat) (n : Nat) : FromStr.powStrIntToBin k digit n [] = .panic := by
  rw [powStr_unfold, keepLast_le (Nat.zero_le _)]
  rfl

/-- the part of `$get_int` after the half-width attempt -/
theorem getIntDirect_spec {radix n nbits : Nat} (hr : radix = 2 ∨ radix = 8 ∨ radix = 10 ∨ radix = 16)
    (hn : 5 ≤ n) (hnb : nbits ≤ n) {ds : List Nat} {v : Nat}
    (hv : TextSpec.digitsVal radix ds = some v) (h0 : ds.head? ≠ some 48) :
    FromStr.getIntDirect n ds radix nbits
      = .ok (((v : Int) * 2 ^ (n - nbits)) % 2 ^ n, decide (2 ^ nbits ≤ v)) false := by
  obtain ⟨hD, rfl⟩ := digitsVal_some hr hv
  rw [getIntDirect_nv hr hn hnb hD h0, intSpec_eq]

theorem getInt_nv {radix n nbits : Nat} (hr : Radix radix)
    (hn : n = 8 ∨ n = 16 ∨ n = 32 ∨ n = 64 ∨ n = 128) (hnb : nbits ≤ n) {ds : List Nat}
    (hD : D radix ds = true) (h0 : ds.head? ≠ some 48) :
    FromStr.getInt n ds radix nbits = .ok (intSpec (nv radix ds) n nbits) false := by
  have d8 : ∀ nbits, nbits ≤ 8 → FromStr.getIntDirect 8 ds radix nbits = .ok (intSpec (nv radix ds) 8 nbits) false :=
    fun nb h => getIntDirect_nv hr (by omega) h hD h0
  have d16 : ∀ nbits, nbits ≤ 16 → FromStr.getIntDirect 16 ds radix nbits = .ok (intSpec (nv radix ds) 16 nbits) false :=
    fun nb h => getIntDirect_nv hr (by omega) h hD h0
  have d32 : ∀ nbits, nbits ≤ 32 → FromStr.getIntDirect 32 ds radix nbits = .ok (intSpec (nv radix ds) 32 nbits) false :=
    fun nb h => getIntDirect_nv hr (by omega) h hD h0
  have d64 : ∀ nbits, nbits ≤ 64 → FromStr.getIntDirect 64 ds radix nbits = .ok (intSpec (nv radix ds) 64 nbits) false :=
    fun nb h => getIntDirect_nv hr (by omega) h hD h0
  have d128 : ∀ nbits, nbits ≤ 128 → FromStr.getIntDirect 128 ds radix nbits = .ok (intSpec (nv radix ds) 128 nbits) false :=
    fun nb h => getIntDirect_nv hr (by omega) h hD h0
  have g16 : ∀ nbits, nbits ≤ 16 → FromStr.getInt16 ds radix nbits = .ok (intSpec (nv radix ds) 16 nbits) false :=
    fun nb h => getIntHalf_nv (h := 8) rfl FromStr.getInt8 d8 d16 h
  have g32 : ∀ nbits, nbits ≤ 32 → FromStr.getInt32 ds radix nbits = .ok (intSpec (nv radix ds) 32 nbits) false :=
    fun nb h => getIntHalf_nv (h := 16) rfl FromStr.getInt16 g16 d32 h
  have g64 : ∀ nbits, nbits ≤ 64 → FromStr.getInt64 ds radix nbits = .ok (intSpec (nv radix ds) 64 nbits) false :=
    fun nb h => getIntHalf_nv (h := 32) rfl FromStr.getInt32 g32 d64 h
  have g128 : ∀ nbits, nbits ≤ 128 → FromStr.getInt128 ds radix nbits = .ok (intSpec (nv radix ds) 128 nbits) false :=
    fun nb h => getIntHalf_nv (h := 64) rfl FromStr.getInt64 g64 d128 h
  rcases hn with rfl | rfl | rfl | rfl | rfl
  · exact d8 nbits hnb
  · exact g16 nbits hnb
  · exact g32 nbits hnb
  · exact g64 nbits hnb
  · exact g128 nbits hnb

/-- `$get_int` of the `n`-bit instance, through the whole half-width delegation chain: the integer value left-aligned in the
top `nbits` bits of the word (`v * 2^(n-nbits) mod 2^n`), the flag "`v` does not fit `nbits` bits", no panic, no debug check -/
theorem getInt_spec {radix n nbits : Nat} (hr : radix = 2 ∨ radix = 8 ∨ radix = 10 ∨ radix = 16)
    (hn : n = 8 ∨ n = 16 ∨ n = 32 ∨ n = 64 ∨ n = 128) (hnb : nbits ≤ n) {ds : List Nat} {v : Nat}
    (hv : TextSpec.digitsVal radix ds = some v) (h0 : ds.head? ≠ some 48) :
    FromStr.getInt n ds radix nbits
      = .ok (((v : Int) * 2 ^ (n - nbits)) % 2 ^ n, decide (2 ^ nbits ≤ v)) false := by
  obtain ⟨hD, rfl⟩ := digitsVal_some hr hv
  rw [getInt_nv hr hn hnb hD h0, intSpec_eq]

/-- the delegated result equals the direct one -/
theorem getInt_eq_direct {radix n nbits : Nat} (hr : radix = 2 ∨ radix = 8 ∨ radix = 10 ∨ radix = 16)
    (hn : n = 8 ∨ n = 16 ∨ n = 32 ∨ n = 64 ∨ n = 128) (hnb : nbits ≤ n) {ds : List Nat} {v : Nat}
    (hv : TextSpec.digitsVal radix ds = some v) (h0 : ds.head? ≠ some 48) :
    FromStr.getInt n ds radix nbits = FromStr.getIntDirect n ds radix nbits := by
  rw [getInt_spec hr hn hnb hv h0, getIntDirect_spec hr (by omega) hnb hv h0]

/-! ### non-vacuity -/

example : FromStr.parseBounds [45, 48, 49, 50, 46, 53, 48] 10 = .ok ⟨true, [49, 50], [53]⟩ := rfl
example : FromStr.parseBounds [49, 46, 50, 46] 10 = .error 2 ∧ FromStr.parseBounds [46] 10 = .error 1
    ∧ FromStr.parseBounds [49, 43] 10 = .error 0 := ⟨rfl, rfl, rfl⟩
example : FromStr.getInt 16 [50, 53, 53] 10 8 = .ok (255 * 256, false) false := by decide
example : FromStr.getInt 16 [50, 53, 54] 10 8 = .ok (0, true) false := by decide
/-- the hypothesis "no leading zero" is needed (and is what `parse_bounds` guarantees): with leading zeros the
"more than `n` digits" shortcut reports an overflow for the value 1, and `nbits = 0` reports one for the value 0 -/
example : FromStr.decStrIntToBin 8 [48, 48, 48, 48, 48, 48, 48, 48, 49] = (1, true) := by decide
example : FromStr.getInt 8 [48] 10 0 = .ok (0, true) false := by decide

end Sfx.ParsePf

#print axioms Sfx.ParsePf.parseBounds_ok_iff
#print axioms Sfx.ParsePf.parseBounds_value
#print axioms Sfx.ParsePf.parseBounds_err
#print axioms Sfx.ParsePf.parseBounds_char
#print axioms Sfx.ParsePf.decStrIntToBin_spec
#print axioms Sfx.ParsePf.binStrIntToBin_spec
#print axioms Sfx.ParsePf.octStrIntToBin_spec
#print axioms Sfx.ParsePf.hexStrIntToBin_spec
#print axioms Sfx.ParsePf.getIntDirect_spec
#print axioms Sfx.ParsePf.getInt_spec
#print axioms Sfx.ParsePf.getInt_eq_direct
