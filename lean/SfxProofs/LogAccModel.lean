import SfxProofs.Log
import SfxProofs.LogAccDefs
/-
  LogAccModel.lean — the model `Trans.log2` / `Trans.ln` computes exactly the integer traces `Log2Spec` / `LnSpec` of
  `LogAccDefs.lean`.  These are strengthenings of `LogPf.halve_eval`, `frac_eval`, `inner_eval`, `log2Core_cases`,
  `lnTail_eval` (same proofs, more conjuncts).  `Monoid.toNPow` is erased so that `2 ^ k` is core's `Int.pow`, as in `Log.lean`.
-/
attribute [-instance] Monoid.toNPow

namespace Sfx.LogAccPf
open Sfx.Trans Sfx.SqrtPf Sfx.LogPf

theorem pow2_eq (k : Nat) : pow2 k = 2 ^ k := by
  induction k with
  | zero => rfl
  | succ k ih => rw [pow_succ2, ← ih]; rfl

/-- `halve_eval` with the arithmetic trace `x ≤ 2^j x' ≤ x + 2^j - 1` -/
theorem halve_acc {D : Layout} (c : Ctx D) :
    ∀ (K fuel : Nat) (x result : Int) (n0 : Nat), K ≤ fuel → 2 ^ D.f ≤ x → x ≤ 2 ^ (D.f + K) → inRange D x →
      0 ≤ result → result + (K : Int) < 2 ^ (D.n - 1) →
      ∃ (x' : Int) (j : Nat), log2Halve D fuel x result n0 = .ok (some (x', result + (j : Int)), n0 + j) false ∧
        2 ^ D.f ≤ x' ∧ x' < 2 * 2 ^ D.f ∧ j ≤ K ∧ x ≤ 2 ^ j * x' ∧ 2 ^ j * x' ≤ x + 2 ^ j - 1
  | 0, fuel, x, result, n0, _, hxF, hxK, hx, _, _ => by
    have hP := two_pow_pos D.f
    have hxe : x ≤ 2 ^ D.f := hxK
    have e0 : (2 : Int) ^ 0 * x = x := by show 1 * x = x; omega
    have e1 : (2 : Int) ^ 0 = 1 := rfl
    refine ⟨x, 0, ?_, hxF, by omega, Nat.le_refl 0, by omega, by omega⟩
    rw [halve_stop c fuel x result n0 hx (by omega)]
    simp
  | K + 1, 0, _, _, _, hK, _, _, _, _, _ => by omega
  | K + 1, fuel + 1, x, result, n0, hK, hxF, hxK, hx, hr0, hrK => by
    have hP := two_pow_pos D.f
    by_cases h2 : 2 * 2 ^ D.f ≤ x
    · have hlt := ((c.inRange_iff x).1 hx).2
      have hpk : (2 : Int) ^ (D.f + (K + 1)) = 2 * 2 ^ (D.f + K) := pow_succ2 (D.f + K)
      have hx' : inRange D ((x + 1) / 2) := c.nn (by omega) (by omega)
      obtain ⟨x', j, he, h1, h2', hj, t1, t2⟩ := halve_acc c K fuel ((x + 1) / 2) (result + 1) (n0 + 1) (by omega)
        (by omega) (by omega) hx' (by omega) (by omega)
      have hpj : (2 : Int) ^ (j + 1) = 2 * 2 ^ j := pow_succ2 j
      have hm : (2 : Int) ^ (j + 1) * x' = 2 * (2 ^ j * x') := by rw [hpj, Int.mul_assoc]
      refine ⟨x', j + 1, ?_, h1, h2', by omega, by omega, by omega⟩
      rw [halve_step c fuel x result n0 hx h2 (c.nn (by omega) (by omega)), he]
      have e1 : result + 1 + (j : Int) = result + ((j + 1 : Nat) : Int) := by omega
      have e2 : n0 + 1 + j = n0 + (j + 1) := by omega
      rw [e1, e2]
    · have e0 : (2 : Int) ^ 0 * x = x := by show 1 * x = x; omega
      have e1 : (2 : Int) ^ 0 = 1 := rfl
      refine ⟨x, 0, ?_, hxF, by omega, by omega, by omega, by omega⟩
      rw [halve_stop c _ x result n0 hx (by omega)]
      simp

theorem fracPure_succ' (F : Int) (k : Nat) (y R : Int) :
    fracPure F (k + 1) y R = if 2 * F ≤ y * y / F then fracPure F k ((y * y / F + 1) / 2) (R * 2 + 1)
      else fracPure F k (y * y / F) (R * 2) := rfl

/-- the fractional loop of the model is `fracPure` -/
theorem frac_acc {D : Layout} (c : Ctx D) :
    ∀ (k : Nat) (x result : Int) (n0 : Nat), 2 ^ D.f ≤ x → x < 2 * 2 ^ D.f → 0 ≤ result →
      (result + 1) * 2 ^ k ≤ 2 ^ (D.n - 1) →
      log2Frac D k x result n0 = .ok (some (fracPure (2 ^ D.f) k x result), n0 + k) false
  | 0, x, result, n0, _, _, _, _ => rfl
  | k + 1, x, result, n0, h1, h2, hr0, hrk => by
    have hP := two_pow_pos D.f
    have hK := two_pow_pos k
    have h4 := c.four
    have hpk : (2 : Int) ^ (k + 1) = 2 * 2 ^ k := pow_succ2 k
    obtain ⟨b1, b2⟩ := sq_bounds (2 ^ D.f) x (by omega) h1 h2
    rw [hpk] at hrk
    have e0 : (result + 1) * (2 * 2 ^ k) = (result * 2 + 1 + 1) * 2 ^ k := by ring
    have e1 : (result * 2 + 1 + 1) * 2 ^ k = (result * 2 + 1) * 2 ^ k + 2 ^ k := by ring
    have hle : (result * 2 + 1 + 1) * 1 ≤ (result * 2 + 1 + 1) * 2 ^ k :=
      Int.mul_le_mul_of_nonneg_left (by omega) (by omega)
    have hsh := ushl_one c result hr0 (by omega)
    have hxx : inRange D (x * x / 2 ^ D.f) := c.nn (by omega) (by omega)
    rw [frac_unfold, tick_bind, mulOp_sq c x h1 h2, liftO_bind, hsh, liftO_bind, ge_two c _ hxx, fracPure_succ']
    by_cases hge : 2 * 2 ^ D.f ≤ x * x / 2 ^ D.f
    · rw [if_pos (by simp; omega), rs_eval c _ hxx (by omega), liftO_bind, orI_one c result hr0 (by omega), if_pos hge]
      rw [frac_acc c k ((x * x / 2 ^ D.f + 1) / 2) (result * 2 + 1) (n0 + 1) (by omega) (by omega)
        (by omega) (by omega), Nat.add_assoc, Nat.add_comm 1 k]
    · rw [if_neg (by simp; omega), if_neg hge]
      rw [frac_acc c k (x * x / 2 ^ D.f) (result * 2) (n0 + 1) (by omega) (by omega)
        (by omega) (by omega), Nat.add_assoc, Nat.add_comm 1 k]

/-- on `x = 1.0` the squaring loop only shifts `result` -/
theorem fracPure_one (F : Int) (hF : 1 ≤ F) : ∀ (k : Nat) (R : Int), fracPure F k F R = R * 2 ^ k
  | 0, R => by show R = R * 1; omega
  | k + 1, R => by
    have hd : F * F / F = F := Int.mul_ediv_cancel F (by omega)
    rw [fracPure_succ', hd, if_neg (by omega), fracPure_one F hF k (R * 2), pow_succ2]
    ring

/-- `inner_eval` with the trace -/
theorem inner_acc {D : Layout} (c : Ctx D) (x : Int) (n0 : Nat) (hx : inRange D x) (hxF : 2 ^ D.f ≤ x) :
    ∃ (r : Int) (m : Nat), log2Inner D x n0 = .ok (some r, m) false ∧ 0 ≤ r ∧ r < 2 ^ (D.n - 1) ∧ InnerSpec D.f x r := by
  have hP := two_pow_pos D.f
  have hfn := c.fn
  have hn8 := c.n8
  have hlt := ((c.inRange_iff x).1 hx).2
  have hKe : D.f + (D.n - 1 - D.f) = D.n - 1 := by omega
  have hKlt := lt_two_pow (D.n - 1 - D.f)
  have hKpos := two_pow_pos (D.n - 1 - D.f)
  have htop := c.top_split
  have hKF : ((D.n - 1 - D.f : Nat) : Int) * 2 ^ D.f < 2 ^ (D.n - 1 - D.f) * 2 ^ D.f :=
    Int.mul_lt_mul_of_pos_right hKlt hP
  have hKle : (2 : Int) ^ (D.n - 1 - D.f) * 1 ≤ 2 ^ (D.n - 1 - D.f) * 2 ^ D.f :=
    Int.mul_le_mul_of_nonneg_left (by omega) (by omega)
  obtain ⟨x', j, he, h1, h2, hj, t1, t2⟩ := halve_acc c (D.n - 1 - D.f) (D.n + 1) x 0 n0 (by omega) hxF
    (by rw [hKe]; omega) hx (by omega) (by omega)
  have hjK : (j : Int) ≤ ((D.n - 1 - D.f : Nat) : Int) := by omega
  have hx' : inRange D x' := c.nn (by omega) (by have := c.four; omega)
  rw [inner_unfold, c.facts.fromNum1, liftO_bind, ushr_lsb D (by omega), liftO_bind, bind_of_eq _ _ _ _ _ he]
  dsimp only
  have hng : ¬ (decide (2 * 2 ^ D.f ≤ x') = true) := by simp; omega
  rw [ge_two c x' hx', if_neg hng, eq_one c x' hx', Int.zero_add]
  by_cases hone : x' = 2 ^ D.f
  · rw [if_pos (by simp [hone])]
    have hjF : (j : Int) * 2 ^ D.f ≤ ((D.n - 1 - D.f : Nat) : Int) * 2 ^ D.f :=
      Int.mul_le_mul_of_nonneg_right hjK (by omega)
    have hj0 : 0 ≤ (j : Int) * 2 ^ D.f := Int.mul_nonneg (by omega) (by omega)
    have hin : inRange D ((j : Int) * 2 ^ D.f) := c.nn hj0 (by omega)
    have hjin : inI D.signed D.n (j : Int) := c.nn (by omega) (by omega)
    have hff := (ConvPf.fromInt_spec D c.hv D.signed D.n c.hv.1 (j : Int) hjin).2.2.2.2
    have hw : D.wrap ((j : Int) * 2 ^ D.f) = (j : Int) * 2 ^ D.f := wrapI_of_in (by omega) hin
    rw [hw] at hff
    refine ⟨(j : Int) * 2 ^ D.f, n0 + j, ?_, hj0, by omega, ?_⟩
    · rw [hff]
      simp [hin]
      rfl
    · refine ⟨j, x', ?_, ?_, ?_, ?_, ?_⟩
      · rw [pow2_eq]; exact t1
      · rw [pow2_eq]; exact t2
      · rw [pow2_eq]; exact h1
      · rw [pow2_eq]; exact h2
      · rw [pow2_eq, hone, fracPure_one _ (by omega)]
  · rw [if_neg (by simp [hone])]
    have hj1 : ((j : Int) + 1) * 2 ^ D.f ≤ 2 ^ (D.n - 1 - D.f) * 2 ^ D.f :=
      Int.mul_le_mul_of_nonneg_right (by omega) (by omega)
    obtain ⟨r, hr, l1, l2⟩ := frac_eval c D.f x' (j : Int) (n0 + j) h1 h2 (by omega) (by omega)
    have hr' := frac_acc c D.f x' (j : Int) (n0 + j) h1 h2 (by omega) (by omega)
    have hj0 : 0 ≤ (j : Int) * 2 ^ D.f := Int.mul_nonneg (by omega) (by omega)
    have hrr : r = fracPure (2 ^ D.f) D.f x' (j : Int) := by
      rw [hr'] at hr
      injection hr with a _
      injection a with a _
      injection a with a
      exact a.symm
    refine ⟨r, n0 + j + D.f, hr, by omega, by omega, ?_⟩
    refine ⟨j, x', ?_, ?_, ?_, ?_, ?_⟩
    · rw [pow2_eq]; exact t1
    · rw [pow2_eq]; exact t2
    · rw [pow2_eq]; exact h1
    · rw [pow2_eq]; exact h2
    · rw [pow2_eq]; exact hrr


/-- `log2Core_cases` with the trace -/
theorem log2Core_acc {D : Layout} (c : Ctx D) (x : Int) (hx : inRange D x) (hx0 : 0 < x) (n0 : Nat) :
    (∃ r m, log2Core D x n0 = .ok (some r, m) false ∧ inRange D r ∧ Log2Spec D.f x r) ∨
    (log2Core D x n0 = .ok (none, n0) false) := by
  have hP := two_pow_pos D.f
  have hn8 := c.n8
  have h4 := c.four
  have h1r : inRange D (2 ^ D.f) := c.nn (by omega) (by omega)
  unfold log2Core
  rw [c.facts.fromNum1, liftO_bind]
  by_cases hlt : x < 2 ^ D.f
  · rw [if_pos hlt, liftO_bind, checkedDiv_nn D c.hv (2 ^ D.f) x h1r hx (by omega) hx0]
    by_cases hyr : inRange D (2 ^ D.f * 2 ^ D.f / x)
    · left
      rw [chk_in hyr, liftOpt_some_bind]
      have hyF : 2 ^ D.f ≤ 2 ^ D.f * 2 ^ D.f / x := by
        apply (Int.le_ediv_iff_mul_le (by omega)).2
        exact Int.mul_le_mul_of_nonneg_left (by omega) (by omega)
      obtain ⟨r, m, he, hr0, hr1, hspec⟩ := inner_acc c _ n0 hyr hyF
      have hnr : inRange D (-r) := by
        rw [c.inRange_iff]; omega
      have hneg : D.negOp r = .ok (-r) false := by
        rw [negOp_eq]
        have hw : D.wrap (-r) = -r := wrapI_of_in (by omega) hnr
        rw [hw]; simp [hnr]
      refine ⟨-r, m, ?_, hnr, Or.inr ⟨hx0, ?_, r, ?_, ?_, rfl⟩⟩
      · rw [bind_of_eq _ _ _ _ _ he, hneg]; rfl
      · rw [pow2_eq]; exact hlt
      · rw [pow2_eq]; exact hyF
      · rw [pow2_eq]; exact hspec
    · right
      rw [chk_out hyr, liftOpt_none_bind]
  · left
    rw [if_neg hlt]
    obtain ⟨r, m, he, hr0, hr1, hspec⟩ := inner_acc c x n0 hx (by omega)
    refine ⟨r, m, he, c.nn hr0 hr1, Or.inl ⟨?_, hspec⟩⟩
    rw [pow2_eq]; omega

/-- every `Ok` result of `log2::<D, D>` is described by `Log2Spec` -/
theorem log2_acc {D : Layout} (c : Ctx D) (x : Int) (hx : inRange D x) (r : Int) (it : Nat) (dbg : Bool)
    (h : Trans.log2 D D x 0 = .ok (some r, it) dbg) : inRange D r ∧ Log2Spec D.f x r := by
  rw [log2_eq] at h
  by_cases h0 : x ≤ 0
  · rw [if_pos h0] at h
    cases h
  · rw [if_neg h0, fromS_refl, liftO_bind] at h
    rcases log2Core_acc c x hx (by omega) 0 with ⟨r', m, he, hr, hs⟩ | he
    · rw [he] at h
      cases h
      exact ⟨hr, hs⟩
    · rw [he] at h
      cases h

/-- `lnTail_eval` with the value -/
theorem lnTail_acc (D : Layout) (hv : D.valid) (hs : D.signed = true) (hf : 23 ≤ D.f) (hint : 9 ≤ D.intBits)
    (l : Int) (hl : inRange D l) (n0 : Nat) :
    lnTail D l n0 = .ok (some (Int.tdiv (l * pow2 D.f) (12102203 * pow2 (D.f - 23))), n0) false := by
  obtain ⟨hfrom, hcr⟩ := from_log2e D hv hs hf hint
  obtain ⟨h2, _, _, hfn⟩ := C01.valid_facts hv
  have hP := two_pow_pos D.f
  have hQ := two_pow_pos (D.f - 23)
  have hsplit : (2 : Int) ^ D.f = 2 ^ 23 * 2 ^ (D.f - 23) := by
    rw [← pow_add']; congr 1; omega
  have hcF : 2 ^ D.f ≤ LOG2_E * 2 ^ (D.f - 23) := by
    rw [hsplit, log2e_val]
    exact Int.mul_le_mul_of_nonneg_right (by decide) (by omega)
  rw [pow2_eq, pow2_eq, ← log2e_val]
  generalize LOG2_E * 2 ^ (D.f - 23) = d at *
  have hd0 : d ≠ 0 := by omega
  have hop := (div_forms D (by omega) hfn l d hl hcr hd0 (C01.divOverflow_spec D hv l d hl hcr hd0)).2
  obtain ⟨t1, t2⟩ := tdiv_shrink l (2 ^ D.f) d hP hcF
  have hds : divSpec D.f l d = Int.tdiv (l * 2 ^ D.f) d := rfl
  have hin : inRange D (divSpec D.f l d) := by
    rw [hds]
    have z := inI_zero D.signed D.n
    by_cases h0 : 0 ≤ l
    · exact ⟨Int.le_trans z.1 (t1 h0).1, Int.le_trans (t1 h0).2 hl.2⟩
    · exact ⟨Int.le_trans hl.1 (t2 (by omega)).1, Int.le_trans (t2 (by omega)).2 z.2⟩
  have hw : D.wrap (divSpec D.f l d) = divSpec D.f l d := wrapI_of_in (by omega) hin
  unfold lnTail
  rw [hfrom, liftO_bind, hop, hw, ← hds]
  simp [hin]
  rfl

/-- every `Ok` result of `ln::<D, D>` is described by `LnSpec` -/
theorem ln_acc (D : Layout) (hv : D.valid) (hs : D.signed = true) (hf : 23 ≤ D.f) (hint : 9 ≤ D.intBits)
    (x : Int) (hx : inRange D x) (r : Int) (it : Nat) (dbg : Bool)
    (h : Trans.ln D D x 0 = .ok (some r, it) dbg) : LnSpec D.f x r := by
  have c := ctx_of D hv hs hint
  rw [ln_eq] at h
  rcases log2_cases D D c x x (fromS_refl D x) hx (fun h => h) 0 with ⟨h0, he⟩ | ⟨h0, ⟨l, m, he, hg, _⟩ | ⟨he, _, _⟩⟩
  · rw [bind_of_none _ _ _ _ he] at h
    cases h
  · obtain ⟨hlr, hspec⟩ := log2_acc c x hx l m false he
    rw [bind_of_eq _ _ _ _ _ he, lnTail_acc D hv hs hf hint l hlr m] at h
    cases h
    exact ⟨l, hspec, rfl⟩
  · rw [bind_of_none _ _ _ _ he] at h
    cases h

end Sfx.LogAccPf
