import SfxModel.Arith
import SfxProofs.PrimLemmas
import Mathlib.Tactic.Ring
import Mathlib.Tactic.LinearCombination
/-
  FallbackMulCombine.lean — `combine_lo_then_shl` of the 128-bit fallback multiplication:
  given the exact double-width product `P` split as `hi = P / 2^n`, `lo = P % 2^n`, it returns
  `overflowing (P / 2^f)` and no check fires.
-/
namespace Sfx

theorem Outcome.ok_false_bindF {α β : Type} (v : α) (g : α → Outcome β) :
    (Outcome.ok v false >>= g) = g v := by
  show Outcome.bind _ _ = _
  unfold Outcome.bind
  cases h : g v <;> simp [h]

/-- `x | y = x + y` when `x` lives below bit `k` and `y` is a multiple of `2^k`. -/
theorem orI_eq_add (s : Bool) (n k : Nat) (hk : k ≤ n) (x z : Int) (hx0 : 0 ≤ x) (hxk : x < 2 ^ k) :
    orI s n x (z * 2 ^ k) = wrapI s n (x + z * 2 ^ k) := by
  have hKpos := two_pow_pos k
  have hJpos := two_pow_pos (n - k)
  have hN : (2 : Int) ^ n = 2 ^ k * 2 ^ (n - k) := by rw [← Int.pow_add]; congr 1; omega
  have hkn : (2 : Int) ^ k ≤ 2 ^ n := pow_le_pow hk
  -- the two unsigned patterns
  have hx : toU n x = x.toNat := by
    unfold toU; rw [Int.emod_eq_of_lt hx0 (by omega)]
  have hw0 : 0 ≤ z % 2 ^ (n - k) := Int.emod_nonneg _ (Int.ne_of_gt hJpos)
  have hy : toU n (z * 2 ^ k) = (z % 2 ^ (n - k)).toNat <<< k := by
    unfold toU
    rw [hN, Int.mul_comm z, Int.mul_emod_mul_of_pos _ _ hKpos, Nat.shiftLeft_eq]
    apply Int.ofNat.inj
    simp only [Int.ofNat_eq_natCast]
    rw [Int.toNat_of_nonneg (Int.mul_nonneg (Int.le_of_lt hKpos) hw0)]
    rw [Int.natCast_mul, Int.toNat_of_nonneg hw0, Int.natCast_pow]
    simp [Int.mul_comm]
  have hxlt : x.toNat < 2 ^ k := by
    rw [Int.toNat_lt hx0]; simpa using hxk
  unfold orI
  rw [hx, hy, Nat.or_comm, ← Nat.shiftLeft_add_eq_or_of_lt hxlt, Nat.shiftLeft_eq]
  simp only [Int.ofNat_eq_natCast, Int.natCast_add, Int.natCast_mul, Int.natCast_pow]
  rw [Int.toNat_of_nonneg hw0, Int.toNat_of_nonneg hx0]
  -- `(z % 2^(n-k)) * 2^k = z * 2^k - (z / 2^(n-k)) * 2^n`
  apply wrapI_congr s n (-(z / 2 ^ (n - k)))
  have := Int.emod_add_mul_ediv z (2 ^ (n - k))
  rw [hN]
  simp only [Nat.cast_ofNat]
  linear_combination (2 ^ k : Int) * this

theorem ediv_eq_iff' {N : Int} (hN : 0 < N) (E c : Int) : E / N = c ↔ N * c ≤ E ∧ E < N * c + N := by
  rw [show (E / N = c) ↔ (c ≤ E / N ∧ E / N < c + 1) by omega, Int.le_ediv_iff_mul_le hN,
    Int.ediv_lt_iff_lt_mul hN, Int.add_mul, Int.one_mul, Int.mul_comm]

/-- the overflow test of `combine_lo_then_shl` / `div_overflow`: the bits of `E` above bit `n` agree with the
sign of the wrapped value iff `E` is representable -/
theorem top_test (s : Bool) (n : Nat) (hn : 0 < n) (E : Int) :
    (if s then decide (E / 2 ^ n ≠ (if wrapI s n E < 0 then -1 else 0)) else decide (E / 2 ^ n ≠ 0))
      = !decide (inI s n E) := by
  have hN := two_pow_pos n
  have hsplit := pow_split hn
  cases s
  · simp only [Bool.false_eq_true, if_false]
    rw [Bool.eq_iff_iff]
    simp only [decide_eq_true_eq, Bool.not_eq_true', decide_eq_false_iff_not, inU_iff]
    have := ediv_eq_iff' hN E 0
    simp only [Int.mul_zero, Int.zero_add] at this
    rw [Ne, this]
  · simp only [if_true]
    show decide (E / 2 ^ n ≠ (if wrapS n E < 0 then -1 else 0)) = _
    rw [Bool.eq_iff_iff]
    simp only [decide_eq_true_eq, Bool.not_eq_true', decide_eq_false_iff_not, inS_iff]
    unfold wrapS
    have hdm := Int.emod_add_mul_ediv (E + 2 ^ (n - 1)) (2 ^ n)
    have hm0 := Int.emod_nonneg (E + 2 ^ (n - 1)) (Int.ne_of_gt hN)
    have hm1 := Int.emod_lt_of_pos (E + 2 ^ (n - 1)) hN
    have hq0 := ediv_eq_iff' hN (E + 2 ^ (n - 1)) 0
    simp only [Int.mul_zero, Int.zero_add] at hq0
    generalize (E + 2 ^ (n - 1)) / 2 ^ n = q at *
    generalize (E + 2 ^ (n - 1)) % 2 ^ n = r at *
    have hrange : (-2 ^ (n - 1) ≤ E ∧ E < 2 ^ (n - 1)) ↔ q = 0 := by rw [hq0]; omega
    rw [hrange]
    by_cases hr : r < 2 ^ (n - 1)
    · have hE : E / 2 ^ n = q - 1 := by
        rw [ediv_eq_iff' hN, Int.mul_sub, Int.mul_one]; omega
      rw [hE, if_pos (by omega)]; omega
    · have hE : E / 2 ^ n = q := by
        rw [ediv_eq_iff' hN]; omega
      rw [hE, if_neg (by omega)]

theorem combine_spec (s : Bool) (n f : Nat) (hn : 0 < n) (hf0 : f ≠ 0) (hf : f ≤ n) (hn32 : n < 2 ^ 31)
    (P : Int) (hP : inI s n (P / 2 ^ n)) :
    combineLoThenShl s n (P / 2 ^ n) (P % 2 ^ n) f = .ok (ovfI s n (P / 2 ^ f)) false := by
  unfold combineLoThenShl
  by_cases hfn : f = n
  · subst hfn
    simp only [if_true]
    show Outcome.ok _ _ = _
    unfold ovfI; rw [wrapI_of_in hn hP]; simp [hP]
  · simp only [hfn, hf0, if_false]
    have hfl : f < n := by omega
    have hN := two_pow_pos n
    have hF := two_pow_pos f
    have hI := two_pow_pos (n - f)
    have hNF : (2 : Int) ^ n = 2 ^ (n - f) * 2 ^ f := by rw [← Int.pow_add]; congr 1; omega
    have hl0 := Int.emod_nonneg P (Int.ne_of_gt hN)
    have hl1 := Int.emod_lt_of_pos P hN
    have hdm := Int.emod_add_mul_ediv P (2 ^ n)
    -- the shift amount `NBITS - shift`
    have hsub : usub false 32 (n : Int) (f : Int) = .ok (((n - f : Nat) : Nat) : Int) false := by
      unfold usub
      have hin : inI false 32 ((n : Int) - (f : Int)) := by
        rw [inU_iff]; constructor
        · omega
        · have : (2 : Int) ^ 32 = 4294967296 := by decide
          have : (2 : Nat) ^ 31 = 2147483648 := by decide
          omega
      rw [show wrapI false 32 ((n : Int) - f) = wrapU 32 ((n : Int) - f) from rfl, wrapU_of_in hin]
      simp only [hin, decide_true, Bool.not_true]
      congr 1; omega
    rw [hsub, Outcome.ok_false_bindF]
    simp only [Int.toNat_natCast]
    have hshl : ushl s n (P / 2 ^ n) (n - f) = .ok (wrapI s n (P / 2 ^ n * 2 ^ (n - f))) false := by
      unfold ushl shlI
      rw [Nat.mod_eq_of_lt (by omega)]
      simp; omega
    have hshr : ushr n (P / 2 ^ n) f = .ok (P / 2 ^ n / 2 ^ f) false := by
      unfold ushr shrI
      rw [Nat.mod_eq_of_lt hfl]
      simp; omega
    rw [hshl, Outcome.ok_false_bindF, hshr, Outcome.ok_false_bindF]
    show Outcome.ok _ _ = _
    -- the exact quotient
    have hE : P / 2 ^ f = P % 2 ^ n / 2 ^ f + P / 2 ^ n * 2 ^ (n - f) := by
      rw [← Int.add_mul_ediv_right _ _ (Int.ne_of_gt hF)]
      congr 1
      rw [Int.mul_assoc, ← hNF, Int.mul_comm (P / 2 ^ n)]; omega
    have hlo0 : 0 ≤ P % 2 ^ n / 2 ^ f := Int.ediv_nonneg hl0 (Int.le_of_lt hF)
    have hlo1 : P % 2 ^ n / 2 ^ f < 2 ^ (n - f) := by
      rw [Int.ediv_lt_iff_lt_mul hF, ← hNF]; exact hl1
    have hlo : wrapI s n (shrI (P % 2 ^ n) f) = P % 2 ^ n / 2 ^ f := by
      apply wrapI_of_in hn
      unfold shrI
      have h1 : (2 : Int) ^ (n - f) ≤ 2 ^ (n - 1) := pow_le_pow (by omega)
      have h2 := pow_split hn
      cases s
      · rw [inU_iff]; omega
      · rw [inS_iff]; omega
    have hans : orI s n (wrapI s n (shrI (P % 2 ^ n) f)) (wrapI s n (P / 2 ^ n * 2 ^ (n - f))) = wrapI s n (P / 2 ^ f) := by
      rw [hlo]
      obtain ⟨j, hj⟩ := wrapI_eq_add_mul s n (P / 2 ^ n * 2 ^ (n - f))
      have hj' : wrapI s n (P / 2 ^ n * 2 ^ (n - f)) = (P / 2 ^ n + j * 2 ^ f) * 2 ^ (n - f) := by
        rw [hj, hNF]; ring
      rw [hj', orI_eq_add s n (n - f) (by omega) _ _ hlo0 hlo1, hE]
      apply wrapI_congr s n j
      rw [hNF]; ring
    have htop : P / 2 ^ n / 2 ^ f = P / 2 ^ f / 2 ^ n := by
      rw [Int.ediv_ediv_of_nonneg (Int.le_of_lt hN), Int.ediv_ediv_of_nonneg (Int.le_of_lt hF), Int.mul_comm]
    rw [hans, htop]
    unfold ovfI
    congr 2
    exact top_test s n hn (P / 2 ^ f)

end Sfx
