import SfxModel.Round
import SfxProofs.PrimLemmas
import SfxProofs.RoundBits
import SfxProofs.RoundMasks
import SfxProofs.RoundExact
import SfxProofs.RoundCore
/-
  Round.lean — the rounding property for the model of `src/macros_round.rs`
  (and of the mask constants of `src/macros_frac.rs:55-64`).

  Helper files: `RoundBits` (Nat bit lemmas), `RoundMasks` (masks, `intPart`/`fracPart`, bit tests),
  `RoundExact` (shape of the exact roundings), `RoundCore` (`overflowing_*` by cases).
  The primed lemmas in those files are the same statements under weaker hypotheses (`0 < n` instead of `2 ≤ n`,
  no range hypothesis where none is needed).
-/
namespace Sfx
open Layout

/-! ### 1. masks -/

set_option linter.unusedVariables false in
theorem intMask_eq (L : Layout) (hn : 2 ≤ L.n) (hf : L.f ≤ L.n) : L.intMask = L.wrap (-(2 ^ L.f)) :=
  L.intMask_eq'

set_option linter.unusedVariables false in
theorem fracMask_eq (L : Layout) (hn : 2 ≤ L.n) (hf : L.f ≤ L.n) : L.fracMask = L.wrap (2 ^ L.f - 1) :=
  L.fracMask_eq'

theorem intLsb_eq (L : Layout) (hn : 2 ≤ L.n) (hf : L.f ≤ L.n) :
    L.intLsb = (if L.f < L.n then L.wrap (2 ^ L.f) else 0) :=
  L.intLsb_eq' (by omega) hf

theorem fracMsb_eq (L : Layout) (hn : 2 ≤ L.n) (hf : L.f ≤ L.n) :
    L.fracMsb = (if 0 < L.f then L.wrap (2 ^ (L.f - 1)) else 0) :=
  L.fracMsb_eq' (by omega) hf

set_option linter.unusedVariables false in
theorem intPart_eq (L : Layout) (hn : 2 ≤ L.n) (hf : L.f ≤ L.n) (a : Int) (ha : inRange L a) :
    L.intPart a = L.wrap ((a / 2 ^ L.f) * 2 ^ L.f) :=
  L.intPart_eq' hf a

set_option linter.unusedVariables false in
theorem fracPart_eq (L : Layout) (hn : 2 ≤ L.n) (hf : L.f ≤ L.n) (a : Int) (ha : inRange L a) :
    L.fracPart a = L.wrap (a % 2 ^ L.f) :=
  L.fracPart_eq' hf a

/-! ### 2. the core theorem -/

theorem overflowingR_spec (L : Layout) (hn : 2 ≤ L.n) (hf : L.f ≤ L.n) (m : Layout.RMode) (a : Int) (ha : inRange L a) :
    L.overflowingR m a = L.ovf (Layout.exactR L.f m a) :=
  L.overflowingR_spec' (by omega) hf m a ha

/-! ### 3. derived forms -/

theorem plainR_spec (L : Layout) (hn : 2 ≤ L.n) (hf : L.f ≤ L.n) (m : Layout.RMode) (a : Int) (ha : inRange L a) :
    L.plainR m a = .ok (L.wrap (Layout.exactR L.f m a)) (!decide (inRange L (Layout.exactR L.f m a))) := by
  unfold plainR
  rw [overflowingR_spec L hn hf m a ha]
  rfl

theorem wrappingR_spec (L : Layout) (hn : 2 ≤ L.n) (hf : L.f ≤ L.n) (m : Layout.RMode) (a : Int) (ha : inRange L a) :
    L.wrappingR m a = .ok (L.wrap (Layout.exactR L.f m a)) false := by
  unfold wrappingR
  rw [overflowingR_spec L hn hf m a ha]
  rfl

theorem checkedR_spec (L : Layout) (hn : 2 ≤ L.n) (hf : L.f ≤ L.n) (m : Layout.RMode) (a : Int) (ha : inRange L a) :
    L.checkedR m a = .ok (L.chk (Layout.exactR L.f m a)) false := by
  unfold checkedR
  rw [overflowingR_spec L hn hf m a ha]
  unfold ovf ovfI chk chkI
  by_cases h : inI L.signed L.n (exactR L.f m a)
  · simp [h, wrapI_of_in (by omega : 0 < L.n) h, pure]
  · simp [h, pure]

/-- where the exact rounding can leave the range -/
theorem exactR_side (L : Layout) (m : Layout.RMode) (a : Int) (ha : inRange L a) :
    match m with
    | .ceil => L.min ≤ exactR L.f m a
    | .floor => exactR L.f m a ≤ L.max
    | _ => (L.max < exactR L.f m a → a > 0) ∧ (exactR L.f m a < L.min → ¬ a > 0) := by
  obtain ⟨h1, h2, h3, h4, h5⟩ := floor_facts L.f a
  have hz := inI_zeroR L.signed L.n
  unfold inRange inI at *
  unfold Layout.min Layout.max
  cases m
  · show _ ≤ ceilE L.f a
    rw [ceilE_cases]; split <;> omega
  · show floorE L.f a ≤ _
    unfold floorE; omega
  · show (_ < roundE L.f a → _) ∧ (roundE L.f a < _ → _)
    rw [roundE_cases]; split <;> constructor <;> intro _ <;> omega
  · show (_ < roundEvenE L.f a → _) ∧ (roundEvenE L.f a < _ → _)
    rw [roundEvenE_cases]; split <;> constructor <;> intro _ <;> omega

theorem saturatingR_spec (L : Layout) (hn : 2 ≤ L.n) (hf : L.f ≤ L.n) (m : Layout.RMode) (a : Int) (ha : inRange L a) :
    L.saturatingR m a = .ok (L.clamp (Layout.exactR L.f m a)) false := by
  have hside := exactR_side L m a ha
  unfold saturatingR
  rw [overflowingR_spec L hn hf m a ha]
  unfold ovf ovfI clamp clampI
  unfold Layout.min Layout.max at *
  by_cases h : inI L.signed L.n (exactR L.f m a)
  · have hw := wrapI_of_in (by omega : 0 < L.n) h
    unfold inI at h
    have h1 : ¬ exactR L.f m a < minI L.signed L.n := by omega
    have h2 : ¬ maxI L.signed L.n < exactR L.f m a := by omega
    cases m <;> simp [h, h1, h2, hw, pure, inI]
  · have h' := h
    unfold inI at h'
    cases m
    · simp only at hside
      have h1 : ¬ exactR L.f RMode.ceil a < minI L.signed L.n := by omega
      have h2 : maxI L.signed L.n < exactR L.f RMode.ceil a := by omega
      simp [h, h1, h2, pure]
    · simp only at hside
      have h1 : exactR L.f RMode.floor a < minI L.signed L.n := by omega
      simp [h, h1, pure]
    · simp only at hside
      by_cases hpos : a > 0
      · have h1 : ¬ exactR L.f RMode.round a < minI L.signed L.n := fun hh => hside.2 hh hpos
        have h2 : maxI L.signed L.n < exactR L.f RMode.round a := by omega
        simp [h, h1, h2, hpos, pure]
      · have h2 : ¬ maxI L.signed L.n < exactR L.f RMode.round a := fun hh => hpos (hside.1 hh)
        have h1 : exactR L.f RMode.round a < minI L.signed L.n := by omega
        simp [h, h1, hpos, pure]
    · simp only at hside
      by_cases hpos : a > 0
      · have h1 : ¬ exactR L.f RMode.roundEven a < minI L.signed L.n := fun hh => hside.2 hh hpos
        have h2 : maxI L.signed L.n < exactR L.f RMode.roundEven a := by omega
        simp [h, h1, h2, hpos, pure]
      · have h2 : ¬ maxI L.signed L.n < exactR L.f RMode.roundEven a := fun hh => hpos (hside.1 hh)
        have h1 : exactR L.f RMode.roundEven a < minI L.signed L.n := by omega
        simp [h, h1, hpos, pure]

set_option linter.unusedVariables false in
theorem int_frac_spec (L : Layout) (hn : 2 ≤ L.n) (hf : L.f ≤ L.n) (a : Int) (ha : inRange L a) :
    (L.f < L.n → L.intPart a = Layout.floorE L.f a ∧ 0 ≤ L.fracPart a ∧ L.fracPart a < 2 ^ L.f ∧ L.intPart a + L.fracPart a = a)
    ∧ (L.f = L.n → L.intPart a = 0 ∧ L.fracPart a = a) := by
  constructor
  · intro h
    obtain ⟨h1, h2⟩ := L.parts_lt h a ha
    obtain ⟨f1, f2, f3, _, _⟩ := floor_facts L.f a
    rw [h1, h2]
    exact ⟨rfl, f2, f3, f1.symm⟩
  · intro h
    obtain ⟨h1, h2, _, _⟩ := L.parts_eq (by omega) h a ha
    exact ⟨h1, h2⟩

theorem roundToZero_spec (L : Layout) (hn : 2 ≤ L.n) (hf : L.f ≤ L.n) (a : Int) (ha : inRange L a) :
    L.roundToZero a = .ok (Layout.truncE L.f a) false := by
  have hn0 : 0 < L.n := by omega
  obtain ⟨f1, f2, f3, f4, f5⟩ := floor_facts L.f a
  have hz := inI_zeroR L.signed L.n
  rw [truncE_cases]
  unfold roundToZero
  rcases Nat.lt_or_eq_of_le hf with h | h
  · obtain ⟨hint, hfrac⟩ := L.parts_lt h a ha
    rw [hint, hfrac]
    by_cases hc : L.signed = true ∧ a < 0 ∧ a % 2 ^ L.f ≠ 0
    · obtain ⟨hs, hneg, hr⟩ := hc
      have hcond : (L.signed && decide (a < 0) && decide (a % 2 ^ L.f ≠ 0)) = true := by simp [hs, hneg, hr]
      have hnc : ¬ (0 ≤ a ∨ a % 2 ^ L.f = 0) := by omega
      rw [if_pos hcond, if_neg hnc]
      have hin : inI L.signed L.n (a / 2 ^ L.f * 2 ^ L.f + 2 ^ L.f) := by
        have := f5 hneg
        unfold inRange inI at *
        omega
      have hw := wrapI_of_in hn0 hin
      rw [L.intLsb_lt h]
      by_cases hb : L.intBits = 1
      · rw [if_pos hb, if_pos ⟨hs, hb⟩]
        unfold usub
        rw [Int.sub_neg, hw]
        simp [hin]
      · rw [if_neg hb, if_neg (fun hh => hb hh.2)]
        unfold uadd
        rw [hw]
        simp [hin]
    · have hcond : ¬ (L.signed && decide (a < 0) && decide (a % 2 ^ L.f ≠ 0)) = true := by
        simpa using hc
      have hnc : 0 ≤ a ∨ a % 2 ^ L.f = 0 := by
        cases hs : L.signed
        · have := L.unsigned_nonneg hs a ha; omega
        · rw [hs] at hc; simp at hc
          by_cases h0 : 0 ≤ a
          · exact Or.inl h0
          · exact Or.inr (hc (by omega))
      rw [if_neg hcond, if_pos hnc]
      rfl
  · obtain ⟨hint, hfrac, hlsb, hib⟩ := L.parts_eq hn0 h a ha
    obtain ⟨hq0, hq1⟩ := L.qr_eq hn0 h a ha
    obtain ⟨hu, hsg⟩ := L.range_eq hn0 h a ha
    rw [hint, hfrac, hlsb, hib]
    by_cases hneg : a < 0
    · obtain ⟨h2, h3⟩ := hq1 hneg
      have hs : L.signed = true := by
        cases hs : L.signed
        · have := hu hs; omega
        · rfl
      have hr : ¬ a + 2 ^ L.f = 0 := by have := hsg hs; omega
      have hnc : ¬ (0 ≤ a ∨ a % 2 ^ L.f = 0) := by rw [h3]; omega
      have ha0 : a ≠ 0 := by omega
      have hcond : (L.signed && decide (a < 0) && decide (a ≠ 0)) = true := by simp [hs, hneg, ha0]
      rw [if_pos hcond, if_neg hnc, if_neg (by decide), h2]
      have : (-1 : Int) * 2 ^ L.f + 2 ^ L.f = 0 := by omega
      rw [this]
      unfold uadd
      rw [Int.add_zero, wrapI_zeroR _ hn0]
      simp [hz]
    · obtain ⟨h2, h3⟩ := hq0 (by omega)
      have hcond : ¬ (L.signed && decide (a < 0) && decide (a ≠ 0)) = true := by simp [hneg]
      rw [if_neg hcond, if_pos (Or.inl (by omega)), h2, Int.zero_mul]
      rfl

#print axioms intMask_eq
#print axioms fracMask_eq
#print axioms intLsb_eq
#print axioms fracMsb_eq
#print axioms intPart_eq
#print axioms fracPart_eq
#print axioms overflowingR_spec
#print axioms checkedR_spec
#print axioms wrappingR_spec
#print axioms saturatingR_spec
#print axioms plainR_spec
#print axioms roundToZero_spec
#print axioms int_frac_spec

end Sfx
