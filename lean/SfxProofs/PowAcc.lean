import SfxProofs.PowAccModel
import SfxProofs.PowAccReal
import SfxProofs.LogAcc
/-
  PowAcc.lean — property C15 (pow clause) for `transcendental::pow` (model `Trans.pow`, `S = D`) over Mathlib's reals, in the region
  where the exponent handed to `exp` stays within `|z| ≤ 4` (`ExpAcc.lean`).  With `val v = (v : ℝ) / 2 ^ D.f`, `X = val x > 0`,
  `Y = val y`, for every supported `D` (valid, signed, `23 ≤ f`, `9 ≤ intBits`):

      |Y ln X| + 8 |Y| ulp ≤ 31/8  ∧  8 |Y| ulp ≤ 1  ∧  pow(x, y) = Ok(r)   →
          |val r - X^Y| ≤ (2^-18 + |Y ln X| / 2^22 + 16 |Y| ulp) · X^Y + 64 ulp                      (`pow_accuracy_gen`)

  and the corollary `pow_accuracy_small` for `|Y ln X| ≤ 7/2 ∧ 32 |Y| ≤ 2^f`.

  Structure: `PowAccModel.lean`: an `Ok(r)` is one of the exact early returns (`y = 0 → 1`, `y = 1 → x`) or the `exp` trace
  (`ExpAccDefs.ExpSpec`) of `z = ⌊l · y / 2^f⌋` with `l` the result of the model's `ln`; `PowAccReal.lean`:
    * `L = val l`: `|L - ln X| ≤ |ln X| / 2^23 + 8 ulp` (C14, `LogAccPf.ln_accuracy`);
    * `Z = val z ∈ (LY - 1 ulp, LY]`, so `t = Z - Y ln X` has `|t| ≤ A + 1 ulp`, `A = |Y ln X| / 2^23 + 8 |Y| ulp`;
    * `|Z| ≤ 4`, hence `|val r - e^Z| ≤ e^Z / 2^20 + 64 ulp` (`ExpAccPf.exp_real_four`), and `e^Z = X^Y · e^t`;
    * `e^t / 2^20 + |e^t - 1| ≤ 2^-18 + 2A` for `A + 1 ulp ≤ 17/16` (`e^s ≤ 1 + s + s²/2 + s³/3`), which is exactly the bound.
  WHY the second hypothesis: the absolute part (8 ulp) of the error of `ln` is multiplied by `|Y|`; the bound of the property
  linearises `e^t - 1 ≈ t`, which is only valid while `8 |Y| ulp` is of order 1.  Outside, the pow clause is FALSE even where `exp` is
  exact: e.g. `D = I41F23` (`⟨true, 64, 23⟩`), `x = 1 + 2^-23` (bits 8388609), `y = -5·2^23` (bits -5·2^46): `ln x` is computed as 0,
  so `pow` returns exactly 1.0, while `x^y = e^(-5 + …) ≈ 0.0067` (allowed error ≈ 0.54); see the report.
-/
namespace Sfx.PowAccPf
open Sfx.ExpAccPf

/-- general form: the two hypotheses are on the TRUE quantities `Y ln X` and `Y` -/
theorem pow_accuracy_gen (D : Layout) (hv : D.valid) (hs : D.signed = true) (hf : 23 ≤ D.f) (hint : 9 ≤ D.intBits)
    (x y : Int) (hx : inRange D x) (hy : inRange D y) (hx0 : 0 < x)
    (hA : 8 * |(y : ℝ) / 2 ^ D.f| / 2 ^ D.f ≤ 1)
    (hW : |(y : ℝ) / 2 ^ D.f * Real.log ((x : ℝ) / 2 ^ D.f)| + 8 * |(y : ℝ) / 2 ^ D.f| / 2 ^ D.f ≤ 31 / 8)
    (r : Int) (it : Nat) (dbg : Bool) :
    Trans.run (Trans.pow D D x y) = .ok (some r, it) dbg →
      |(r : ℝ) / 2 ^ D.f - ((x : ℝ) / 2 ^ D.f) ^ ((y : ℝ) / 2 ^ D.f)| ≤
        (1 / 2 ^ 18 + |(y : ℝ) / 2 ^ D.f * Real.log ((x : ℝ) / 2 ^ D.f)| / 2 ^ 22 + 16 * |(y : ℝ) / 2 ^ D.f| / 2 ^ D.f) *
          ((x : ℝ) / 2 ^ D.f) ^ ((y : ℝ) / 2 ^ D.f) + 64 / 2 ^ D.f := by
  intro h
  have hG : (0 : ℝ) < 2 ^ D.f := by positivity
  have hX : 0 < (x : ℝ) / 2 ^ D.f := div_pos (by exact_mod_cast hx0) hG
  have hrhs : 0 ≤ (1 / 2 ^ 18 + |(y : ℝ) / 2 ^ D.f * Real.log ((x : ℝ) / 2 ^ D.f)| / 2 ^ 22 +
      16 * |(y : ℝ) / 2 ^ D.f| / 2 ^ D.f) * ((x : ℝ) / 2 ^ D.f) ^ ((y : ℝ) / 2 ^ D.f) + 64 / 2 ^ D.f := by
    have := Real.rpow_nonneg hX.le ((y : ℝ) / 2 ^ D.f)
    positivity
  rcases pow_acc D hv hs hf hint x y hx hy hx0 r it dbg h with ⟨hy0, hr⟩ | ⟨hy1, hr⟩ | ⟨l, m, hl, _, hspec⟩
  · -- y = 0: exactly 1
    have e : (r : ℝ) / 2 ^ D.f - ((x : ℝ) / 2 ^ D.f) ^ ((y : ℝ) / 2 ^ D.f) = 0 := by
      rw [hr, hy0, pow2_cast, Int.cast_zero, zero_div, Real.rpow_zero, div_self hG.ne', sub_self]
    rw [e, abs_zero]
    exact hrhs
  · -- y = 1: exactly x
    have e : (r : ℝ) / 2 ^ D.f - ((x : ℝ) / 2 ^ D.f) ^ ((y : ℝ) / 2 ^ D.f) = 0 := by
      rw [hr, hy1, pow2_cast, div_self hG.ne', Real.rpow_one, sub_self]
    rw [e, abs_zero]
    exact hrhs
  · have hln := LogAccPf.ln_accuracy D hv hs hf hint x hx l m false hl
    exact pow_real D.f hf x y l r hx0 hln hA hW hspec

/-- C15 (pow clause) for `pow::<D, D>` where `|y · ln x| ≤ 3.5` and `|y| ≤ 2^f / 32` -/
theorem pow_accuracy_small (D : Layout) (hv : D.valid) (hs : D.signed = true) (hf : 23 ≤ D.f) (hint : 9 ≤ D.intBits)
    (x y : Int) (hx : inRange D x) (hy : inRange D y) (hx0 : 0 < x)
    (hsmall : |(y : ℝ) / 2 ^ D.f * Real.log ((x : ℝ) / 2 ^ D.f)| ≤ 7 / 2)
    (hY : |(y : ℝ) / 2 ^ D.f| * 32 ≤ 2 ^ D.f)
    (r : Int) (it : Nat) (dbg : Bool) :
    Trans.run (Trans.pow D D x y) = .ok (some r, it) dbg →
      |(r : ℝ) / 2 ^ D.f - ((x : ℝ) / 2 ^ D.f) ^ ((y : ℝ) / 2 ^ D.f)| ≤
        (1 / 2 ^ 18 + |(y : ℝ) / 2 ^ D.f * Real.log ((x : ℝ) / 2 ^ D.f)| / 2 ^ 22 + 16 * |(y : ℝ) / 2 ^ D.f| / 2 ^ D.f) *
          ((x : ℝ) / 2 ^ D.f) ^ ((y : ℝ) / 2 ^ D.f) + 64 / 2 ^ D.f := by
  have hG : (0 : ℝ) < 2 ^ D.f := by positivity
  have h8 : 8 * |(y : ℝ) / 2 ^ D.f| / 2 ^ D.f ≤ 1 / 4 := by
    rw [div_le_iff₀ hG]; linarith
  exact pow_accuracy_gen D hv hs hf hint x y hx hy hx0 (by linarith) (by linarith) r it dbg

/-- for destinations with `intBits + 4 ≤ f` (e.g. `I9F23`, `I16F48`, `I40F88`) the hypothesis on `|y|` holds for every operand -/
theorem hY_auto (D : Layout) (hs : D.signed = true) (hn : D.f ≤ D.n) (hib : D.intBits + 4 ≤ D.f) (y : Int) (hy : inRange D y) :
    |(y : ℝ) / 2 ^ D.f| * 32 ≤ 2 ^ D.f := by
  have hG : (0 : ℝ) < 2 ^ D.f := by positivity
  unfold Layout.intBits at hib
  unfold inRange inI at hy
  rw [hs] at hy
  simp only [minI, maxI, if_true] at hy
  obtain ⟨h1, h2⟩ := hy
  have hpos : 0 < D.n := by omega
  have hsplit : (2 : ℝ) ^ D.f * 2 ^ D.f = 2 ^ (D.n - 1) * (32 * 2 ^ (D.f + D.f - (D.n - 1) - 5)) := by
    rw [show (32 : ℝ) = 2 ^ 5 by norm_num, ← pow_add, ← pow_add, ← pow_add]; congr 1; omega
  have hone : (1 : ℝ) ≤ 2 ^ (D.f + D.f - (D.n - 1) - 5) := one_le_pow₀ (by norm_num)
  have hT : (0 : ℝ) < 2 ^ (D.n - 1) := by positivity
  have hyr : |(y : ℝ)| ≤ 2 ^ (D.n - 1) := by
    rw [abs_le]
    have a : ((-(2 : Int) ^ (D.n - 1) : Int) : ℝ) ≤ (y : ℝ) := by exact_mod_cast h1
    have b : (y : ℝ) ≤ (((2 : Int) ^ (D.n - 1) - 1 : Int) : ℝ) := by exact_mod_cast h2
    push_cast at a b
    constructor <;> linarith
  rw [abs_div, abs_of_pos hG, div_mul_eq_mul_div, div_le_iff₀ hG, hsplit]
  calc |(y : ℝ)| * 32 ≤ 2 ^ (D.n - 1) * 32 := mul_le_mul_of_nonneg_right hyr (by norm_num)
    _ = 2 ^ (D.n - 1) * (32 * 1) := by ring
    _ ≤ 2 ^ (D.n - 1) * (32 * 2 ^ (D.f + D.f - (D.n - 1) - 5)) := by
      apply mul_le_mul_of_nonneg_left _ hT.le
      linarith

end Sfx.PowAccPf

#print axioms Sfx.PowAccPf.pow_accuracy_gen
#print axioms Sfx.PowAccPf.pow_accuracy_small
#print axioms Sfx.PowAccPf.hY_auto
