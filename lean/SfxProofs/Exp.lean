import SfxModel.Transcendental
import SfxProofs.PrimLemmas
import SfxProofs.Forms
import SfxProps.C01
import SfxProofs.Sqrt
import SfxProofs.TransFacts
import SfxProofs.Convert
import SfxProofs.ExpArith
/-
  Exp.lean — properties C12 (totality: no panic, no debug-only check) and C15 (conventions and accuracy of `powi`) for
  `transcendental::{exp, pow, powi}` (models `Trans.exp`, `Trans.pow`, `Trans.powi`).
  `Monoid.toNPow` is erased locally so that `(2 : Int) ^ k` in the statements is core's `Int.pow`, as in the Mathlib-free files.
-/
attribute [-instance] Monoid.toNPow

namespace Sfx.ExpPf
open Sfx.Trans Sfx.SqrtPf Sfx.TransFacts Sfx.ConvPf

/-! ### the checked operations -/

theorem pos_n {D : Layout} (hv : D.valid) : 0 < D.n := by
  have := (C01.valid_facts hv).1; omega

theorem checkedMul_eq (D : Layout) (hv : D.valid) (a b : Int) (ha : inRange D a) (hb : inRange D b) :
    D.checkedMul a b = .ok (D.chk (mulSpec D.f a b)) false :=
  (mul_forms D (pos_n hv) a b ha hb (C01.mulOverflow_spec D hv a b ha hb)).1.checked

theorem checkedDiv_eq (D : Layout) (hv : D.valid) (a b : Int) (ha : inRange D a) (hb : inRange D b) (hb0 : b ≠ 0) :
    D.checkedDiv a b = .ok (D.chk (divSpec D.f a b)) false :=
  (div_forms D (pos_n hv) (C01.valid_facts hv).2.2.2 a b ha hb hb0 (C01.divOverflow_spec D hv a b ha hb hb0)).1.checked

theorem checkedDiv_zero (D : Layout) (a : Int) : D.checkedDiv a 0 = .ok none false := rfl
theorem checkedAdd_eq (D : Layout) (a b : Int) : D.checkedAdd a b = .ok (D.chk (a + b)) false := rfl
theorem checkedNeg_eq (D : Layout) (a : Int) : D.checkedNeg a = .ok (D.chk (-a)) false := rfl

theorem chk_in (D : Layout) {E : Int} (h : inRange D E) : D.chk E = some E := by
  unfold inRange at h; unfold Layout.chk chkI; rw [if_pos h]
theorem chk_out (D : Layout) {E : Int} (h : ¬ inRange D E) : D.chk E = none := by
  unfold inRange at h; unfold Layout.chk chkI; rw [if_neg h]
theorem chk_some (D : Layout) {E r : Int} (h : D.chk E = some r) : r = E ∧ inRange D E := by
  by_cases hE : inRange D E
  · rw [chk_in D hE] at h; injection h with h; exact ⟨h.symm, hE⟩
  · rw [chk_out D hE] at h; cases h

/-! ### totality predicate on `TR` -/

/-- started with the counter at `n`, the computation does not panic, fires no debug-only check, and a returned value satisfies `P` -/
def TotAt {α : Type} (m : TR α) (n : Nat) (P : α → Prop) : Prop :=
  (∃ v n', m n = .ok (some v, n') false ∧ P v) ∨ (∃ n', m n = .ok (none, n') false)

def Tot {α : Type} (m : TR α) (P : α → Prop) : Prop := ∀ n, TotAt m n P

theorem TotAt.bind {α β : Type} {m : TR α} {k : α → TR β} {n : Nat} {P : α → Prop} {Q : β → Prop}
    (hm : TotAt m n P) (hk : ∀ v, P v → Tot (k v) Q) : TotAt (m >>= k) n Q := by
  rcases hm with ⟨v, n', he, hp⟩ | ⟨n', he⟩
  · show (∃ w n'', (m >>= k) n = _ ∧ _) ∨ _
    rw [bind_of_eq _ _ _ _ _ he]; exact hk v hp n'
  · exact Or.inr ⟨n', bind_of_none _ _ _ _ he⟩

theorem Tot.bind {α β : Type} {m : TR α} {k : α → TR β} {P : α → Prop} {Q : β → Prop}
    (hm : Tot m P) (hk : ∀ v, P v → Tot (k v) Q) : Tot (m >>= k) Q := fun n => (hm n).bind hk

theorem TotAt.mono {α : Type} {m : TR α} {n : Nat} {P Q : α → Prop} (hm : TotAt m n P) (h : ∀ v, P v → Q v) : TotAt m n Q := by
  rcases hm with ⟨v, n', he, hp⟩ | ⟨n', he⟩
  · exact Or.inl ⟨v, n', he, h v hp⟩
  · exact Or.inr ⟨n', he⟩

theorem Tot.mono {α : Type} {m : TR α} {P Q : α → Prop} (hm : Tot m P) (h : ∀ v, P v → Q v) : Tot m Q :=
  fun n => (hm n).mono h

theorem Tot.pure {α : Type} {P : α → Prop} (v : α) (h : P v) : Tot (pure v : TR α) P :=
  fun n => Or.inl ⟨v, n, rfl, h⟩

theorem Tot.err {α : Type} {P : α → Prop} : Tot (err : TR α) P := fun n => Or.inr ⟨n, rfl⟩

theorem Tot.tick : Tot tick (fun _ => True) := fun n => Or.inl ⟨(), n + 1, rfl, trivial⟩

theorem Tot.liftO {α : Type} {P : α → Prop} {o : Outcome α} (v : α) (h : o = .ok v false) (hp : P v) : Tot (liftO o) P := by
  subst h; exact fun n => Or.inl ⟨v, n, rfl, hp⟩

/-- a `checked_*` whose model is `chk` of an exact result -/
theorem Tot.liftOpt_chk (D : Layout) (E : Int) {o : Outcome (Option Int)} (h : o = .ok (D.chk E) false) :
    Tot (liftOpt o) (fun r => r = E ∧ inRange D E) := by
  subst h
  intro n
  by_cases hE : inRange D E
  · refine Or.inl ⟨E, n, ?_, rfl, hE⟩
    rw [chk_in D hE]; rfl
  · refine Or.inr ⟨n, ?_⟩
    rw [chk_out D hE]; rfl

theorem Tot.liftOpt_chk' (D : Layout) (E : Int) {o : Outcome (Option Int)} (h : o = .ok (D.chk E) false) :
    Tot (liftOpt o) (inRange D) :=
  (Tot.liftOpt_chk D E h).mono (fun r hr => by rw [hr.1]; exact hr.2)

theorem Tot.liftOpt_none {α : Type} {P : α → Prop} {o : Outcome (Option α)} (h : o = .ok none false) : Tot (liftOpt o) P := by
  subst h; exact fun n => Or.inr ⟨n, rfl⟩

theorem Tot.ite {α : Type} {P : α → Prop} {c : Prop} [Decidable c] {a b : TR α} (ha : Tot a P) (hb : Tot b P) :
    Tot (if c then a else b) P := by
  by_cases h : c
  · rw [if_pos h]; exact ha
  · rw [if_neg h]; exact hb

/-- checked division is total on in-range operands (zero divisor: `None`) -/
theorem Tot.checkedDiv (D : Layout) (hv : D.valid) (a b : Int) (ha : inRange D a) (hb : inRange D b) :
    Tot (liftOpt (D.checkedDiv a b)) (inRange D) := by
  by_cases hb0 : b = 0
  · subst hb0; exact Tot.liftOpt_none (checkedDiv_zero D a)
  · exact Tot.liftOpt_chk' D _ (checkedDiv_eq D hv a b ha hb hb0)

theorem Tot.checkedMul (D : Layout) (hv : D.valid) (a b : Int) (ha : inRange D a) (hb : inRange D b) :
    Tot (liftOpt (D.checkedMul a b)) (inRange D) :=
  Tot.liftOpt_chk' D _ (checkedMul_eq D hv a b ha hb)

theorem Tot.checkedAdd (D : Layout) (a b : Int) : Tot (liftOpt (D.checkedAdd a b)) (inRange D) :=
  Tot.liftOpt_chk' D _ (checkedAdd_eq D a b)

theorem Tot.checkedNeg (D : Layout) (a : Int) : Tot (liftOpt (D.checkedNeg a)) (inRange D) :=
  Tot.liftOpt_chk' D _ (checkedNeg_eq D a)

/-! ### conversions of literals and constants -/

/-- small literals fit a signed layout with nine integer bits -/
theorem small_inRange (D : Layout) (hs : D.signed = true) (hint : 9 ≤ D.intBits) (k : Int) (h0 : 0 ≤ k)
    (h1 : k ≤ 255) : inRange D (k * 2 ^ D.f) := by
  have hpos := two_pow_pos D.f
  unfold Layout.intBits at hint
  have hsplit : (2 : Int) ^ (D.n - 1) = 2 ^ (D.n - 1 - D.f) * 2 ^ D.f := by rw [← Int.pow_add]; congr 1; omega
  have h256 : (256 : Int) ≤ 2 ^ (D.n - 1 - D.f) := by
    have := pow_le_pow (a := 8) (b := D.n - 1 - D.f) (by omega)
    simpa using this
  have hm : 256 * 2 ^ D.f ≤ (2 : Int) ^ (D.n - 1 - D.f) * 2 ^ D.f := Int.mul_le_mul_of_nonneg_right h256 (Int.le_of_lt hpos)
  have hk : k * 2 ^ D.f ≤ 255 * 2 ^ D.f := Int.mul_le_mul_of_nonneg_right h1 (Int.le_of_lt hpos)
  have hk0 : 0 ≤ k * 2 ^ D.f := Int.mul_nonneg h0 (Int.le_of_lt hpos)
  unfold inRange
  rw [hs, inS_iff]
  omega

/-- `D::from_num(i)` for a small `u32` literal -/
theorem fromNumU_ok (D : Layout) (hv : D.valid) (k : Int) (hk : inI false 32 k) (hfit : inRange D (k * 2 ^ D.f)) :
    Trans.fromNumU D k = .ok (k * 2 ^ D.f) false := by
  have h := (fromInt_spec D hv false 32 (by decide) k hk).2.2.2.2
  unfold Trans.fromNumU
  rw [h]
  have hw : D.wrap (k * 2 ^ D.f) = k * 2 ^ D.f := wrapI_of_in (pos_n hv) hfit
  rw [hw]; simp [hfit]

theorem fromS_self (D : Layout) (x : Int) : Trans.fromS D D x = .ok x false := by
  unfold Trans.fromS; rw [if_pos rfl]; rfl

theorem inC_E : inRange Trans.C Trans.E := by decide

/-- what `exp` / `pow` / `powi` need from the layout `D` -/
structure Facts (D : Layout) : Prop where
  valid : D.valid
  f2 : 2 ≤ D.f
  zero : Trans.fromNumI D 0 = .ok 0 false
  one : Trans.fromNumI D 1 = .ok (2 ^ D.f) false
  oneR : inRange D (2 ^ D.f)
  numU : ∀ i : Nat, 2 ≤ i → i < D.f → Trans.fromNumU D i = .ok (i * 2 ^ D.f) false ∧ inRange D (i * 2 ^ D.f)
  e : ∃ v, Trans.fromS Trans.C D Trans.E = .ok v false ∧ inRange D v

theorem inRange_zero (D : Layout) : inRange D 0 := inI_zero D.signed D.n

theorem fromNumI_zero (D : Layout) (hv : D.valid) : Trans.fromNumI D 0 = .ok 0 false := by
  have := fromNumI_ok D hv 0 (by decide) (by rw [Int.zero_mul]; exact inRange_zero D)
  rwa [Int.zero_mul] at this

theorem facts (D : Layout) (hv : D.valid) (hs : D.signed = true) (hf : 23 ≤ D.f) (hint : 9 ≤ D.intBits) : Facts D := by
  have h1 : inRange D (2 ^ D.f) := by
    have := small_inRange D hs hint 1 (by omega) (by omega)
    rwa [Int.one_mul] at this
  refine ⟨hv, by omega, fromNumI_zero D hv, ?_, h1, fun i hi2 hif => ?_, ?_⟩
  · have := fromNumI_ok D hv 1 (by decide) (by rw [Int.one_mul]; exact h1)
    rwa [Int.one_mul] at this
  · have hn128 : D.n ≤ 128 := by obtain ⟨h, _⟩ := hv; omega
    have hfn := hv.2
    have hr : inRange D ((i : Int) * 2 ^ D.f) := small_inRange D hs hint i (by omega) (by omega)
    refine ⟨fromNumU_ok D hv i ?_ hr, hr⟩
    rw [inU_iff]
    have : (2 : Int) ^ 32 = 4294967296 := by decide
    omega
  · by_cases hCD : Trans.C = D
    · refine ⟨Trans.E, ?_, ?_⟩
      · unfold Trans.fromS; rw [if_pos hCD]; rfl
      · rw [← hCD]; exact inC_E
    · have hadm : fromAdmissible Trans.C D := by
        unfold fromAdmissible Layout.intBits at *
        refine ⟨hf, ?_⟩
        rw [if_pos (by rw [hs]; rfl)]
        exact hint
      obtain ⟨a, b, _⟩ := fromLossless_spec Trans.C D C_valid hv hadm Trans.E inC_E
      refine ⟨_, ?_, b⟩
      unfold Trans.fromS; rw [if_neg hCD]; exact a

/-! ### `exp` -/

theorem expLoop_tot (D : Layout) (hc : Facts D) (x : Int) (hx : inRange D x) :
    ∀ (k i : Nat) (term result : Int), 2 ≤ i → i + k ≤ D.f → inRange D term → inRange D result →
      Tot (expLoop D x k i term result) (inRange D)
  | 0, _, _, result, _, _, _, hr => Tot.pure result hr
  | k + 1, i, term, result, hi, hik, ht, hr => by
    obtain ⟨hnum, hnumR⟩ := hc.numU i hi (by omega)
    have hP := two_pow_pos D.f
    have hne : (i : Int) * 2 ^ D.f ≠ 0 := by
      have : 2 * 2 ^ D.f ≤ (i : Int) * 2 ^ D.f := Int.mul_le_mul_of_nonneg_right (by omega) (Int.le_of_lt hP)
      omega
    show Tot (tick >>= fun _ => liftOpt (D.checkedMul term x) >>= fun term => liftO (fromNumU D i) >>= fun iv =>
      liftOpt (D.checkedDiv term iv) >>= fun term => liftOpt (D.checkedAdd result term) >>= fun result =>
      expLoop D x k (i + 1) term result) (inRange D)
    refine Tot.tick.bind fun _ _ => ?_
    refine (Tot.checkedMul D hc.valid term x ht hx).bind fun t1 ht1 => ?_
    refine (Tot.liftO _ hnum rfl).bind fun iv hiv => ?_
    subst hiv
    refine (Tot.liftOpt_chk' D _ (checkedDiv_eq D hc.valid t1 _ ht1 hnumR hne)).bind fun t2 ht2 => ?_
    refine (Tot.checkedAdd D result t2).bind fun r2 hr2 => ?_
    exact expLoop_tot D hc x hx k (i + 1) t2 r2 (by omega) (by omega) ht2 hr2

/-- `exp` after the two early returns, the optional negation and the conversion `D::from(operand)` -/
def expBody (D : Layout) (neg : Bool) (x : Int) : TR Int :=
  liftO (fromNumI D 1) >>= fun one => liftOpt (D.checkedAdd x one) >>= fun result =>
  expLoop D x (D.f - 2) 2 x result >>= fun result =>
  if neg then (liftO (fromNumI D 1) >>= fun one => liftOpt (D.checkedDiv one result)) else pure result

theorem exp_eq (S D : Layout) (x : Int) : Trans.exp S D x =
    if S.eqFixed C x ZERO then liftO (fromNumI D 1) else
    if S.eqFixed C x ONE then liftO (fromS C D E) else
    (if S.ltFixed C x ZERO then liftOpt (S.checkedNeg x) else pure x) >>= fun x' =>
    liftO (fromS S D x') >>= fun x'' => expBody D (S.ltFixed C x ZERO) x'' := rfl

theorem expBody_tot (D : Layout) (hc : Facts D) (neg : Bool) (x : Int) (hx : inRange D x) :
    Tot (expBody D neg x) (inRange D) := by
  unfold expBody
  refine (Tot.liftO _ hc.one rfl).bind fun one h1 => ?_
  subst h1
  refine (Tot.checkedAdd D x _).bind fun r hr => ?_
  refine (expLoop_tot D hc x hx (D.f - 2) 2 x r (by omega) (by have := hc.f2; omega) hx hr).bind fun r' hr' => ?_
  cases neg
  · exact Tot.pure r' hr'
  · refine (Tot.liftO _ hc.one rfl).bind fun one h1 => ?_
    subst h1
    exact Tot.checkedDiv D hc.valid _ _ hc.oneR hr'

/-- totality of `exp::<S, D>` given that `D::from(S)` is total and lands in range (`hfrom`) -/
theorem exp_tot_gen (S D : Layout) (hc : Facts D)
    (hfrom : ∀ x, inRange S x → ∃ x', Trans.fromS S D x = .ok x' false ∧ inRange D x') (x : Int) (hx : inRange S x) :
    Tot (Trans.exp S D x) (inRange D) := by
  rw [exp_eq]
  refine Tot.ite (Tot.liftO _ hc.one hc.oneR) (Tot.ite ?_ ?_)
  · obtain ⟨v, hv1, hv2⟩ := hc.e
    exact Tot.liftO v hv1 hv2
  · have hx' : Tot (if S.ltFixed C x ZERO then liftOpt (S.checkedNeg x) else pure x) (inRange S) :=
      Tot.ite (Tot.checkedNeg S x) (Tot.pure x hx)
    refine hx'.bind fun x' hx' => ?_
    obtain ⟨x'', e1, e2⟩ := hfrom x' hx'
    refine (Tot.liftO x'' e1 e2).bind fun y hy => ?_
    exact expBody_tot D hc _ y hy

theorem exp_tot (D : Layout) (hc : Facts D) (x : Int) (hx : inRange D x) : Tot (Trans.exp D D x) (inRange D) :=
  exp_tot_gen D D hc (fun y hy => ⟨y, fromS_self D y, hy⟩) x hx

/-- C12 for `exp::<D, D>`: no panic and no debug-only check, for every operand -/
theorem exp_total (D : Layout) (hv : D.valid) (hs : D.signed = true) (hf : 23 ≤ D.f) (hint : 9 ≤ D.intBits)
    (x : Int) (hx : inRange D x) :
    match Trans.run (Trans.exp D D x) with
    | .ok (_, _) dbg => dbg = false
    | .panic => False := by
  unfold Trans.run
  rcases exp_tot D (facts D hv hs hf hint) x hx 0 with ⟨v, n', he, _⟩ | ⟨n', he⟩ <;> rw [he]

/-! ### `powi` -/

theorem powiLoop_tot (D : Layout) (hv : D.valid) (x : Int) (hx : inRange D x) :
    ∀ (k : Nat) (r : Int), inRange D r → Tot (powiLoop D x k r) (inRange D)
  | 0, r, hr => Tot.pure r hr
  | k + 1, r, hr => by
    show Tot (tick >>= fun _ => liftOpt (D.checkedMul r x) >>= fun r => powiLoop D x k r) (inRange D)
    refine Tot.tick.bind fun _ _ => ?_
    refine (Tot.checkedMul D hv r x hr hx).bind fun r1 hr1 => ?_
    exact powiLoop_tot D hv x hx k r1 hr1

/-- `powi` after the three early returns -/
def powiBody (S D : Layout) (x : Int) (n : Int) : TR Int :=
  liftO (fromS S D x) >>= fun x' => powiLoop D x' (n.natAbs - 1) x' >>= fun r =>
  if n < 0 then (liftO (fromNumI D 1) >>= fun one => liftOpt (D.checkedDiv one r)) else pure r

theorem powi_eq (S D : Layout) (x : Int) (n : Int) : Trans.powi S D x n =
    liftO (fromNumI S 0) >>= fun z => if x = z then liftO (fromNumI D 0) else
    if n = 0 then liftO (fromNumI D 1) else
    if n = 1 then liftO (fromS S D x) else powiBody S D x n := rfl

/-- totality of `powi::<S, D>` given that `D::from(S)` is total and lands in range (`hfrom`), for EVERY integer exponent -/
theorem powi_tot_gen (S D : Layout) (hS : S.valid) (hc : Facts D)
    (hfrom : ∀ x, inRange S x → ∃ x', Trans.fromS S D x = .ok x' false ∧ inRange D x') (x : Int) (hx : inRange S x) (n : Int) :
    Tot (Trans.powi S D x n) (inRange D) := by
  rw [powi_eq]
  obtain ⟨x', e1, e2⟩ := hfrom x hx
  refine (Tot.liftO _ (fromNumI_zero S hS) rfl).bind fun z hz => ?_
  refine Tot.ite (Tot.liftO _ hc.zero (inRange_zero D)) (Tot.ite (Tot.liftO _ hc.one hc.oneR) (Tot.ite (Tot.liftO x' e1 e2) ?_))
  unfold powiBody
  refine (Tot.liftO x' e1 e2).bind fun y hy => ?_
  refine (powiLoop_tot D hc.valid y hy _ y hy).bind fun r hr => ?_
  refine Tot.ite ?_ (Tot.pure r hr)
  refine (Tot.liftO _ hc.one rfl).bind fun one h1 => ?_
  subst h1
  exact Tot.checkedDiv D hc.valid _ _ hc.oneR hr

theorem powi_tot (D : Layout) (hc : Facts D) (x : Int) (hx : inRange D x) (n : Int) : Tot (Trans.powi D D x n) (inRange D) :=
  powi_tot_gen D D hc.valid hc (fun y hy => ⟨y, fromS_self D y, hy⟩) x hx n

/-- C12 for `powi::<D, D>`: no panic and no debug-only check, for every operand and every exponent (in particular all `2^32`
values of an `i32`; the hypothesis `inI true 32 n` is not needed) -/
theorem powi_total (D : Layout) (hv : D.valid) (hs : D.signed = true) (hf : 23 ≤ D.f) (hint : 9 ≤ D.intBits)
    (x : Int) (hx : inRange D x) (n : Int) :
    match Trans.run (Trans.powi D D x n) with
    | .ok (_, _) dbg => dbg = false
    | .panic => False := by
  unfold Trans.run
  rcases powi_tot D (facts D hv hs hf hint) x hx n 0 with ⟨v, n', he, _⟩ | ⟨n', he⟩ <;> rw [he]

/-! ### `pow` -/

theorem pow_eq (S D : Layout) (x y : Int) : Trans.pow S D x y =
    liftO (fromNumI S 0) >>= fun z => if x = z then liftO (fromNumI D 0) else
    liftO (fromNumI S 0) >>= fun z => if y = z then liftO (fromNumI D 1) else
    liftO (fromNumI S 1) >>= fun o => if y = o then liftO (fromS S D x) else
    ln S D x >>= fun l => liftO (fromS S D y) >>= fun yd => liftOpt (D.checkedMul l yd) >>= fun r =>
    exp D D r >>= fun result =>
    match Layout.overflowingFromFixed D D result with
    | (result, oflw) => if oflw then err else pure result := rfl

/-- the hypothesis on `ln` in the shape used here -/
theorem lnTot_of_match (S D : Layout) (x : Int)
    (h : match Trans.run (Trans.ln S D x) with
      | .ok (some r, _) dbg => dbg = false ∧ inRange D r
      | .ok (none, _) dbg => dbg = false
      | .panic => False) : TotAt (Trans.ln S D x) 0 (inRange D) := by
  unfold Trans.run at h
  unfold TotAt
  cases hl : Trans.ln S D x 0 with
  | panic => rw [hl] at h; exact h.elim
  | ok v dbg =>
    rw [hl] at h
    obtain ⟨o, n'⟩ := v
    cases o with
    | none => simp only at h; subst h; exact Or.inr ⟨n', rfl⟩
    | some r => simp only at h; obtain ⟨h1, h2⟩ := h; subst h1; exact Or.inl ⟨r, n', rfl, h2⟩

theorem liftO_bind_totAt {α β : Type} {o : Outcome α} (v : α) (h : o = .ok v false) {k : α → TR β} {n : Nat} {Q : β → Prop}
    (hk : TotAt (k v) n Q) : TotAt (liftO o >>= k) n Q := by
  subst h
  unfold TotAt
  rw [liftO_bind]; exact hk

theorem TotAt.ite {α : Type} {P : α → Prop} {n : Nat} {c : Prop} [Decidable c] {a b : TR α} (ha : TotAt a n P) (hb : TotAt b n P) :
    TotAt (if c then a else b) n P := by
  by_cases h : c
  · rw [if_pos h]; exact ha
  · rw [if_neg h]; exact hb

/-- totality of `pow::<S, D>` at the initial counter, given totality of `ln::<S, D>` at the initial counter -/
theorem pow_totAt_gen (S D : Layout) (hS : S.valid) (hS1 : inRange S (2 ^ S.f)) (hc : Facts D)
    (hfrom : ∀ x, inRange S x → ∃ x', Trans.fromS S D x = .ok x' false ∧ inRange D x') (x y : Int)
    (hx : inRange S x) (hy : inRange S y) (hln : TotAt (Trans.ln S D x) 0 (inRange D)) :
    TotAt (Trans.pow S D x y) 0 (fun _ => True) := by
  rw [pow_eq]
  obtain ⟨x', e1, e2⟩ := hfrom x hx
  obtain ⟨y', f1, f2⟩ := hfrom y hy
  have hone : Trans.fromNumI S 1 = .ok (2 ^ S.f) false := by
    have := fromNumI_ok S hS 1 (by decide) (by rw [Int.one_mul]; exact hS1)
    rwa [Int.one_mul] at this
  refine liftO_bind_totAt _ (fromNumI_zero S hS) (TotAt.ite (Tot.liftO _ hc.zero trivial 0) ?_)
  refine liftO_bind_totAt _ (fromNumI_zero S hS) (TotAt.ite (Tot.liftO _ hc.one trivial 0) ?_)
  refine liftO_bind_totAt _ hone (TotAt.ite (Tot.liftO _ e1 trivial 0) ?_)
  refine hln.bind fun l hl => ?_
  refine (Tot.liftO y' f1 f2).bind fun yd hyd => ?_
  refine (Tot.checkedMul D hc.valid l yd hl hyd).bind fun r hr => ?_
  refine (exp_tot D hc r hr).bind fun res _ => ?_
  cases Layout.overflowingFromFixed D D res with
  | mk v o =>
    show Tot (if o then err else pure v) _
    exact Tot.ite Tot.err (Tot.pure v trivial)

/-- C12 for `pow::<D, D>`: no panic and no debug-only check, for all operands, given the totality of `ln` (`hln`) -/
theorem pow_total_of_ln (D : Layout) (hv : D.valid) (hs : D.signed = true) (hf : 23 ≤ D.f) (hint : 9 ≤ D.intBits)
    (hln : ∀ x, inRange D x → match Trans.run (Trans.ln D D x) with
      | .ok (some r, _) dbg => dbg = false ∧ inRange D r
      | .ok (none, _) dbg => dbg = false
      | .panic => False)
    (x y : Int) (hx : inRange D x) (hy : inRange D y) :
    match Trans.run (Trans.pow D D x y) with
    | .ok (_, _) dbg => dbg = false
    | .panic => False := by
  have hc := facts D hv hs hf hint
  unfold Trans.run
  rcases pow_totAt_gen D D hv hc.oneR hc (fun y hy => ⟨y, fromS_self D y, hy⟩) x y hx hy
    (lnTot_of_match D D x (hln x hx)) with ⟨v, n', he, _⟩ | ⟨n', he⟩ <;> rw [he]

/-! ### the same for a source layout `S ≠ D` with `D: From<S>` -/

theorem from_total (S D : Layout) (hS : S.valid) (hD : D.valid) (hadm : S = D ∨ fromAdmissible S D) :
    ∀ x, inRange S x → ∃ x', Trans.fromS S D x = .ok x' false ∧ inRange D x' := by
  intro x hx
  by_cases hSD : S = D
  · subst hSD; exact ⟨x, fromS_self S x, hx⟩
  · rcases hadm with h | h
    · exact (hSD h).elim
    · obtain ⟨a, b, _⟩ := fromLossless_spec S D hS hD h x hx
      refine ⟨_, ?_, b⟩
      unfold Trans.fromS; rw [if_neg hSD]; exact a

theorem exp_total_from (S D : Layout) (hS : S.valid) (hv : D.valid) (hs : D.signed = true) (hf : 23 ≤ D.f) (hint : 9 ≤ D.intBits)
    (hadm : S = D ∨ fromAdmissible S D) (x : Int) (hx : inRange S x) :
    match Trans.run (Trans.exp S D x) with
    | .ok (_, _) dbg => dbg = false
    | .panic => False := by
  unfold Trans.run
  rcases exp_tot_gen S D (facts D hv hs hf hint) (from_total S D hS hv hadm) x hx 0 with ⟨v, n', he, _⟩ | ⟨n', he⟩ <;> rw [he]

theorem powi_total_from (S D : Layout) (hS : S.valid) (hv : D.valid) (hs : D.signed = true) (hf : 23 ≤ D.f) (hint : 9 ≤ D.intBits)
    (hadm : S = D ∨ fromAdmissible S D) (x : Int) (hx : inRange S x) (n : Int) :
    match Trans.run (Trans.powi S D x n) with
    | .ok (_, _) dbg => dbg = false
    | .panic => False := by
  unfold Trans.run
  rcases powi_tot_gen S D hS (facts D hv hs hf hint) (from_total S D hS hv hadm) x hx n 0 with ⟨v, n', he, _⟩ | ⟨n', he⟩ <;> rw [he]

/-- `pow::<S, D>`: the source layout must have room for the literal 1 (`hS1`), which `exponent == S::from_num(1)` converts with a
`debug_assert!` -/
theorem pow_total_of_ln_from (S D : Layout) (hS : S.valid) (hS1 : inRange S (2 ^ S.f)) (hv : D.valid) (hs : D.signed = true)
    (hf : 23 ≤ D.f) (hint : 9 ≤ D.intBits) (hadm : S = D ∨ fromAdmissible S D)
    (hln : ∀ x, inRange S x → match Trans.run (Trans.ln S D x) with
      | .ok (some r, _) dbg => dbg = false ∧ inRange D r
      | .ok (none, _) dbg => dbg = false
      | .panic => False)
    (x y : Int) (hx : inRange S x) (hy : inRange S y) :
    match Trans.run (Trans.pow S D x y) with
    | .ok (_, _) dbg => dbg = false
    | .panic => False := by
  unfold Trans.run
  rcases pow_totAt_gen S D hS hS1 (facts D hv hs hf hint) (from_total S D hS hv hadm) x y hx hy
    (lnTot_of_match S D x (hln x hx)) with ⟨v, n', he, _⟩ | ⟨n', he⟩ <;> rw [he]

/-! ## C15: conventions and accuracy of `powi`, conventions of `pow` -/

theorem bind_pure' {α : Type} (m : TR α) (n : Nat) : (m >>= fun r => (pure r : TR α)) n = m n := by
  show TR.bind m _ n = _
  unfold TR.bind
  cases h : m n with
  | panic => rfl
  | ok v d =>
    obtain ⟨o, n'⟩ := v
    cases o with
    | none => simp [Outcome.bind]
    | some r => simp [Outcome.bind, pure]

/-- `0^n = 0`, `x^0 = 1`, `x^1 = x` (for `x ≠ 0`), each without a single loop iteration -/
theorem powi_conventions (D : Layout) (hv : D.valid) (hs : D.signed = true) (hf : 23 ≤ D.f) (hint : 9 ≤ D.intBits)
    (x : Int) (n : Int) :
    (x = 0 → Trans.run (Trans.powi D D 0 n) = .ok (some 0, 0) false) ∧
    (x ≠ 0 → Trans.run (Trans.powi D D x 0) = .ok (some (2 ^ D.f), 0) false) ∧
    (x ≠ 0 → Trans.run (Trans.powi D D x 1) = .ok (some x, 0) false) := by
  have hc := facts D hv hs hf hint
  unfold Trans.run
  refine ⟨fun _ => ?_, fun hx => ?_, fun hx => ?_⟩
  · rw [powi_eq, hc.zero, liftO_bind, if_pos rfl]; rfl
  · rw [powi_eq, hc.zero, liftO_bind, if_neg hx, if_pos rfl, hc.one]; rfl
  · rw [powi_eq, hc.zero, liftO_bind, if_neg hx, if_neg (by decide), if_pos rfl, fromS_self]; rfl

/-- `0^y = 0`, `x^0 = 1`, `x^1 = x` (for `x ≠ 0`): the three early returns of `pow` -/
theorem pow_conventions (D : Layout) (hv : D.valid) (hs : D.signed = true) (hf : 23 ≤ D.f) (hint : 9 ≤ D.intBits)
    (x y : Int) :
    (x = 0 → Trans.run (Trans.pow D D 0 y) = .ok (some 0, 0) false) ∧
    (x ≠ 0 → Trans.run (Trans.pow D D x 0) = .ok (some (2 ^ D.f), 0) false) ∧
    (x ≠ 0 → Trans.run (Trans.pow D D x (2 ^ D.f)) = .ok (some x, 0) false) := by
  have hc := facts D hv hs hf hint
  have hP := two_pow_pos D.f
  unfold Trans.run
  refine ⟨fun _ => ?_, fun hx => ?_, fun hx => ?_⟩
  · rw [pow_eq, hc.zero, liftO_bind, if_pos rfl]; rfl
  · rw [pow_eq, hc.zero, liftO_bind, if_neg hx, liftO_bind, if_pos rfl, hc.one]; rfl
  · rw [pow_eq, hc.zero, liftO_bind, if_neg hx, liftO_bind, if_neg (by omega), hc.one, liftO_bind, if_pos rfl, fromS_self]; rfl

/-! ### evaluation of `powi` outside the early returns -/

theorem powi_eval_pos (D : Layout) (hc : Facts D) (x : Int) (hx0 : x ≠ 0) (n : Int) (hn : 2 ≤ n) :
    Trans.powi D D x n = powiLoop D x (n.toNat - 1) x := by
  funext m
  rw [powi_eq, hc.zero, liftO_bind, if_neg hx0, if_neg (by omega), if_neg (by omega)]
  unfold powiBody
  rw [fromS_self, liftO_bind]
  have hk : n.natAbs - 1 = n.toNat - 1 := by omega
  have hlt : ¬ n < 0 := by omega
  simp only [hk, hlt, if_false]
  exact bind_pure' _ m

theorem powi_eval_neg (D : Layout) (hc : Facts D) (x : Int) (hx0 : x ≠ 0) (n : Int) (hn : n < 0) :
    Trans.powi D D x n = powiLoop D x (n.natAbs - 1) x >>= fun r => liftOpt (D.checkedDiv (2 ^ D.f) r) := by
  funext m
  rw [powi_eq, hc.zero, liftO_bind, if_neg hx0, if_neg (by omega), if_neg (by omega)]
  unfold powiBody
  rw [fromS_self, liftO_bind]
  simp only [hn, if_true]
  have hk : (fun r => liftO (fromNumI D 1) >>= fun one => liftOpt (D.checkedDiv one r)) =
      fun r => liftOpt (D.checkedDiv (2 ^ D.f) r) := by
    funext r m'
    rw [hc.one, liftO_bind]
  show (powiLoop D x (n.natAbs - 1) x >>= fun r => liftO (fromNumI D 1) >>= fun one => liftOpt (D.checkedDiv one r)) m = _
  rw [hk]

theorem powi_one (D : Layout) (hc : Facts D) (x : Int) (hx0 : x ≠ 0) : Trans.powi D D x 1 = (pure x : TR Int) := by
  funext m
  rw [powi_eq, hc.zero, liftO_bind, if_neg hx0, if_neg (by decide), if_pos rfl, fromS_self]
  rfl

/-- a negative exponent: the result is the checked reciprocal `1 / x^|n|` of the result for `|n|` -/
theorem powi_negative (D : Layout) (hv : D.valid) (hs : D.signed = true) (hf : 23 ≤ D.f) (hint : 9 ≤ D.intBits)
    (x : Int) (hx0 : x ≠ 0) (n : Int) (hn : n < 0) :
    Trans.powi D D x n = Trans.powi D D x (-n) >>= fun r => liftOpt (D.checkedDiv (2 ^ D.f) r) := by
  have hc := facts D hv hs hf hint
  rw [powi_eval_neg D hc x hx0 n hn]
  by_cases h1 : n = -1
  · subst h1
    have e : (-(-1 : Int)) = 1 := by decide
    rw [e, powi_one D hc x hx0]
    rfl
  · rw [powi_eval_pos D hc x hx0 (-n) (by omega)]
    have hk : n.natAbs - 1 = (-n).toNat - 1 := by omega
    rw [hk]

/-- the same on evaluated runs: `Err` if the result for `|n|` is `Err`, is zero, or has no representable reciprocal;
otherwise the reciprocal truncated toward zero; the iteration count is unchanged -/
theorem powi_negative_run (D : Layout) (hv : D.valid) (hs : D.signed = true) (hf : 23 ≤ D.f) (hint : 9 ≤ D.intBits)
    (x : Int) (hx : inRange D x) (hx0 : x ≠ 0) (n : Int) (hn : n < 0) :
    (∃ r' it, Trans.run (Trans.powi D D x (-n)) = .ok (some r', it) false ∧ inRange D r' ∧
      Trans.run (Trans.powi D D x n) = .ok (if r' = 0 then none else D.chk (divSpec D.f (2 ^ D.f) r'), it) false) ∨
    (∃ it, Trans.run (Trans.powi D D x (-n)) = .ok (none, it) false ∧ Trans.run (Trans.powi D D x n) = .ok (none, it) false) := by
  have hc := facts D hv hs hf hint
  unfold Trans.run
  rw [powi_negative D hv hs hf hint x hx0 n hn]
  rcases powi_tot D hc x hx (-n) 0 with ⟨r', it, he, hr'⟩ | ⟨it, he⟩
  · refine Or.inl ⟨r', it, he, hr', ?_⟩
    rw [bind_of_eq _ _ _ _ _ he]
    by_cases h0 : r' = 0
    · rw [if_pos h0, h0]
      rfl
    · rw [if_neg h0, checkedDiv_eq D hv _ _ hc.oneR hr' h0]; rfl
  · exact Or.inr ⟨it, he, bind_of_none _ _ _ _ he⟩

/-! ### accuracy of the repeated truncated product -/

/-- `max(1, |x|)` on the grid of `D`: `max(2^f, |x|)` -/
def Mx (D : Layout) (x : Int) : Int := max (2 ^ D.f) (x.natAbs : Int)

theorem pow_le_pow_base (a b : Int) (ha : 0 ≤ a) (hab : a ≤ b) : ∀ n : Nat, a ^ n ≤ b ^ n
  | 0 => by rw [Int.pow_zero, Int.pow_zero]
  | n + 1 => by
    rw [Int.pow_succ, Int.pow_succ]
    exact Int.mul_le_mul (pow_le_pow_base a b ha hab n) hab ha (Int.pow_nonneg (Int.le_trans ha hab))

/-- the loop started at `r0 ≈ x^(j+1)` (error at most `j·M^j` in units of `2^(-f(j+1))`) and run for `k` steps -/
theorem powiLoop_err (D : Layout) (hv : D.valid) (x : Int) (hx : inRange D x) :
    ∀ (k j : Nat) (r0 : Int) (m : Nat) (r : Int) (m' : Nat) (dbg : Bool), inRange D r0 →
      -((j : Int) * Mx D x ^ j) ≤ r0 * (2 ^ D.f) ^ j - x ^ (j + 1) → r0 * (2 ^ D.f) ^ j - x ^ (j + 1) ≤ (j : Int) * Mx D x ^ j →
      powiLoop D x k r0 m = .ok (some r, m') dbg →
      -(((j + k : Nat) : Int) * Mx D x ^ (j + k)) ≤ r * (2 ^ D.f) ^ (j + k) - x ^ (j + k + 1) ∧
        r * (2 ^ D.f) ^ (j + k) - x ^ (j + k + 1) ≤ ((j + k : Nat) : Int) * Mx D x ^ (j + k)
  | 0, j, r0, m, r, m', dbg, _, h1, h2, he => by
    have e : powiLoop D x 0 r0 m = .ok (some r0, m) false := rfl
    rw [e] at he
    injection he with he _
    injection he with he _
    injection he with he
    subst he
    exact ⟨h1, h2⟩
  | k + 1, j, r0, m, r, m', dbg, hr0, h1, h2, he => by
    have hP := two_pow_pos D.f
    have e : powiLoop D x (k + 1) r0 m =
        (tick >>= fun _ => liftOpt (D.checkedMul r0 x) >>= fun r => powiLoop D x k r) m := rfl
    rw [e, tick_bind, checkedMul_eq D hv r0 x hr0 hx] at he
    by_cases hE : inRange D (mulSpec D.f r0 x)
    · rw [chk_in D hE, liftOpt_some_bind] at he
      have hd0 : 0 ≤ r0 * x - mulSpec D.f r0 x * 2 ^ D.f := by
        have := Int.ediv_mul_le (r0 * x) (Int.ne_of_gt hP)
        unfold mulSpec; omega
      have hd1 : r0 * x - mulSpec D.f r0 x * 2 ^ D.f < 2 ^ D.f := by
        have := Int.lt_ediv_add_one_mul_self (r0 * x) hP
        unfold mulSpec
        rw [Int.add_mul, Int.one_mul] at this
        omega
      have hM1 : x ≤ Mx D x := by unfold Mx; omega
      have hM2 : -Mx D x ≤ x := by unfold Mx; omega
      have hFM : 2 ^ D.f ≤ Mx D x := by unfold Mx; omega
      have hA : 0 ≤ ((2 : Int) ^ D.f) ^ j := Int.pow_nonneg (Int.le_of_lt hP)
      have hAB : ((2 : Int) ^ D.f) ^ j ≤ Mx D x ^ j := pow_le_pow_base _ _ (Int.le_of_lt hP) hFM j
      obtain ⟨s1, s2⟩ := powi_step x r0 (mulSpec D.f r0 x) (2 ^ D.f) (Mx D x) ((2 ^ D.f) ^ j) (Mx D x ^ j) (x ^ (j + 1)) j
        (by omega) hP hFM hM1 hM2 hA hAB hd0 hd1 h1 h2
      have hj : ((j + 1 : Nat) : Int) = (j : Int) + 1 := by omega
      have ih := powiLoop_err D hv x hx k (j + 1) (mulSpec D.f r0 x) (m + 1) r m' dbg hE
        (by rw [Int.pow_succ (2 ^ D.f) j, Int.pow_succ (Mx D x) j, Int.pow_succ x (j + 1), hj]; exact s1)
        (by rw [Int.pow_succ (2 ^ D.f) j, Int.pow_succ (Mx D x) j, Int.pow_succ x (j + 1), hj]; exact s2) he
      have hjk : j + (k + 1) = j + 1 + k := by omega
      rw [hjk]
      exact ih
    · rw [chk_out D hE, liftOpt_none_bind] at he
      injection he with he _
      injection he with he _
      cases he

/-- C15 (accuracy of the loop of `powi`): after `k` truncated products the result `r` satisfies
`|r·2^(f·k) − x^(k+1)| ≤ k · M^k` with `M = max(2^f, |x|)`; in value terms (divide by `2^(f·(k+1))`)
`|r/2^f − (x/2^f)^(k+1)| ≤ k ulp · max(1, |x/2^f|)^k`. -/
theorem powiLoop_err_bound_tight (D : Layout) (hv : D.valid) (x : Int) (hx : inRange D x) (k m : Nat) (r : Int) (m' : Nat)
    (dbg : Bool) (he : powiLoop D x k x m = .ok (some r, m') dbg) :
    ((r * 2 ^ (D.f * k) - x ^ (k + 1)).natAbs : Int) ≤ (k : Int) * Mx D x ^ k := by
  have e0 : x * (2 ^ D.f) ^ 0 - x ^ (0 + 1) = 0 := by
    rw [Int.pow_zero, Int.pow_succ, Int.pow_zero]; omega
  have h := powiLoop_err D hv x hx k 0 x m r m' dbg hx (by rw [e0]; omega) (by rw [e0]; omega) he
  rw [Nat.zero_add, ← Int.pow_mul] at h
  omega

theorem le_mul_of_one_le (a b : Int) (ha : 0 ≤ a) (hb : 1 ≤ b) : a ≤ a * b := by
  have := Int.mul_le_mul_of_nonneg_left hb ha
  rwa [Int.mul_one] at this

theorem Mx_pow_nonneg (D : Layout) (x : Int) (k : Nat) : 0 ≤ Mx D x ^ k := by
  have hP := two_pow_pos D.f
  exact Int.pow_nonneg (by unfold Mx; omega)

/-- the bound in the (weaker) shape of the task statement, with the extra factor `2^(f·k) ≥ 1` on the right -/
theorem powiLoop_err_bound (D : Layout) (hv : D.valid) (x : Int) (hx : inRange D x) (k m : Nat) (r : Int) (m' : Nat)
    (dbg : Bool) (he : powiLoop D x k x m = .ok (some r, m') dbg) :
    ((r * 2 ^ (D.f * k) - x ^ (k + 1)).natAbs : Int) ≤ (k : Int) * Mx D x ^ k * 2 ^ (D.f * k) := by
  have h := powiLoop_err_bound_tight D hv x hx k m r m' dbg he
  have h2 := le_mul_of_one_le ((k : Int) * Mx D x ^ k) (2 ^ (D.f * k))
    (Int.mul_nonneg (by omega) (Mx_pow_nonneg D x k)) (by have := two_pow_pos (D.f * k); omega)
  omega

/-- C15 (accuracy of `powi` for an exponent `n ≥ 2`): a returned result is within `(n−1) ulp · max(1,|x|)^(n−1)` of `x^n` -/
theorem powi_accuracy_tight (D : Layout) (hv : D.valid) (hs : D.signed = true) (hf : 23 ≤ D.f) (hint : 9 ≤ D.intBits)
    (x : Int) (hx : inRange D x) (n : Int) (hn : 2 ≤ n) (r : Int) (it : Nat) (dbg : Bool)
    (he : Trans.run (Trans.powi D D x n) = .ok (some r, it) dbg) :
    ((r * 2 ^ (D.f * (n.toNat - 1)) - x ^ n.toNat).natAbs : Int) ≤ ((n.toNat - 1 : Nat) : Int) * Mx D x ^ (n.toNat - 1) := by
  have hc := facts D hv hs hf hint
  have hk : n.toNat = n.toNat - 1 + 1 := by omega
  by_cases hx0 : x = 0
  · subst hx0
    have e := (powi_conventions D hv hs hf hint 0 n).1 rfl
    rw [e] at he
    injection he with he _
    injection he with he _
    injection he with he
    subst he
    have hz : (0 : Int) ^ n.toNat = 0 := Int.zero_pow (by omega)
    rw [hz, Int.zero_mul]
    have := Int.mul_nonneg (a := ((n.toNat - 1 : Nat) : Int)) (by omega) (Mx_pow_nonneg D 0 (n.toNat - 1))
    omega
  · unfold Trans.run at he
    rw [powi_eval_pos D hc x hx0 n hn] at he
    have h := powiLoop_err_bound_tight D hv x hx (n.toNat - 1) 0 r it dbg he
    rw [← hk] at h
    exact h

/-- the same in the (weaker) shape of the task statement -/
theorem powi_accuracy (D : Layout) (hv : D.valid) (hs : D.signed = true) (hf : 23 ≤ D.f) (hint : 9 ≤ D.intBits)
    (x : Int) (hx : inRange D x) (n : Int) (hn : 2 ≤ n) (r : Int) (it : Nat) (dbg : Bool)
    (he : Trans.run (Trans.powi D D x n) = .ok (some r, it) dbg) :
    ((r * 2 ^ (D.f * (n.toNat - 1)) - x ^ n.toNat).natAbs : Int) ≤
      ((n.toNat - 1 : Nat) : Int) * Mx D x ^ (n.toNat - 1) * 2 ^ (D.f * (n.toNat - 1)) := by
  have h := powi_accuracy_tight D hv hs hf hint x hx n hn r it dbg he
  have h2 := le_mul_of_one_le (((n.toNat - 1 : Nat) : Int) * Mx D x ^ (n.toNat - 1)) (2 ^ (D.f * (n.toNat - 1)))
    (Int.mul_nonneg (by omega) (Mx_pow_nonneg D x _)) (by have := two_pow_pos (D.f * (n.toNat - 1)); omega)
  omega

/-! ### non-vacuity and the role of the hypotheses -/

/-- the hypotheses of the main theorems are satisfiable, e.g. by `I9F23` and `I32F32` -/
example : (⟨true, 32, 23⟩ : Layout).valid ∧ (23 ≤ (⟨true, 32, 23⟩ : Layout).f) ∧ 9 ≤ (⟨true, 32, 23⟩ : Layout).intBits := by decide
example : (⟨true, 64, 32⟩ : Layout).valid ∧ (23 ≤ (⟨true, 64, 32⟩ : Layout).f) ∧ 9 ≤ (⟨true, 64, 32⟩ : Layout).intBits := by decide

/-- `pow::<S, D>` evaluates `S::from_num(1)`: for a source layout without room for 1 (e.g. `I1F31`, admissible as `D: From<S>` for
`D = I32F32`) the `debug_assert!` of `from_num` fires — this is why `pow_total_of_ln_from` assumes `inRange S (2 ^ S.f)` -/
theorem pow_source_room_counterexample : Trans.fromNumI ⟨true, 32, 31⟩ 1 = .ok (-2147483648) true := by decide

end Sfx.ExpPf

#print axioms Sfx.ExpPf.exp_total
#print axioms Sfx.ExpPf.powi_total
#print axioms Sfx.ExpPf.pow_total_of_ln
#print axioms Sfx.ExpPf.exp_total_from
#print axioms Sfx.ExpPf.powi_total_from
#print axioms Sfx.ExpPf.pow_total_of_ln_from
#print axioms Sfx.ExpPf.powi_conventions
#print axioms Sfx.ExpPf.pow_conventions
#print axioms Sfx.ExpPf.powiLoop_err_bound_tight
#print axioms Sfx.ExpPf.powiLoop_err_bound
#print axioms Sfx.ExpPf.powi_accuracy_tight
#print axioms Sfx.ExpPf.powi_accuracy
#print axioms Sfx.ExpPf.powi_negative
#print axioms Sfx.ExpPf.powi_negative_run
#print axioms Sfx.ExpPf.pow_source_room_counterexample
