import SfxProofs.TrigAccTan2Real
import Mathlib.Analysis.SpecialFunctions.Trigonometric.Series
/-
  TrigAccTan3Real.lean — real-analysis lemmas for the kernel-enumeration route (`D.f = 23`, `30 < |tan x| ≤ 64`); no model definitions.
    * `cos_taylor4`  : `1 − x²/2 + x⁴/24 − x⁶/720 ≤ cos x ≤ 1 − x²/2 + x⁴/24` for `|x| ≤ 1` (alternating series on `Real.hasSum_cos`);
    * `poly_vs_cos`  : the reference polynomial of `goodN` against `cos (σ + d)`, `d = π/2 − H₂₃`, within `0.05` ulp on the window;
    * `window`       : the reduced angle `y₂` of the `cos` call lies in the enumerated window when `30 < |tan x| ≤ 64`;
    * `enum_real`    : the integer inequalities of `goodN_int` on the unit scale.
-/
namespace Sfx.TrigAccPf
open Real Finset Filter

/-- the `n`-th term of the cosine series without its sign -/
noncomputable def cterm (x : ℝ) (n : ℕ) : ℝ := x ^ (2 * n) / ((2 * n).factorial : ℝ)

theorem cterm_antitone (x : ℝ) (hx : |x| ≤ 1) : Antitone (cterm x) := by
  refine antitone_nat_of_succ_le (fun n => ?_)
  unfold cterm
  have hx2 : x ^ 2 ≤ 1 := by
    have := sq_le_sq' (neg_le_of_abs_le hx) (le_of_abs_le hx)
    simpa using this
  have e : x ^ (2 * (n + 1)) = x ^ (2 * n) * x ^ 2 := by rw [← pow_add]; congr 1
  have hp : 0 ≤ x ^ (2 * n) := by rw [pow_mul]; positivity
  have hle : x ^ (2 * (n + 1)) ≤ x ^ (2 * n) := by rw [e]; nlinarith
  have hf : ((2 * n).factorial : ℝ) ≤ ((2 * (n + 1)).factorial : ℝ) := by
    exact_mod_cast Nat.factorial_le (by omega)
  have hf0 : (0 : ℝ) < ((2 * n).factorial : ℝ) := by exact_mod_cast Nat.factorial_pos _
  have hp' : 0 ≤ x ^ (2 * (n + 1)) := by rw [pow_mul]; positivity
  exact div_le_div₀ hp hle hf0 hf

theorem csum_tendsto (x : ℝ) : Tendsto (fun n => ∑ k ∈ range n, (-1 : ℝ) ^ k * cterm x k) atTop (nhds (cos x)) := by
  have h := (Real.hasSum_cos x).tendsto_sum_nat
  refine h.congr (fun n => ?_)
  unfold cterm
  refine sum_congr rfl (fun k _ => ?_)
  rw [mul_div_assoc]

theorem cos_taylor4 (x : ℝ) (hx : |x| ≤ 1) :
    1 - x ^ 2 / 2 + x ^ 4 / 24 - x ^ 6 / 720 ≤ cos x ∧ cos x ≤ 1 - x ^ 2 / 2 + x ^ 4 / 24 := by
  have lo := (cterm_antitone x hx).alternating_series_le_tendsto (csum_tendsto x) 2
  have hi := (cterm_antitone x hx).tendsto_le_alternating_series (csum_tendsto x) 1
  simp only [show 2 * 2 = 4 by rfl, show 2 * 1 + 1 = 3 by rfl, sum_range_succ, sum_range_zero, cterm] at lo hi
  norm_num [Nat.factorial] at lo hi
  constructor <;> linarith

/-- `d = π/2 − H₂₃ ∈ [0, 0.64 ulp]` -/
theorem d_bounds : 0 ≤ π / 2 - H23 ∧ π / 2 - H23 ≤ (64 / 100) / 8388608 := by
  have h1 := pi_gt_d20
  have h2 := pi_lt_d20
  unfold H23
  constructor <;> norm_num at h1 h2 ⊢ <;> linarith

/-- `sin y = −cos (y + H₂₃ + d)` -/
theorem sin_as_cos (y : ℝ) : sin y = -cos ((y + H23) + (π / 2 - H23)) := by
  have : (y + H23) + (π / 2 - H23) = y + π / 2 := by ring
  rw [this, cos_add_pi_div_two, neg_neg]

/-- the reference polynomial against `cos (σ + d)` on the window -/
theorem poly_vs_cos (σ d : ℝ) (h0 : 0 ≤ σ) (h1 : σ ≤ 7 / 100) (hd0 : 0 ≤ d) (hd1 : d ≤ (64 / 100) / 8388608) :
    |cos (σ + d) - (1 - σ ^ 2 / 2 + σ ^ 4 / 24)| ≤ (5 / 100) / 8388608 := by
  have a1 : |cos (σ + d) - cos σ| ≤ d * (σ + d / 2) := by
    refine le_trans (cos_pert σ d) ?_
    rw [abs_of_nonneg hd0]
    have : |sin σ| ≤ σ := by have := abs_sin_le_abs' σ; rwa [abs_of_nonneg h0] at this
    apply mul_le_mul_of_nonneg_left (by linarith) hd0
  obtain ⟨t1, t2⟩ := cos_taylor4 σ (by rw [abs_of_nonneg h0]; linarith)
  have a2 : |cos σ - (1 - σ ^ 2 / 2 + σ ^ 4 / 24)| ≤ σ ^ 6 / 720 := by
    rw [abs_le]; constructor <;> linarith
  have p6 : σ ^ 6 ≤ (7 / 100) ^ 6 := pow_le_pow_left₀ h0 h1 6
  have dd : d * (σ + d / 2) ≤ (64 / 100) / 8388608 * (7 / 100 + (64 / 100) / 8388608 / 2) :=
    mul_le_mul hd1 (by linarith) (by positivity) (by positivity)
  have e : cos (σ + d) - (1 - σ ^ 2 / 2 + σ ^ 4 / 24) = (cos (σ + d) - cos σ) + (cos σ - (1 - σ ^ 2 / 2 + σ ^ 4 / 24)) := by ring
  rw [e]
  refine le_trans (abs_add_le _ _) ?_
  norm_num at p6 dd ⊢
  linarith

/-- the window of reduced angles of the `cos` call -/
theorem window (y2 Θ : ℝ) (h1 : -H23 ≤ y2) (h2 : y2 ≤ H23) (hΘ : Θ ≤ (192 / 10) / 8388608)
    (hs1 : sin y2 < -1 + 2 / 901 + Θ) (hs2 : -1 + 2 / 4097 - Θ ≤ sin y2) :
    261000 / 8388608 ≤ y2 + H23 ∧ y2 + H23 < 560000 / 8388608 := by
  obtain ⟨hd0, hd1⟩ := d_bounds
  have hsin := sin_as_cos y2
  set σ : ℝ := y2 + H23 with hσ
  set d : ℝ := π / 2 - H23 with hd
  have hσ0 : 0 ≤ σ := by rw [hσ]; linarith
  have hH : H23 ≤ 158 / 100 := by unfold H23; norm_num
  have hpi := pi_gt_d20
  constructor
  · -- too close to −π/2 would make 1 + cos 2x smaller than 2/4097
    by_contra hc
    rw [not_le] at hc
    have hq := one_sub_sq_div_two_le_cos (x := σ + d)
    have hb : σ + d ≤ 261000 / 8388608 + (64 / 100) / 8388608 := by linarith
    have hb0 : 0 ≤ σ + d := by linarith
    have hsq : (σ + d) ^ 2 ≤ (261000 / 8388608 + (64 / 100) / 8388608) ^ 2 := pow_le_pow_left₀ hb0 hb 2
    norm_num at hsq hΘ hs2
    linarith
  · -- too far from −π/2 would make 1 + cos 2x larger than 2/901
    by_contra hc
    rw [not_lt] at hc
    have hle : 560000 / 8388608 + d ≤ σ + d := by linarith
    have hpi2 : σ + d ≤ π := by
      have : σ ≤ 2 * H23 := by rw [hσ]; linarith
      have : d = π / 2 - H23 := hd
      norm_num at hpi
      linarith
    have hmono : cos (σ + d) ≤ cos (560000 / 8388608 + d) :=
      cos_le_cos_of_nonneg_of_le_pi (by linarith) hpi2 hle
    have hx1 : |560000 / 8388608 + d| ≤ 1 := by
      rw [abs_of_nonneg (by linarith)]; norm_num at hd1 ⊢; linarith
    obtain ⟨_, t2⟩ := cos_taylor4 (560000 / 8388608 + d) hx1
    have hlam : (560000 / 8388608 : ℝ) ≤ 560000 / 8388608 + d := by linarith
    have hlam2 : (560000 / 8388608 : ℝ) ^ 2 ≤ (560000 / 8388608 + d) ^ 2 := pow_le_pow_left₀ (by norm_num) hlam 2
    have hub : 560000 / 8388608 + d ≤ 668 / 10000 := by norm_num at hd1 ⊢; linarith
    have h4 : (560000 / 8388608 + d) ^ 4 ≤ (668 / 10000) ^ 4 := pow_le_pow_left₀ (by linarith) hub 4
    norm_num at hlam2 h4 hΘ hs1
    linarith

/-- the integer inequalities of `goodN_int` on the unit scale: `|y/2^23 + (1 − σ²/2 + σ⁴/24)| ≤ 11/2^23`, `σ = s/2^23` -/
theorem enum_real (y s : ℝ)
    (h1 : -155838093934698292051968 ≤ y * 14167099448608935641088 + 118842243771396506390315925504 -
      (s * s) * 844424930131968 + (s * s * s * s))
    (h2 : y * 14167099448608935641088 + 118842243771396506390315925504 - (s * s) * 844424930131968 + (s * s * s * s) ≤
      155838093934698292051968) :
    |y / 8388608 + (1 - (s / 8388608) ^ 2 / 2 + (s / 8388608) ^ 4 / 24)| ≤ 11 / 8388608 := by
  have e : y / 8388608 + (1 - (s / 8388608) ^ 2 / 2 + (s / 8388608) ^ 4 / 24) =
      (y * 14167099448608935641088 + 118842243771396506390315925504 - (s * s) * 844424930131968 + (s * s * s * s)) /
        118842243771396506390315925504 := by
    field_simp; ring
  rw [e, abs_le]
  constructor
  · rw [le_div_iff₀ (by norm_num)]; norm_num; linarith
  · rw [div_le_iff₀ (by norm_num)]; norm_num; linarith

end Sfx.TrigAccPf
