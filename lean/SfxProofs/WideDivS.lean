import SfxProofs.WideDivU
/-
  WideDivS.lean — the signed wrapper around the unsigned `div_rem_from`.
-/
namespace Sfx

/-- splitting a `2n`-bit signed wrap into a signed high limb and an unsigned low limb -/
theorem wrapS_double_split {n : Nat} (hn : 1 ≤ n) (X : Int) :
    wrapS (2 * n) X / 2 ^ n = wrapS n (X / 2 ^ n) ∧ wrapS (2 * n) X % 2 ^ n = X % 2 ^ n := by
  have hN := two_pow_pos n
  have hin := wrapS_in (n := 2 * n) (by omega) X
  obtain ⟨k, hk⟩ := wrapS_eq_add_mul (2 * n) X
  have h2 : (2 : Int) ^ (2 * n - 1) = 2 ^ (n - 1) * 2 ^ n := by
    rw [← Int.pow_add]; congr 1; omega
  have hk' : wrapS (2 * n) X = X + (k * 2 ^ n) * 2 ^ n := by
    rw [hk, pow_double, Int.mul_assoc]
  rw [inS_iff, h2] at hin
  have hdiv : wrapS (2 * n) X / 2 ^ n = X / 2 ^ n + k * 2 ^ n := by
    rw [hk', Int.add_mul_ediv_right _ _ (Int.ne_of_gt hN)]
  constructor
  · rw [hdiv]
    symm
    apply wrapS_unique (by omega) (-k)
    · rw [Int.neg_mul]; omega
    · rw [← hdiv, inS_iff]
      constructor
      · rw [Int.le_ediv_iff_mul_le hN, Int.neg_mul]; exact hin.1
      · rw [Int.ediv_lt_iff_lt_mul hN]; exact hin.2
  · rw [hk', Int.add_mul_emod_self_right]

/-- truncated division through magnitudes -/
theorem tdiv_tmod_signs {A D : Int} (hA : 0 ≤ A) (sN sd : Bool) :
    Int.tdiv (if sN then -A else A) (if sd then -D else D) = (if (sN != sd) then -(A / D) else A / D) ∧
    Int.tmod (if sN then -A else A) (if sd then -D else D) = (if sN then -(A % D) else A % D) := by
  cases sN <;> cases sd <;>
    simp [Int.tdiv_neg, Int.neg_tdiv, Int.tmod_neg, Int.neg_tmod, Int.tdiv_eq_ediv_of_nonneg hA,
      Int.tmod_eq_emod_of_nonneg hA]

namespace WideDiv

theorem negAbs1_eq {n : Nat} (hn : 1 ≤ n) {d : Int} (hd : inI true n d) :
    negAbs1 n d = (decide (d < 0), if d < 0 then -d else d) := by
  rw [inS_iff] at hd
  have hp := pow_split (n := n) (by omega)
  have hP := two_pow_pos (n - 1)
  unfold negAbs1
  by_cases h : d < 0
  · rw [if_pos h, if_pos h, wrapU_wrapS, wrapU_of_lt (by omega) (by omega)]
    simp [h]
  · rw [if_neg h, if_neg h, wrapU_of_lt (by omega) (by omega)]
    simp [h]

/-- magnitude of the double-limb dividend -/
theorem negAbs2_eq {n : Nat} (hn : 1 ≤ n) {n1 n0 : Int} (h1 : inI true n n1) (h0 : inI false n n0) :
    negAbs2 n n1 n0 =
      (decide (n1 < 0),
       (if n1 < 0 then -(n1 * 2 ^ n + n0) else n1 * 2 ^ n + n0) / 2 ^ n,
       (if n1 < 0 then -(n1 * 2 ^ n + n0) else n1 * 2 ^ n + n0) % 2 ^ n) := by
  rw [inS_iff] at h1
  rw [inU_iff] at h0
  have hp := pow_split (n := n) (by omega)
  have hP := two_pow_pos (n - 1)
  have hN := two_pow_pos n
  unfold negAbs2
  by_cases h : n1 < 0
  · rw [if_pos h, if_pos h]
    simp only [ovfI, wrapI, Bool.false_eq_true, if_false]
    by_cases hz : n0 = 0
    · subst hz
      have hin : inI false n (-0) := by rw [inU_iff]; omega
      simp only [hin, decide_true, Bool.not_true, Bool.false_eq_true, if_false]
      rw [wrapU_wrapS, wrapU_of_lt (by omega) (by omega)]
      have := (Int.ediv_emod_unique (a := -(n1 * 2 ^ n + 0)) (b := 2 ^ n) (r := 0) (q := -n1) hN).2
        ⟨by rw [Int.mul_neg, Int.mul_comm]; omega, Int.le_refl 0, hN⟩
      rw [this.1, this.2]
      simp [h, wrapU]
    · have hin : ¬ inI false n (-n0) := by rw [inU_iff]; omega
      simp only [hin, decide_false, Bool.not_false, if_true]
      unfold notI wrapI
      simp only [if_true]
      rw [wrapU_wrapS, wrapU_of_lt (by omega) (by omega),
        wrapU_unique (y := 2 ^ n - n0) (-1) (by omega) (by omega) (by omega)]
      have := (Int.ediv_emod_unique (a := -(n1 * 2 ^ n + n0)) (b := 2 ^ n) (r := 2 ^ n - n0)
        (q := -n1 - 1) hN).2
        ⟨by rw [Int.mul_sub, Int.mul_neg, Int.mul_one, Int.mul_comm]; omega, by omega, by omega⟩
      rw [this.1, this.2]
      simp [h]
  · rw [if_neg h, if_neg h, wrapU_of_lt (by omega) (by omega)]
    have := (Int.ediv_emod_unique (a := n1 * 2 ^ n + n0) (b := 2 ^ n) (r := n0) (q := n1) hN).2
      ⟨by rw [Int.mul_comm]; omega, h0.1, h0.2⟩
    rw [this.1, this.2]
    simp [h]

/-- `from_neg_abs` on a double-limb magnitude: negate modulo `2^(2n)` and reinterpret as signed -/
theorem fromNegAbs2_eq {n : Nat} (hn : 1 ≤ n) (neg : Bool) (q1 : Int) {q0 : Int} (h0 : inI false n q0) :
    fromNegAbs2 n neg q1 q0 =
      (wrapS (2 * n) (if neg then -(q1 * 2 ^ n + q0) else q1 * 2 ^ n + q0) / 2 ^ n,
       wrapS (2 * n) (if neg then -(q1 * 2 ^ n + q0) else q1 * 2 ^ n + q0) % 2 ^ n) := by
  rw [inU_iff] at h0
  have hN := two_pow_pos n
  unfold fromNegAbs2
  cases neg
  · simp only [Bool.false_eq_true, if_false]
    obtain ⟨e1, e2⟩ := wrapS_double_split hn (q1 * 2 ^ n + q0)
    have := (Int.ediv_emod_unique (a := q1 * 2 ^ n + q0) (b := 2 ^ n) (r := q0) (q := q1) hN).2
      ⟨by rw [Int.mul_comm]; omega, h0.1, h0.2⟩
    rw [e1, e2, this.1, this.2]
  · simp only [if_true, ovfI, wrapI, Bool.false_eq_true, if_false]
    obtain ⟨e1, e2⟩ := wrapS_double_split hn (-(q1 * 2 ^ n + q0))
    rw [e1, e2]
    by_cases hz : q0 = 0
    · subst hz
      have hin : inI false n (-0) := by rw [inU_iff]; omega
      simp only [hin, decide_true, Bool.not_true, Bool.false_eq_true, if_false]
      have := (Int.ediv_emod_unique (a := -(q1 * 2 ^ n + 0)) (b := 2 ^ n) (r := 0) (q := -q1) hN).2
        ⟨by rw [Int.mul_neg, Int.mul_comm]; omega, Int.le_refl 0, hN⟩
      rw [this.1, this.2, wrapS_wrapU]
      simp [wrapU]
    · have hin : ¬ inI false n (-q0) := by rw [inU_iff]; omega
      simp only [hin, decide_false, Bool.not_false, if_true]
      unfold notI wrapI
      simp only [Bool.false_eq_true, if_false]
      have := (Int.ediv_emod_unique (a := -(q1 * 2 ^ n + q0)) (b := 2 ^ n) (r := 2 ^ n - q0)
        (q := -q1 - 1) hN).2
        ⟨by rw [Int.mul_sub, Int.mul_neg, Int.mul_one, Int.mul_comm]; omega, by omega, by omega⟩
      rw [this.1, this.2, wrapS_wrapU,
        wrapU_unique (y := 2 ^ n - q0) (-1) (by omega) (by omega) (by omega)]

/-- range of a `(signed hi, unsigned lo)` double limb -/
theorem double_range {n : Nat} {n1 n0 : Int} (h1 : inI true n n1) (h0 : inI false n n0) :
    -(2 ^ (n - 1) * 2 ^ n : Int) ≤ n1 * 2 ^ n + n0 ∧ n1 * 2 ^ n + n0 < 2 ^ (n - 1) * 2 ^ n ∧
    (n1 * 2 ^ n + n0 < 0 ↔ n1 < 0) := by
  rw [inS_iff] at h1
  rw [inU_iff] at h0
  have hN := two_pow_pos n
  have a1 : -(2 ^ (n - 1) : Int) * 2 ^ n ≤ n1 * 2 ^ n := Int.mul_le_mul_of_nonneg_right h1.1 (Int.le_of_lt hN)
  have a2 : n1 * 2 ^ n ≤ (2 ^ (n - 1) - 1) * 2 ^ n :=
    Int.mul_le_mul_of_nonneg_right (by omega) (Int.le_of_lt hN)
  rw [Int.neg_mul] at a1
  rw [Int.sub_mul, Int.one_mul] at a2
  refine ⟨by omega, by omega, ?_⟩
  constructor
  · intro hlt
    apply Int.lt_of_not_ge; intro hge
    have := Int.mul_nonneg hge (Int.le_of_lt hN)
    omega
  · intro hlt
    have a3 : n1 * 2 ^ n ≤ (-1) * 2 ^ n := Int.mul_le_mul_of_nonneg_right (by omega) (Int.le_of_lt hN)
    omega

end WideDiv
open WideDiv

/-- signed: dividend N = n1 * 2^n + n0 with n1 signed, n0 unsigned; quotient truncated toward zero, wrapped to 2n bits
    (it can be 2^(2n-1) for MIN / -1), split into (signed high limb, unsigned low limb); remainder tmod -/
theorem divRemFromS_spec (n : Nat) (hn : 2 ≤ n) (heven : n % 2 = 0) (d n1 n0 : Int)
    (hd : inI true n d) (hd0 : d ≠ 0) (h1 : inI true n n1) (h0 : inI false n n0) :
    WideDiv.divRemFromS n d n1 n0 =
      (let N := n1 * 2 ^ n + n0
       let q := wrapS (2 * n) (Int.tdiv N d)
       .ok ((q / 2 ^ n, q % 2 ^ n), Int.tmod N d) false) := by
  have hn1 : 1 ≤ n := by omega
  have hN := two_pow_pos n
  have hP := two_pow_pos (n - 1)
  have hp := pow_split (n := n) (by omega)
  obtain ⟨hNlo, hNhi, hNneg⟩ := double_range h1 h0
  have hd' := (inS_iff n d).1 hd
  unfold divRemFromS
  rw [negAbs2_eq hn1 h1 h0, negAbs1_eq hn1 hd]
  dsimp only
  -- magnitudes
  generalize hNdef : n1 * 2 ^ n + n0 = N at *
  generalize hAdef : (if n1 < 0 then -N else N) = A
  generalize hDdef : (if d < 0 then -d else d) = D
  have hA0 : 0 ≤ A := by rw [← hAdef]; split <;> omega
  have hAhi : A ≤ 2 ^ (n - 1) * 2 ^ n := by rw [← hAdef]; split <;> omega
  have hD0 : 0 < D := by rw [← hDdef]; split <;> omega
  have hDhi : D ≤ 2 ^ (n - 1) := by rw [← hDdef]; split <;> omega
  have hNA : N = if decide (n1 < 0) then -A else A := by
    rw [← hAdef]; by_cases h : n1 < 0 <;> simp [h]
  have hdD : d = if decide (d < 0) then -D else D := by
    rw [← hDdef]; by_cases h : d < 0 <;> simp [h]
  -- the unsigned division
  have hA1 : inI false n (A / 2 ^ n) := by
    rw [inU_iff]
    refine ⟨Int.ediv_nonneg hA0 (Int.le_of_lt hN), ?_⟩
    rw [Int.ediv_lt_iff_lt_mul hN]
    have : (2 : Int) ^ (n - 1) * 2 ^ n < 2 ^ n * 2 ^ n := Int.mul_lt_mul_of_pos_right (by omega) hN
    omega
  have hA2 : inI false n (A % 2 ^ n) :=
    (inU_iff _ _).2 ⟨Int.emod_nonneg _ (Int.ne_of_gt hN), Int.emod_lt_of_pos _ hN⟩
  have hDin : inI false n D := (inU_iff _ _).2 ⟨by omega, by omega⟩
  have hAA : A / 2 ^ n * 2 ^ n + A % 2 ^ n = A := by
    have := Int.emod_add_mul_ediv A (2 ^ n)
    rw [Int.mul_comm]; omega
  rw [divRemFromU_spec n hn heven D _ _ hDin (by omega) hA1 hA2, ok_false_bind, hAA]
  dsimp only
  -- quotient and remainder magnitudes
  have hQ0 : 0 ≤ A / D := Int.ediv_nonneg hA0 (Int.le_of_lt hD0)
  have hQle : A / D ≤ A := Int.ediv_le_self D hA0
  have hR0 : 0 ≤ A % D := Int.emod_nonneg _ (Int.ne_of_gt hD0)
  have hR : A % D < D := Int.emod_lt_of_pos _ hD0
  have hQ2 : inI false n (A / D % 2 ^ n) :=
    (inU_iff _ _).2 ⟨Int.emod_nonneg _ (Int.ne_of_gt hN), Int.emod_lt_of_pos _ hN⟩
  have hQQ : A / D / 2 ^ n * 2 ^ n + A / D % 2 ^ n = A / D := by
    have := Int.emod_add_mul_ediv (A / D) (2 ^ n)
    rw [Int.mul_comm]; omega
  obtain ⟨hT, hM⟩ := tdiv_tmod_signs (D := D) hA0 (decide (n1 < 0)) (decide (d < 0))
  rw [← hNA, ← hdD] at hT hM
  rw [fromNegAbs2_eq hn1 _ _ hQ2, hQQ, ← hT]
  -- the remainder
  have hdass : decide (A % D ≤ 2 ^ (n - 1)) = true := by simp; omega
  unfold fromNegAbs1 Outcome.dassert
  rw [hdass]
  simp only [Bool.not_true, ok_false_bind, pure_eq_ok]
  have hrem : (if decide (n1 < 0) = true then wrapS n (wrapU n (-(A % D))) else wrapS n (A % D))
      = Int.tmod N d := by
    rw [hM]
    by_cases h : n1 < 0
    · simp only [h, decide_true, if_true]
      rw [wrapS_wrapU]
      exact wrapS_of_in hn1 ((inS_iff _ _).2 ⟨by omega, by omega⟩)
    · simp only [h, decide_false, Bool.false_eq_true, if_false]
      exact wrapS_of_in hn1 ((inS_iff _ _).2 ⟨by omega, by omega⟩)
  rw [hrem]

#print axioms divRemFromS_spec

end Sfx
