import SfxProofs.ExpAccWideReal
/-
  ExpBandReal.lean — real analysis of the integer trace of `exp` (`ExpAccDefs.lean`) on the BAND between the wide region `|X| ≤ f / 4`
  (`ExpAccWideReal.lean`) and known finding D10: operands with `f / 4 < |X|` whose omitted tail `Rm |X| f = Σ_{i ≥ f} |X|^i / i!` is at most
  `e^|X| / 2^24`.  (No model definitions are involved here.)

  With `y = e^X`, `X > f / 4 ≥ 5.75` (so `y ≥ 128`), in ulps, one-sided:
    * truncation: `Σ_{j=2}^{f-1} w_j` (`loop_pot`), `w_j ≤ y / T_j`, `T_j = X^j / j! ≥ 5.75^j / j! ≥ 8/3` for `2 ≤ j ≤ 12`;
      `w_j ≤ 2 + (13/200) y` for `j ≥ 13` (either `j + 1 ≥ 2X`, or `T_j ≥ ((j+1)/2)^j / j! ≥ 200/13`, Bernoulli);
    * the omitted tail is the hypothesis: `2^(f-24) y`;
    * so `0 ≤ y - val(sum) ≤ a + b y` with `a = 2 (f - 13)`, `b = 33/8 + 13/200 (f - 13) + 2^(f-24)`; `b ≤ 2^(f-20)`, `a + b ≤ 64 + 2^(f-20)`;
    * `x < 0`: `a ≤ a y / 128`, and `recip_wide` with `(0, a/128 + b)`.
-/
namespace Sfx.ExpBandPf
open Real Finset Sfx.ExpAccPf

/-! ### the two forms of the tail hypothesis -/

/-- the hypothesis "omitted tail at most `2^-24 e^X`" says that the (exact) partial sum reaches `(1 - 2^-24) e^X` -/
theorem tail_hyp_iff (X : ℝ) (n : ℕ) :
    Rm X n ≤ Real.exp X / 2 ^ 24 ↔ Real.exp X * (1 - 1 / 2 ^ 24) ≤ Sm X n := by
  unfold Rm
  constructor <;> intro h <;> linarith

/-- `Rm X n` is the series tail `Σ_{i ≥ n} X^i / i!` -/
theorem Rm_hasSum (X : ℝ) (n : ℕ) : HasSum (fun i : ℕ => X ^ (i + n) / ((i + n).factorial : ℝ)) (Rm X n) := by
  have h : HasSum (fun i : ℕ => X ^ i / (i.factorial : ℝ)) (Real.exp X) := by
    have := NormedSpace.expSeries_div_hasSum_exp (𝔸 := ℝ) X
    rwa [← Real.exp_eq_exp_ℝ] at this
  have := (hasSum_nat_add_iff' n).2 h
  exact this

/-! ### weights of the late indices `j ≥ 13` -/

/-- `j! ≤ (13/200) ((j+1)/2)^j` for `j ≥ 13` -/
theorem fact_early13 : ∀ j : ℕ, 13 ≤ j → 200 * (j.factorial : ℝ) * 2 ^ j ≤ 13 * ((j : ℝ) + 1) ^ j := by
  intro j hj
  induction j, hj using Nat.le_induction with
  | base => norm_num [Nat.factorial]
  | succ n hn ih =>
    have hb := bern n
    have hn0 : (0 : ℝ) ≤ (n : ℝ) + 1 := by positivity
    rw [Nat.factorial_succ]
    push_cast
    have e1 : 200 * (((n : ℝ) + 1) * (n.factorial : ℝ)) * 2 ^ (n + 1) = 2 * ((n : ℝ) + 1) * (200 * (n.factorial : ℝ) * 2 ^ n) := by
      rw [pow_succ]; ring
    have e2 : ((n : ℝ) + 1 + 1) = (n : ℝ) + 2 := by ring
    rw [e1, e2]
    calc 2 * ((n : ℝ) + 1) * (200 * (n.factorial : ℝ) * 2 ^ n) ≤ 2 * ((n : ℝ) + 1) * (13 * ((n : ℝ) + 1) ^ n) :=
          mul_le_mul_of_nonneg_left ih (by positivity)
      _ = 13 * (2 * ((n : ℝ) + 1) ^ (n + 1)) := by rw [pow_succ]; ring
      _ ≤ 13 * ((n : ℝ) + 2) ^ (n + 1) := by linarith

/-- `j ≥ 13`, every `X > 0` -/
theorem wt_bound13 {X : ℝ} (hX : 0 < X) (j : ℕ) (hj : 13 ≤ j) : wt X j ≤ 2 + 13 / 200 * Real.exp X := by
  have hy := Real.exp_pos X
  by_cases h : 2 * X ≤ (j : ℝ) + 1
  · have := wt_late hX j h
    nlinarith
  · rw [not_le] at h
    have hT : 200 / 13 ≤ Tm X j := by
      unfold Tm
      have hfac : (0 : ℝ) < (j.factorial : ℝ) := by positivity
      rw [le_div_iff₀ hfac]
      have h1 : (((j : ℝ) + 1) / 2) ^ j ≤ X ^ j := pow_le_pow_left₀ (by positivity) (by linarith) j
      have h2 := fact_early13 j hj
      rw [div_pow, div_le_iff₀ (by positivity)] at h1
      have h3 : (0 : ℝ) < 2 ^ j := by positivity
      nlinarith
    have h1 := wt_le_exp_div hX j
    have h2 : Real.exp X / Tm X j ≤ Real.exp X / (200 / 13) := div_le_div_of_nonneg_left hy.le (by norm_num) hT
    have : Real.exp X / (200 / 13) = 13 / 200 * Real.exp X := by ring
    linarith

/-! ### weights of the early indices `2 ≤ j ≤ 12` for `X ≥ 23/4` -/

theorem table_early (j : ℕ) (h2 : 2 ≤ j) (h12 : j ≤ 12) : 8 / 3 * (j.factorial : ℝ) ≤ (23 / 4 : ℝ) ^ j := by
  interval_cases j <;> norm_num [Nat.factorial]

theorem wt_bound_early {X : ℝ} (hX : 23 / 4 ≤ X) (j : ℕ) (h2 : 2 ≤ j) (h12 : j ≤ 12) : wt X j ≤ 3 / 8 * Real.exp X := by
  have hX0 : 0 < X := by linarith
  have hy := Real.exp_pos X
  have hT : 8 / 3 ≤ Tm X j := by
    unfold Tm
    have hfac : (0 : ℝ) < (j.factorial : ℝ) := by positivity
    rw [le_div_iff₀ hfac]
    have h1 : (23 / 4 : ℝ) ^ j ≤ X ^ j := pow_le_pow_left₀ (by norm_num) hX j
    exact le_trans (table_early j h2 h12) h1
  have h1 := wt_le_exp_div hX0 j
  have h2 : Real.exp X / Tm X j ≤ Real.exp X / (8 / 3) := div_le_div_of_nonneg_left hy.le (by norm_num) hT
  have : Real.exp X / (8 / 3) = 3 / 8 * Real.exp X := by ring
  linarith

/-- the sum of the weights for `X ≥ 23/4` (no upper bound on `X`) -/
theorem wsum_band (f : ℕ) (hf : 23 ≤ f) {X : ℝ} (hX : 23 / 4 ≤ X) :
    ∑ i ∈ range (f - 2), wt X (1 + 1 + i) ≤ 2 * ((f : ℝ) - 13) + (33 / 8 + 13 / 200 * ((f : ℝ) - 13)) * Real.exp X := by
  have hX0 : 0 < X := by linarith
  have hy := Real.exp_pos X
  obtain ⟨k2, hk2⟩ : ∃ k2, f - 2 = 11 + k2 := ⟨f - 13, by omega⟩
  rw [hk2, Finset.sum_range_add]
  have s1 : ∑ i ∈ range 11, wt X (1 + 1 + i) ≤ ((11 : ℕ) : ℝ) * (3 / 8 * Real.exp X) :=
    sum_le_const _ 11 _ fun i hi => wt_bound_early hX _ (by omega) (by omega)
  have s2 : ∑ i ∈ range k2, wt X (1 + 1 + (11 + i)) ≤ (k2 : ℝ) * (2 + 13 / 200 * Real.exp X) :=
    sum_le_const _ k2 _ fun i _ => wt_bound13 hX0 _ (by omega)
  have hk2r : (k2 : ℝ) = (f : ℝ) - 13 := by
    have : f = k2 + 13 := by omega
    rw [this]; push_cast; ring
  rw [hk2r] at s2
  push_cast at s1
  nlinarith

/-! ### numeric side conditions: `a(f) = 2 (f - 13)`, `b(f) = 33/8 + 13/200 (f - 13) + 2^f / 2^24`, `G(f) = 2^f / 2^20` -/

theorem numeric_band (f : ℕ) (hf : 23 ≤ f) :
    let a : ℝ := 2 * ((f : ℝ) - 13)
    let b : ℝ := 33 / 8 + 13 / 200 * ((f : ℝ) - 13) + 2 ^ f / 2 ^ 24
    let G : ℝ := 2 ^ f / 2 ^ 20
    0 ≤ a ∧ 0 ≤ b ∧ b ≤ G ∧ a + b ≤ 64 + G ∧ 2 * (a / 128 + b) ≤ 63 + G ∧ a / 128 + b ≤ 2 ^ f / 2 := by
  intro a b G
  obtain ⟨_, g2⟩ := growth f hf
  have hfr : (23 : ℝ) ≤ (f : ℝ) := by exact_mod_cast hf
  have hG : G * 2 ^ 20 = 2 ^ f := by
    show (2 : ℝ) ^ f / 2 ^ 20 * 2 ^ 20 = 2 ^ f
    field_simp
  have h2 : 8 * ((f : ℝ) - 23) + 8 ≤ G := by nlinarith
  have hT : (2 : ℝ) ^ f / 2 ^ 24 = G / 16 := by
    rw [← hG]; ring
  have h2f : (2 : ℝ) ^ f / 2 = G * 2 ^ 19 := by
    rw [← hG]; ring
  refine ⟨by show 0 ≤ 2 * ((f : ℝ) - 13); linarith, ?_, ?_, ?_, ?_, ?_⟩
  · show 0 ≤ 33 / 8 + 13 / 200 * ((f : ℝ) - 13) + 2 ^ f / 2 ^ 24
    rw [hT]; linarith
  · show 33 / 8 + 13 / 200 * ((f : ℝ) - 13) + 2 ^ f / 2 ^ 24 ≤ G
    rw [hT]; linarith
  · show 2 * ((f : ℝ) - 13) + (33 / 8 + 13 / 200 * ((f : ℝ) - 13) + 2 ^ f / 2 ^ 24) ≤ 64 + G
    rw [hT]; linarith
  · show 2 * (2 * ((f : ℝ) - 13) / 128 + (33 / 8 + 13 / 200 * ((f : ℝ) - 13) + 2 ^ f / 2 ^ 24)) ≤ 63 + G
    rw [hT]; linarith
  · show 2 * ((f : ℝ) - 13) / 128 + (33 / 8 + 13 / 200 * ((f : ℝ) - 13) + 2 ^ f / 2 ^ 24) ≤ 2 ^ f / 2
    rw [hT, h2f]
    norm_num
    linarith

/-- `e^X ≥ 128` for `X ≥ 5` -/
theorem exp_ge_128 {X : ℝ} (hX : 5 ≤ X) : 128 ≤ Real.exp X := by
  have h1 : (2.7182818283 : ℝ) < Real.exp 1 := Real.exp_one_gt_d9
  have h2 : Real.exp 5 = Real.exp 1 ^ 5 := by
    rw [← Real.exp_nat_mul]; norm_num
  have h3 : (2.7182818283 : ℝ) ^ 5 < Real.exp 1 ^ 5 := pow_lt_pow_left₀ h1 (by norm_num) (by norm_num)
  have h4 : Real.exp 5 ≤ Real.exp X := Real.exp_le_exp.2 hX
  have h5 : (128 : ℝ) ≤ (2.7182818283 : ℝ) ^ 5 := by norm_num
  linarith

/-! ### the total (one-sided) error of the truncated sum against `e^X`, in ulps -/

theorem band_X (f : ℕ) (hf : 23 ≤ f) (y : Int) (hy4 : ¬ 4 * y ≤ (f : Int) * pow2 f) : (23 / 4 : ℝ) ≤ (y : ℝ) / 2 ^ f := by
  have hG : (0 : ℝ) < 2 ^ f := by positivity
  have h1 : (f : Int) * pow2 f < 4 * y := not_le.1 hy4
  have h2 : (((f : Int) * pow2 f : Int) : ℝ) < ((4 * y : Int) : ℝ) := by exact_mod_cast h1
  push_cast at h2
  rw [pow2_cast] at h2
  have hfr : (23 : ℝ) ≤ (f : ℝ) := by exact_mod_cast hf
  rw [le_div_iff₀ hG]
  nlinarith

theorem delta_band (f : ℕ) (hf : 23 ≤ f) (y : Int) (hy0 : 0 < y) (hy4 : ¬ 4 * y ≤ (f : Int) * pow2 f)
    (htail : Rm ((y : ℝ) / 2 ^ f) f ≤ Real.exp ((y : ℝ) / 2 ^ f) / 2 ^ 24) :
    0 ≤ (2 : ℝ) ^ f * Real.exp ((y : ℝ) / 2 ^ f) - (expPure (pow2 f) y (f - 2) 2 y (y + pow2 f) : Int) ∧
    (2 : ℝ) ^ f * Real.exp ((y : ℝ) / 2 ^ f) - (expPure (pow2 f) y (f - 2) 2 y (y + pow2 f) : Int) ≤
      2 * ((f : ℝ) - 13) + (33 / 8 + 13 / 200 * ((f : ℝ) - 13) + 2 ^ f / 2 ^ 24) * Real.exp ((y : ℝ) / 2 ^ f) := by
  have hP := pow2_pos f
  have hG : (0 : ℝ) < 2 ^ f := by positivity
  have hX5 := band_X f hf y hy4
  have hX : 0 < (y : ℝ) / 2 ^ f := by linarith
  have e1 : errT (pow2 f) y 1 y = 0 := by
    unfold errT
    rw [Tm_one, pow2_cast]; field_simp; ring
  have e2 : errS (pow2 f) y 1 (y + pow2 f) = 0 := by
    unfold errS
    rw [Sm_two]; push_cast; rw [pow2_cast]; field_simp; ring
  obtain ⟨l1, l2⟩ := loop_pot (pow2 f) y hP hy0 (f - 2) 1 y (y + pow2 f) hy0.le (by rw [e1]) (by rw [e2])
  have hidx : 1 + 1 + (f - 2) = f := by omega
  rw [e1, e2, hidx, pow2_cast] at l2
  rw [hidx, pow2_cast] at l1
  have hw := wsum_band f hf hX5
  have l1' : 0 ≤ (2 : ℝ) ^ f * Sm ((y : ℝ) / 2 ^ f) f - (expPure (pow2 f) y (f - 2) 2 y (y + pow2 f) : Int) := l1
  have l2' : (2 : ℝ) ^ f * Sm ((y : ℝ) / 2 ^ f) f - (expPure (pow2 f) y (f - 2) 2 y (y + pow2 f) : Int) ≤
      0 + (wt ((y : ℝ) / 2 ^ f) 1 - 1) * 0 + ∑ i ∈ range (f - 2), wt ((y : ℝ) / 2 ^ f) (1 + 1 + i) := l2
  -- the tail
  have hlo := Sm_le_exp hX.le f
  unfold Rm at htail
  have hlo' : (2 : ℝ) ^ f * Sm ((y : ℝ) / 2 ^ f) f ≤ 2 ^ f * Real.exp ((y : ℝ) / 2 ^ f) := mul_le_mul_of_nonneg_left hlo hG.le
  have hhi' : (2 : ℝ) ^ f * (Real.exp ((y : ℝ) / 2 ^ f) - Sm ((y : ℝ) / 2 ^ f) f) ≤ 2 ^ f * (Real.exp ((y : ℝ) / 2 ^ f) / 2 ^ 24) :=
    mul_le_mul_of_nonneg_left htail hG.le
  have e3 : (2 : ℝ) ^ f * (Real.exp ((y : ℝ) / 2 ^ f) / 2 ^ 24) = 2 ^ f / 2 ^ 24 * Real.exp ((y : ℝ) / 2 ^ f) := by ring
  constructor
  · linarith
  · nlinarith

/-- positive operands -/
theorem pos_band (f : ℕ) (hf : 23 ≤ f) (x : Int) (hx0 : 0 < x) (hx4 : ¬ 4 * x ≤ (f : Int) * pow2 f)
    (htail : Rm ((x : ℝ) / 2 ^ f) f ≤ Real.exp ((x : ℝ) / 2 ^ f) / 2 ^ 24) :
    |((expPure (pow2 f) x (f - 2) 2 x (x + pow2 f) : Int) : ℝ) / 2 ^ f - Real.exp ((x : ℝ) / 2 ^ f)| ≤
      Real.exp ((x : ℝ) / 2 ^ f) / 2 ^ 20 + 64 / 2 ^ f := by
  obtain ⟨d0, d1⟩ := delta_band f hf x hx0 hx4 htail
  obtain ⟨_, _, n1, n2, _, _⟩ := numeric_band f hf
  have hG : (0 : ℝ) < 2 ^ f := by positivity
  have hy1 : 1 ≤ Real.exp ((x : ℝ) / 2 ^ f) :=
    Real.one_le_exp (div_nonneg (by exact_mod_cast hx0.le) hG.le)
  have hl := lin_bound _ _ _ _ hy1 n1 n2
  generalize Real.exp ((x : ℝ) / 2 ^ f) = y at *
  generalize ((expPure (pow2 f) x (f - 2) 2 x (x + pow2 f) : Int) : ℝ) = R at *
  have e : R / 2 ^ f - y = -((2 ^ f * y - R) / 2 ^ f) := by field_simp; ring
  have hq : (2 ^ f * y - R) / 2 ^ f ≤ y / 2 ^ 20 + 64 / 2 ^ f := by
    rw [div_le_iff₀ hG]
    have : (y / 2 ^ 20 + 64 / 2 ^ f) * 2 ^ f = 64 + 2 ^ f / 2 ^ 20 * y := by field_simp; ring
    rw [this]
    linarith
  have hq0 : 0 ≤ (2 ^ f * y - R) / 2 ^ f := div_nonneg d0 hG.le
  rw [e, abs_neg, abs_of_nonneg hq0]
  exact hq

/-- negative operands: `x` is `|operand|` -/
theorem neg_band (f : ℕ) (hf : 23 ≤ f) (x : Int) (hx0 : 0 < x) (hx4 : ¬ 4 * x ≤ (f : Int) * pow2 f)
    (htail : Rm ((x : ℝ) / 2 ^ f) f ≤ Real.exp ((x : ℝ) / 2 ^ f) / 2 ^ 24) :
    |((pow2 f * pow2 f / expPure (pow2 f) x (f - 2) 2 x (x + pow2 f) : Int) : ℝ) / 2 ^ f - Real.exp (-((x : ℝ) / 2 ^ f))| ≤
      Real.exp (-((x : ℝ) / 2 ^ f)) / 2 ^ 20 + 64 / 2 ^ f := by
  obtain ⟨d0, d1⟩ := delta_band f hf x hx0 hx4 htail
  obtain ⟨na, nb, _, _, n4, n5⟩ := numeric_band f hf
  have hX5 := band_X f hf x hx4
  have hy128 : 128 ≤ Real.exp ((x : ℝ) / 2 ^ f) := exp_ge_128 (by linarith)
  clear htail hX5
  have hG : (0 : ℝ) < 2 ^ f := by positivity
  have hP := pow2_pos f
  have hge := expPure_ge (pow2 f) x hP.le hx0.le (f - 2) 2 x (x + pow2 f) hx0.le
  generalize expPure (pow2 f) x (f - 2) 2 x (x + pow2 f) = Rr at *
  have hR0 : 0 < Rr := by omega
  have i1 : pow2 f * pow2 f / Rr * Rr ≤ pow2 f * pow2 f := Int.ediv_mul_le _ (Int.ne_of_gt hR0)
  have i2 : pow2 f * pow2 f < (pow2 f * pow2 f / Rr + 1) * Rr := Int.lt_ediv_add_one_mul_self _ hR0
  have i0 : 0 ≤ pow2 f * pow2 f / Rr := Int.ediv_nonneg (Int.mul_nonneg hP.le hP.le) hR0.le
  generalize pow2 f * pow2 f / Rr = r at *
  have r1 : (r : ℝ) * Rr ≤ 2 ^ f * 2 ^ f := by
    have : ((r * Rr : Int) : ℝ) ≤ ((pow2 f * pow2 f : Int) : ℝ) := by exact_mod_cast i1
    push_cast at this
    rwa [pow2_cast] at this
  have r2 : (2 : ℝ) ^ f * 2 ^ f < ((r : ℝ) + 1) * Rr := by
    have : ((pow2 f * pow2 f : Int) : ℝ) < (((r + 1) * Rr : Int) : ℝ) := by exact_mod_cast i2
    push_cast at this
    rwa [pow2_cast] at this
  have r0 : (0 : ℝ) ≤ (r : ℝ) := by exact_mod_cast i0
  have hRG : (2 : ℝ) ^ f ≤ (Rr : ℝ) := by
    have : ((pow2 f : Int) : ℝ) ≤ (Rr : ℝ) := by exact_mod_cast (show pow2 f ≤ Rr by omega)
    rwa [pow2_cast] at this
  have hzy : Real.exp (-((x : ℝ) / 2 ^ f)) * Real.exp ((x : ℝ) / 2 ^ f) = 1 := by
    rw [← Real.exp_add]; simp
  generalize Real.exp (-((x : ℝ) / 2 ^ f)) = z at *
  generalize Real.exp ((x : ℝ) / 2 ^ f) = y at *
  have hy1 : 1 ≤ y := by linarith
  have eR : (Rr : ℝ) / 2 ^ f * 2 ^ f = Rr := by field_simp
  have er : (r : ℝ) / 2 ^ f * 2 ^ f = r := by field_simp
  have hw0 : 0 ≤ (r : ℝ) / 2 ^ f := by positivity
  generalize (Rr : ℝ) / 2 ^ f = v at *
  generalize (r : ℝ) / 2 ^ f = w at *
  have hg : (0 : ℝ) < 1 / 2 ^ f := by positivity
  have eg : 1 / (2 : ℝ) ^ f * 2 ^ f = 1 := by field_simp
  have e64 : (64 : ℝ) / 2 ^ f = 64 * (1 / 2 ^ f) := by ring
  have eGg : (2 : ℝ) ^ f / 2 ^ 20 * (1 / 2 ^ f) = 1 / 2 ^ 20 := by field_simp
  have e5 : (2 : ℝ) ^ f / 2 * (1 / 2 ^ f) = 1 / 2 := by field_simp
  rw [e64]
  generalize 1 / (2 : ℝ) ^ f = g at *
  have hv1 : 1 ≤ v := by
    have : 1 * (2 : ℝ) ^ f ≤ v * 2 ^ f := by rw [eR]; linarith
    exact le_of_mul_le_mul_right this hG
  have hvy : v ≤ y := by
    have : v * 2 ^ f ≤ y * 2 ^ f := by rw [eR]; linarith
    exact le_of_mul_le_mul_right this hG
  have q1 : w * v ≤ 1 := by
    have : (w * v) * (2 ^ f * 2 ^ f) ≤ 1 * (2 ^ f * 2 ^ f) := by
      calc (w * v) * (2 ^ f * 2 ^ f) = (w * 2 ^ f) * (v * 2 ^ f) := by ring
        _ = (r : ℝ) * Rr := by rw [er, eR]
        _ ≤ 2 ^ f * 2 ^ f := r1
        _ = 1 * (2 ^ f * 2 ^ f) := by ring
    exact le_of_mul_le_mul_right this (by positivity)
  have q2 : 1 < (w + g) * v := by
    have : 1 * ((2 : ℝ) ^ f * 2 ^ f) < ((w + g) * v) * (2 ^ f * 2 ^ f) := by
      calc 1 * ((2 : ℝ) ^ f * 2 ^ f) = 2 ^ f * 2 ^ f := by ring
        _ < ((r : ℝ) + 1) * Rr := r2
        _ = (w * 2 ^ f + g * 2 ^ f) * (v * 2 ^ f) := by rw [er, eR, eg]
        _ = ((w + g) * v) * (2 ^ f * 2 ^ f) := by ring
    exact lt_of_mul_lt_mul_right this (by positivity)
  -- y - v = δ g, and a ≤ a y / 128
  have hδ : y - v ≤ (0 + (2 * ((f : ℝ) - 13) / 128 + (33 / 8 + 13 / 200 * ((f : ℝ) - 13) + 2 ^ f / 2 ^ 24)) * y) * g := by
    have e : y - v = (2 ^ f * y - Rr) * g := by
      rw [← eR]
      have : (2 ^ f * y - v * 2 ^ f) * g = (y - v) * (g * 2 ^ f) := by ring
      rw [this, eg, mul_one]
    rw [e]
    apply mul_le_mul_of_nonneg_right _ hg.le
    have : 2 * ((f : ℝ) - 13) ≤ 2 * ((f : ℝ) - 13) / 128 * y := by
      have := mul_le_mul_of_nonneg_left hy128 na
      linarith
    linarith
  have hb0 : 0 ≤ 2 * ((f : ℝ) - 13) / 128 + (33 / 8 + 13 / 200 * ((f : ℝ) - 13) + 2 ^ f / 2 ^ 24) := by
    have : 0 ≤ 2 * ((f : ℝ) - 13) / 128 := div_nonneg na (by norm_num)
    linarith
  have hcase : 0 + (2 * ((f : ℝ) - 13) / 128 + (33 / 8 + 13 / 200 * ((f : ℝ) - 13) + 2 ^ f / 2 ^ 24)) + 1 ≤ 64 ∨
      (2 * (0 + (2 * ((f : ℝ) - 13) / 128 + (33 / 8 + 13 / 200 * ((f : ℝ) - 13) + 2 ^ f / 2 ^ 24))) ≤ 63 + 2 ^ f / 2 ^ 20 ∧
        (0 + (2 * ((f : ℝ) - 13) / 128 + (33 / 8 + 13 / 200 * ((f : ℝ) - 13) + 2 ^ f / 2 ^ 24))) * g ≤ 1 / 2) := by
    refine Or.inr ⟨by rw [zero_add]; exact n4, ?_⟩
    have := mul_le_mul_of_nonneg_right n5 hg.le
    rw [e5] at this
    rw [zero_add]
    exact this
  exact recip_wide y v w z g 0 _ ((2 : ℝ) ^ f / 2 ^ 20) hy1 hv1 hvy hzy hw0 q1 q2 hg hδ le_rfl hb0 hcase eGg

/-! ### the statement of C15 for the trace, outside known finding D10 -/

theorem exp_real_band (f : ℕ) (hf : 23 ≤ f) (x r : Int)
    (htail : Rm |(x : ℝ) / 2 ^ f| f ≤ Real.exp |(x : ℝ) / 2 ^ f| / 2 ^ 24) (h : ExpSpec f x r) :
    |(r : ℝ) / 2 ^ f - Real.exp ((x : ℝ) / 2 ^ f)| ≤ Real.exp ((x : ℝ) / 2 ^ f) / 2 ^ 20 + 64 / 2 ^ f := by
  have hG : (0 : ℝ) < 2 ^ f := by positivity
  have hP := pow2_pos f
  by_cases hB : 4 * (x.natAbs : Int) ≤ (f : Int) * pow2 f
  · exact exp_real_wide f hf x r hB h
  rcases h with ⟨hx, hr⟩ | ⟨hx, hr⟩ | ⟨hx, hr⟩ | ⟨hx, hr⟩
  · -- x = 0
    exfalso
    subst hx
    apply hB
    have : 0 ≤ (f : Int) * pow2 f := Int.mul_nonneg (by omega) hP.le
    simpa using this
  · -- x = 1
    exfalso
    subst hx
    apply hB
    have h1 : ((pow2 f).natAbs : Int) = pow2 f := by omega
    rw [h1]
    exact Int.mul_le_mul_of_nonneg_right (by omega) hP.le
  · -- x > 0
    have hxr : (0 : ℝ) < (x : ℝ) := by exact_mod_cast hx
    rw [abs_of_pos (div_pos hxr hG)] at htail
    rw [hr]
    exact pos_band f hf x hx (by omega) htail
  · -- x < 0
    have hxr : (x : ℝ) < 0 := by exact_mod_cast hx
    have eneg : (x : ℝ) / 2 ^ f = -((((-x : Int) : ℝ)) / 2 ^ f) := by push_cast; ring
    have eabs : |(x : ℝ) / 2 ^ f| = (((-x : Int) : ℝ)) / 2 ^ f := by
      rw [abs_of_neg (div_neg_of_neg_of_pos hxr hG)]; push_cast; ring
    rw [eabs] at htail
    rw [hr, eneg]
    exact neg_band f hf (-x) (by omega) (by omega) htail

/-! ### non-vacuity: `X = 9`, `f = 32` lies in the band (`4 · 9 > 32`, tail `≤ 2 · 9^32 / 32! ≈ 2.6e-5 ≤ e^9 / 2^24 ≈ 4.8e-4`) -/

theorem tail_witness : Rm 9 32 ≤ Real.exp 9 / 2 ^ 24 := by
  have h1 : (2.7182818283 : ℝ) < Real.exp 1 := Real.exp_one_gt_d9
  have h2 : Real.exp 9 = Real.exp 1 ^ 9 := by
    rw [← Real.exp_nat_mul]; norm_num
  have h3 : (2.7182818283 : ℝ) ^ 9 < Real.exp 1 ^ 9 := pow_lt_pow_left₀ h1 (by norm_num) (by norm_num)
  have h4 : (8000 : ℝ) ≤ (2.7182818283 : ℝ) ^ 9 := by norm_num
  have h5 := exp_le_Sm_add (X := 9) (by norm_num) 32 (by norm_num)
  have h6 : Tm 9 32 * 2 ≤ 8000 / 2 ^ 24 := by
    unfold Tm
    norm_num [Nat.factorial]
  unfold Rm
  have h7 : (8000 : ℝ) / 2 ^ 24 ≤ Real.exp 9 / 2 ^ 24 := by
    apply div_le_div_of_nonneg_right _ (by positivity)
    rw [h2]; linarith
  linarith

end Sfx.ExpBandPf
