import SfxProofs.TrigAccBridge
/-
  TrigAcc.lean — C16 for `sin` and `cos`: accuracy over Mathlib's reals, UNCONDITIONAL (no numeric hypothesis left open).

  For every valid signed layout `D` with `≥ 23` fractional and `≥ 9` integer bits (`TrigPf.Ok D`) and every operand `a` with
  `|a / 2^f| ≤ 200`:
      `sin_accuracy : |sinPure D a / 2^f − sin (a / 2^f)| ≤ 2^-16  ∧  |sinPure D a / 2^f| ≤ 1 + 2^-16`
      `cos_accuracy : |sinPure D (a + H D) / 2^f − cos (a / 2^f)| ≤ 2^-16  ∧  |…| ≤ 1 + 2^-16`
  where `sinPure` is the plain-integer function that `Trans.sin` was proved equal to in `SfxProofs/Trig.lean`
  (`sin_total_exact`, `cos_total_exact`); `sin_run_accuracy` / `cos_run_accuracy` restate them on `Trans.run (Trans.sin D a)`.

  Error budget actually proved (in ulps of `I9F23`, `2^-23`; allowed: `128`):
      `104.65` for sin (`sin_accuracy_gen`, valid up to `|a / 2^f| ≤ 202`), `105.29` for cos, made of
        17.28   range reduction modulo the 23-bit `TWO_PI` constant: `|q| ≤ 32` periods, `|T₂₃ − 2π| ≤ 0.54` ulp (`two_pi_23`)
         1.27   mirror step with the 23-bit `FRAC_PI_2`: `|2·H₂₃ − π| ≤ 1.27` ulp (`half_pi_23`)
        86.1    the CORDIC part (`tail_accuracy`): 37.03 truncated shifts + start value (`Kp 24 · (1 + 0.895·24)`),
                24 + 24·2^-30 floored/rounded table entries (`table_arctan`: every entry is `atan 2^-i` to `2^-53`),
                1 + 24 residual angle (`|z₂₄| ≤ e₂₃ + 24 ulp` from `table_convergence`), 2^-9 gain constant (`gain_fact`)
         0.635  (cos only) `|H₂₃ − π/2|`.
  The statements contain no `^` on `Int` (only on `ℝ`), so they can be elaborated with Mathlib's instances in scope.

  Helper files (all in namespace `Sfx.TrigAccPf`): `TrigAccBase` (integer facts of `Trig.lean` with `2^k` as the opaque `p2 k`, core only),
  `TrigAccReal` (abstract real CORDIC invariant `RI`, `RI_step`, `RI_final`), `TrigAccAtan` (Gregory-series enclosure of `Real.arctan`,
  `π` enclosures), `TrigAccTable` (`table_arctan`), `TrigAccBridge` (`tail_accuracy`), `TrigAccTan` (consequences for `tan`: totality for
  `|tan x| ≤ 64`, the C16 tan clause for `|tan x| ≤ 8`), `TrigAccC16` (the clauses of `SfxProps/C16.lean` word for word).
-/
namespace Sfx.TrigAccPf
open Sfx.Trans Sfx.TrigPf Real

/-- `TWO_PI` and `FRAC_PI_2` of `I9F23` as reals -/
noncomputable def T23 : ℝ := 52707178 / 8388608
noncomputable def H23 : ℝ := 13176794 / 8388608

/-! ### range reduction over the reals -/

theorem q_bound (x x1 : ℝ) (q : ℤ) (hx : |x| ≤ 202) (hx1 : |x1| ≤ 26353589 / 8388608) (h : x1 = x + q * T23) :
    |(q : ℝ)| ≤ 32 := by
  rcases le_or_gt |q| 32 with hq | hq
  · have : ((|q| : ℤ) : ℝ) ≤ 32 := by exact_mod_cast hq
    rwa [Int.cast_abs] at this
  · exfalso
    have h33 : ((33 : ℤ) : ℝ) ≤ ((|q| : ℤ) : ℝ) := by exact_mod_cast (by omega : (33 : ℤ) ≤ |q|)
    rw [Int.cast_abs] at h33
    have e : (q : ℝ) * T23 = x1 - x := by rw [h]; ring
    have a1 : |(q : ℝ) * T23| ≤ |x1| + |x| := by rw [e]; exact abs_sub _ _
    have hT : |T23| = T23 := abs_of_pos (by unfold T23; norm_num)
    rw [abs_mul, hT] at a1
    unfold T23 at a1
    norm_num at h33 a1 hx1
    nlinarith

theorem reduce_err (x x1 x2 : ℝ) (q : ℤ) (hq : |(q : ℝ)| ≤ 32) (h1 : x1 = x + q * T23)
    (h2 : x2 = x1 ∨ x2 = 2 * H23 - x1 ∨ x2 = -(2 * H23) - x1) :
    |sin x2 - sin x| ≤ (32 * (54 / 100) + 127 / 100) / 8388608 := by
  have hT := two_pi_23
  have hH := half_pi_23
  -- periods
  have s1 : |sin x1 - sin x| ≤ 32 * (54 / 100) / 8388608 := by
    rw [← sin_add_int_mul_two_pi x q]
    refine le_trans (abs_sin_sub_sin_le _ _) ?_
    have : x1 - (x + q * (2 * π)) = q * (T23 - 2 * π) := by rw [h1]; ring
    rw [this, abs_mul]
    unfold T23
    have := mul_le_mul hq hT (abs_nonneg _) (by norm_num)
    linarith
  -- mirror
  have s2 : |sin x2 - sin x1| ≤ 127 / 100 / 8388608 := by
    rcases h2 with h | h | h
    · rw [h, sub_self, abs_zero]; norm_num
    · rw [← sin_pi_sub x1]
      refine le_trans (abs_sin_sub_sin_le _ _) ?_
      have : x2 - (π - x1) = 2 * H23 - π := by rw [h]; ring
      rw [this]; unfold H23; exact hH
    · have e : sin x1 = sin (-π - x1) := by
        have : -π - x1 = -(x1 + π) := by ring
        rw [this, sin_neg, sin_add_pi, neg_neg]
      rw [e]
      refine le_trans (abs_sin_sub_sin_le _ _) ?_
      have : x2 - (-π - x1) = -(2 * H23 - π) := by rw [h]; ring
      rw [this, abs_neg]; unfold H23; exact hH
  have : sin x2 - sin x = (sin x2 - sin x1) + (sin x1 - sin x) := by ring
  rw [this]
  refine le_trans (abs_add_le _ _) ?_
  linarith

/-! ### casts -/

theorem ratio (c w : ℝ) (hw : 0 < w) : (c * w) / (8388608 * w) = c / 8388608 := by
  field_simp

theorem abs_div_le_of (a lo : ℤ) (s c : ℝ) (hs : 0 < s) (h1 : -lo ≤ a) (h2 : a ≤ lo) (hc : (lo : ℝ) = c * s) :
    |(a : ℝ) / s| ≤ c := by
  have b1 : -(lo : ℝ) ≤ (a : ℝ) := by exact_mod_cast h1
  have b2 : (a : ℝ) ≤ (lo : ℝ) := by exact_mod_cast h2
  rw [abs_le]
  constructor
  · rw [le_div_iff₀ hs]; linarith
  · rw [div_le_iff₀ hs]; linarith

/-- from the real bound back to the integers -/
theorem int_bounds {D : Layout} (a : Int) (c : ℤ) (hb : |(a : ℝ) / sc D| ≤ (c : ℝ)) :
    -(c * p2 D.f) ≤ a ∧ a ≤ c * p2 D.f := by
  have hs := sc_pos D
  rw [abs_le] at hb
  obtain ⟨b1, b2⟩ := hb
  rw [le_div_iff₀ hs] at b1
  rw [div_le_iff₀ hs] at b2
  have e : sc D = ((p2 D.f : Int) : ℝ) := (p2_cast D.f).symm
  rw [e] at b1 b2
  constructor
  · have : ((-(c * p2 D.f) : ℤ) : ℝ) ≤ (a : ℝ) := by push_cast; linarith
    exact_mod_cast this
  · have : (a : ℝ) ≤ ((c * p2 D.f : ℤ) : ℝ) := by push_cast; linarith
    exact_mod_cast this

/-! ### sin -/

/-- accuracy of `sin` for `|a / 2^f| ≤ 202`: `104.65` ulps of `I9F23` -/
theorem sin_accuracy_gen {D : Layout} (hD : Ok D) (a : Int) (ha : inRange D a) (hb : |(a : ℝ) / sc D| ≤ 202) :
    |((sinPure D a : Int) : ℝ) / sc D - sin ((a : ℝ) / sc D)| ≤ (10465 / 100) / 2 ^ 23 := by
  obtain ⟨q, a1, a2, d, e1, e2, _, hq, l1, l2, _, _, hm, m1, m2, _⟩ := sin_reduce hD a ha
  have hs := sc_pos D
  have hW := W_posR D
  have hsW := sc_W hD
  have htail := tail_accuracy hD a2 m1 m2
  have hsp : sinPure D a = tailPure D a2 := by unfold sinPure; rw [← e1, ← e2]
  rw [hsp]
  -- the reduced angle on the unit scale
  have hT : ((T D : Int) : ℝ) / sc D = T23 := by
    rw [T_eq, hsW]; push_cast; unfold T23; exact ratio _ _ hW
  have hH : ((H D : Int) : ℝ) / sc D = H23 := by
    rw [H_eq, hsW]; push_cast; unfold H23; exact ratio _ _ hW
  have x1eq : (a1 : ℝ) / sc D = (a : ℝ) / sc D + q * T23 := by
    rw [hq, ← hT]; push_cast; field_simp
  have x1b : |(a1 : ℝ) / sc D| ≤ 26353589 / 8388608 := by
    refine abs_div_le_of a1 (P D) (sc D) _ hs l1 l2 ?_
    rw [P_eq, hsW]; push_cast; ring
  have hqb := q_bound _ _ q hb x1b x1eq
  have x2eq : (a2 : ℝ) / sc D = (a1 : ℝ) / sc D ∨ (a2 : ℝ) / sc D = 2 * H23 - (a1 : ℝ) / sc D ∨
      (a2 : ℝ) / sc D = -(2 * H23) - (a1 : ℝ) / sc D := by
    rcases hm with h | h | h
    · left; rw [h]
    · right; left; rw [h, ← hH]; push_cast; field_simp; ring
    · right; right; rw [h, ← hH]; push_cast; field_simp; ring
  have hred := reduce_err _ _ _ q hqb x1eq x2eq
  have : ((tailPure D a2 : Int) : ℝ) / sc D - sin ((a : ℝ) / sc D) =
      (((tailPure D a2 : Int) : ℝ) / sc D - sin ((a2 : ℝ) / sc D)) + (sin ((a2 : ℝ) / sc D) - sin ((a : ℝ) / sc D)) := by ring
  rw [this]
  refine le_trans (abs_add_le _ _) ?_
  norm_num at htail hred ⊢
  linarith

/-- C16 for `sin`, on the plain-integer function `sinPure` (`= Trans.sin` by `TrigPf.sin_total_exact`) -/
theorem sin_accuracy (D : Layout) (hD : Ok D) (a : Int) (ha : inRange D a) (hb : |(a : ℝ) / 2 ^ D.f| ≤ 200) :
    |((sinPure D a : Int) : ℝ) / 2 ^ D.f - Real.sin ((a : ℝ) / 2 ^ D.f)| ≤ 1 / 2 ^ 16 ∧
      |((sinPure D a : Int) : ℝ) / 2 ^ D.f| ≤ 1 + 1 / 2 ^ 16 := by
  have h := sin_accuracy_gen hD a ha (le_trans hb (by norm_num))
  have h1 : |((sinPure D a : Int) : ℝ) / 2 ^ D.f - Real.sin ((a : ℝ) / 2 ^ D.f)| ≤ 1 / 2 ^ 16 := by
    refine le_trans h ?_; norm_num
  refine ⟨h1, ?_⟩
  have h2 := abs_sin_le_one ((a : ℝ) / 2 ^ D.f)
  have : ((sinPure D a : Int) : ℝ) / 2 ^ D.f =
      (((sinPure D a : Int) : ℝ) / 2 ^ D.f - Real.sin ((a : ℝ) / 2 ^ D.f)) + Real.sin ((a : ℝ) / 2 ^ D.f) := by ring
  rw [this]
  refine le_trans (abs_add_le _ _) ?_
  linarith

/-! ### cos -/

/-- accuracy of the shifted call: `sinPure D (a + H)` against `cos`, `105.29` ulps of `I9F23` -/
theorem cos_accuracy_gen {D : Layout} (hD : Ok D) (a : Int) (hb : |(a : ℝ) / sc D| ≤ 200) :
    |((sinPure D (a + H D) : Int) : ℝ) / sc D - cos ((a : ℝ) / sc D)| ≤ (10529 / 100) / 2 ^ 23 := by
  have hs := sc_pos D
  have hW := W_posR D
  have hsW := sc_W hD
  obtain ⟨i1, i2⟩ := int_bounds (D := D) a 200 (by push_cast; exact hb)
  obtain ⟨j1, j2, hr⟩ := shift_bounds hD a i1 i2
  have hH : ((H D : Int) : ℝ) / sc D = H23 := by
    rw [H_eq, hsW]; push_cast; unfold H23; exact ratio _ _ hW
  have hb2 : |((a + H D : Int) : ℝ) / sc D| ≤ 202 := by
    refine abs_div_le_of (a + H D) (202 * p2 D.f) (sc D) 202 hs j1 j2 ?_
    push_cast; rw [p2_cast]; rfl
  have h := sin_accuracy_gen hD (a + H D) hr hb2
  have xe : ((a + H D : Int) : ℝ) / sc D = (a : ℝ) / sc D + H23 := by
    rw [← hH]; push_cast; field_simp
  have hh := half_pi_23
  have c1 : |sin (((a + H D : Int) : ℝ) / sc D) - cos ((a : ℝ) / sc D)| ≤ (127 / 200) / 8388608 := by
    rw [← sin_add_pi_div_two, xe]
    refine le_trans (abs_sin_sub_sin_le _ _) ?_
    have : (a : ℝ) / sc D + H23 - ((a : ℝ) / sc D + π / 2) = (2 * H23 - π) / 2 := by ring
    rw [this, abs_div, abs_two]
    unfold H23
    linarith
  have : ((sinPure D (a + H D) : Int) : ℝ) / sc D - cos ((a : ℝ) / sc D) =
      (((sinPure D (a + H D) : Int) : ℝ) / sc D - sin (((a + H D : Int) : ℝ) / sc D)) +
        (sin (((a + H D : Int) : ℝ) / sc D) - cos ((a : ℝ) / sc D)) := by ring
  rw [this]
  refine le_trans (abs_add_le _ _) ?_
  norm_num at h c1 ⊢
  linarith

/-- C16 for `cos`, on the plain-integer function (`Trans.cos D a = sinPure D (a + H D)` by `TrigPf.cos_total_exact`) -/
theorem cos_accuracy (D : Layout) (hD : Ok D) (a : Int) (_ha : inRange D a) (hb : |(a : ℝ) / 2 ^ D.f| ≤ 200) :
    |((sinPure D (a + H D) : Int) : ℝ) / 2 ^ D.f - Real.cos ((a : ℝ) / 2 ^ D.f)| ≤ 1 / 2 ^ 16 ∧
      |((sinPure D (a + H D) : Int) : ℝ) / 2 ^ D.f| ≤ 1 + 1 / 2 ^ 16 := by
  have h := cos_accuracy_gen hD a hb
  have h1 : |((sinPure D (a + H D) : Int) : ℝ) / 2 ^ D.f - Real.cos ((a : ℝ) / 2 ^ D.f)| ≤ 1 / 2 ^ 16 := by
    refine le_trans h ?_; norm_num
  refine ⟨h1, ?_⟩
  have h2 := abs_cos_le_one ((a : ℝ) / 2 ^ D.f)
  have : ((sinPure D (a + H D) : Int) : ℝ) / 2 ^ D.f =
      (((sinPure D (a + H D) : Int) : ℝ) / 2 ^ D.f - Real.cos ((a : ℝ) / 2 ^ D.f)) + Real.cos ((a : ℝ) / 2 ^ D.f) := by ring
  rw [this]
  refine le_trans (abs_add_le _ _) ?_
  linarith

/-! ### on the model's `run` (the shape of `C16_statement`) -/

/-- every result of `Trans.sin` on `|a / 2^f| ≤ 200` is accurate to `2^-16` and at most `1 + 2^-16` in magnitude -/
theorem sin_run_accuracy (D : Layout) (hv : D.valid) (hsg : D.signed = true) (hf : 23 ≤ D.f) (hi : 9 ≤ D.intBits)
    (a : Int) (ha : inRange D a) (hb : |(a : ℝ) / 2 ^ D.f| ≤ 200) (r : Int) (it : Nat) (dbg : Bool)
    (hrun : Trans.run (Trans.sin D a) = .ok (some r, it) dbg) :
    |(r : ℝ) / 2 ^ D.f - Real.sin ((a : ℝ) / 2 ^ D.f)| ≤ 1 / 2 ^ 16 ∧ |(r : ℝ) / 2 ^ D.f| ≤ 1 + 1 / 2 ^ 16 := by
  have hD : Ok D := ⟨hv, hsg, hf, hi⟩
  have e := (sin_total_exact D hv hsg hf hi a ha).1
  rw [e] at hrun
  injection hrun with h1 _
  injection h1 with h2 _
  injection h2 with h3
  rw [← h3]
  exact sin_accuracy D hD a ha hb

/-- the same for `Trans.cos` -/
theorem cos_run_accuracy (D : Layout) (hv : D.valid) (hsg : D.signed = true) (hf : 23 ≤ D.f) (hi : 9 ≤ D.intBits)
    (a : Int) (ha : inRange D a) (hb : |(a : ℝ) / 2 ^ D.f| ≤ 200) (r : Int) (it : Nat) (dbg : Bool)
    (hrun : Trans.run (Trans.cos D a) = .ok (some r, it) dbg) :
    |(r : ℝ) / 2 ^ D.f - Real.cos ((a : ℝ) / 2 ^ D.f)| ≤ 1 / 2 ^ 16 ∧ |(r : ℝ) / 2 ^ D.f| ≤ 1 + 1 / 2 ^ 16 := by
  have hD : Ok D := ⟨hv, hsg, hf, hi⟩
  obtain ⟨i1, i2⟩ := int_bounds (D := D) a 200 (by push_cast; exact hb)
  obtain ⟨_, _, hr⟩ := shift_bounds hD a i1 i2
  have e := cos_total_exact D hv hsg hf hi a hr
  rw [e] at hrun
  injection hrun with h1 _
  injection h1 with h2 _
  injection h2 with h3
  rw [← h3]
  exact cos_accuracy D hD a ha hb

end Sfx.TrigAccPf

#print axioms Sfx.TrigAccPf.table_arctan
#print axioms Sfx.TrigAccPf.tail_accuracy
#print axioms Sfx.TrigAccPf.sin_accuracy_gen
#print axioms Sfx.TrigAccPf.cos_accuracy_gen
#print axioms Sfx.TrigAccPf.sin_accuracy
#print axioms Sfx.TrigAccPf.cos_accuracy
#print axioms Sfx.TrigAccPf.sin_run_accuracy
#print axioms Sfx.TrigAccPf.cos_run_accuracy
