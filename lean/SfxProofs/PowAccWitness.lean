import SfxModel.Transcendental
/-
  PowAccWitness.lean — import-free evaluations of the model `pow::<I41F23>` (`FixedI64<U23>`) at `x = 1 + 2^-23` with a large
  negative exponent: `ln x` is computed as 0 (`ln(1 + 2^-23) ≈ 0.99999994 ulp`, truncated), so `pow` returns exactly 1.0.
  The literals are bit patterns: `8388609 = 2^23 + 1`, `-562949953421312 = -2^49 = -(8·2^23)·2^23`,
  `-351843720888320 = -(5·2^23)·2^23`.
-/
namespace Sfx.PowAccPf

theorem ln_one_plus_ulp_run :
    Trans.run (Trans.ln ⟨true, 64, 23⟩ ⟨true, 64, 23⟩ 8388609) = .ok (some 0, 23) false := by
  decide +kernel

/-- `pow(1 + 2^-23, -67108864.0) = Ok(1.0)`; true value `≈ e^-8 ≈ 3.35e-4` -/
theorem pow_ln_run8 :
    Trans.run (Trans.pow ⟨true, 64, 23⟩ ⟨true, 64, 23⟩ 8388609 (-562949953421312)) = .ok (some 8388608, 23) false := by
  decide +kernel

/-- `pow(1 + 2^-23, -41943040.0) = Ok(1.0)`; true value `≈ e^-5 ≈ 6.7e-3`, allowed error `≈ 0.54` -/
theorem pow_ln_run5 :
    Trans.run (Trans.pow ⟨true, 64, 23⟩ ⟨true, 64, 23⟩ 8388609 (-351843720888320)) = .ok (some 8388608, 23) false := by
  decide +kernel

end Sfx.PowAccPf
