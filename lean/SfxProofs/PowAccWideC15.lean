import SfxProofs.PowAccWide
import SfxProps.C15
/-
  PowAccWideC15.lean — the pow clause of `Sfx.C15.C15_statement` (SfxProps/C15.lean), verbatim, on the wide region
  `4 |val y · ln (val x)| + 2 ≤ frac_nbits` and `32 · |val y| ≤ 2^f` (the latter is vacuous for types with `intBits + 4 ≤ f`,
  `PowAccPf.hY_auto`, and cannot be dropped: finding D16, `PowAccNeg.lean`).
-/
namespace Sfx.PowAccPf
open Sfx.C15 Sfx.C12

theorem C15_pow_wide (D : Layout) (h : Supp D) (x y : Int) (hx : inRange D x) (hy : inRange D y)
    (hsmall : 4 * |val D.f y * Real.log (val D.f x)| + 2 ≤ (D.f : ℝ)) (hY : |val D.f y| * 32 ≤ (2 : ℝ) ^ D.f) :
    ∀ r it dbg, 0 < x → Trans.run (Trans.pow D D x y) = .ok (some r, it) dbg →
      |val D.f r - (val D.f x) ^ (val D.f y)| ≤
        (1 / (2 : ℝ) ^ 18 + |val D.f y * Real.log (val D.f x)| / (2 : ℝ) ^ 22 + 16 * |val D.f y| / (2 : ℝ) ^ D.f) * (val D.f x) ^ (val D.f y)
          + 64 / (2 : ℝ) ^ D.f := by
  obtain ⟨hv, hs, hf, hint⟩ := h
  intro r it dbg hx0 hrun
  exact pow_accuracy_wide D hv hs hf hint x y hx hy hx0 hsmall hY r it dbg hrun

/-- the same with the sharper pair of hypotheses -/
theorem C15_pow_wide_gen (D : Layout) (h : Supp D) (x y : Int) (hx : inRange D x) (hy : inRange D y)
    (hA : 8 * |val D.f y| / (2 : ℝ) ^ D.f ≤ 1)
    (hW : 4 * (|val D.f y * Real.log (val D.f x)| + 8 * |val D.f y| / (2 : ℝ) ^ D.f) + 1 ≤ (D.f : ℝ)) :
    ∀ r it dbg, 0 < x → Trans.run (Trans.pow D D x y) = .ok (some r, it) dbg →
      |val D.f r - (val D.f x) ^ (val D.f y)| ≤
        (1 / (2 : ℝ) ^ 18 + |val D.f y * Real.log (val D.f x)| / (2 : ℝ) ^ 22 + 16 * |val D.f y| / (2 : ℝ) ^ D.f) * (val D.f x) ^ (val D.f y)
          + 64 / (2 : ℝ) ^ D.f := by
  obtain ⟨hv, hs, hf, hint⟩ := h
  intro r it dbg hx0 hrun
  exact pow_accuracy_wide_gen D hv hs hf hint x y hx hy hx0 hA hW r it dbg hrun

end Sfx.PowAccPf

#print axioms Sfx.PowAccPf.C15_pow_wide
#print axioms Sfx.PowAccPf.C15_pow_wide_gen
