import SfxProofs.Exp
import SfxProofs.Log
import SfxProps.C12
/-
  Pairs.lean — `exp::<S, D>`, `pow::<S, D>`, `powi::<S, D>` for a source type `S ≠ D` with `D: From<S>` reduce to the
  same-type instances `exp::<D, D>` … on the losslessly widened operand `x · 2^(D.f − S.f)`.

  The only operand where the two sides differ is `exp` at `x = S::MIN`: the source-side `checked_neg` returns `Err` at once
  (`exp_widen_min`), whereas the widened operand can be negated in `D` when `D` has more integer bits.  Both sides return `Err`
  in all evaluated cases but the iteration counters differ, so `exp_widen_eq` excludes `x = S.min` and `exp_widen_min` states
  what happens there.

  Core powers (`Int.instNatPow`) throughout, as in the model.
-/
attribute [-instance] Monoid.toNPow

namespace Sfx.PairsPf
open Sfx.Trans Sfx.SqrtPf Sfx.TransFacts Sfx.ConvPf Sfx.ExpPf Sfx.LogPf Sfx.C12

/-- the comparison facts of a supported type -/
theorem convFacts_supp (S : Layout) (h : Supp S) : ConvFacts S := by
  obtain ⟨hv, hs, _, hint⟩ := h
  refine convFacts S hv ?_
  rw [hs]
  show 3 ≤ S.intBits
  omega

/-- the widened operand: zero / one / sign tests agree with the source's -/
theorem widen_tests (S D : Layout) (hf : S.f ≤ D.f) (x : Int) :
    (x * 2 ^ (D.f - S.f) = 0 ↔ x = 0) ∧ (x * 2 ^ (D.f - S.f) = 2 ^ D.f ↔ x = 2 ^ S.f) ∧
    (x * 2 ^ (D.f - S.f) < 0 ↔ x < 0) := by
  have hQ := two_pow_pos (D.f - S.f)
  have hsplit : (2 : Int) ^ D.f = 2 ^ S.f * 2 ^ (D.f - S.f) := by
    rw [← pow_add']; congr 1; omega
  have h0 : (0 : Int) = 0 * 2 ^ (D.f - S.f) := by rw [Int.zero_mul]
  refine ⟨?_, ?_, ?_⟩
  · constructor
    · intro h; rw [h0] at h; exact (mul_eq_mul_iff _ _ _ hQ).1 h
    · intro h; rw [h, Int.zero_mul]
  · rw [hsplit]; exact mul_eq_mul_iff _ _ _ hQ
  · constructor
    · intro h; rw [h0] at h; exact (mul_lt_mul_iff _ _ _ hQ).1 h
    · intro h
      have := Int.mul_lt_mul_of_pos_right h hQ
      rwa [Int.zero_mul] at this

theorem neg_inRange (S : Layout) (hs : S.signed = true) (x : Int) (hx : inRange S x) (hmin : x ≠ S.min) : inRange S (-x) := by
  unfold inRange inI at *
  unfold Layout.min at hmin
  rw [hs] at hx hmin ⊢
  unfold minI maxI at *
  simp only [if_true] at *
  omega

theorem min_not_inRange_neg (S : Layout) (hs : S.signed = true) : ¬ inRange S (-S.min) := by
  unfold inRange inI Layout.min
  rw [hs]
  unfold minI maxI
  simp only [if_true]
  have := two_pow_pos (S.n - 1)
  omega

/-! ### `exp` -/

/-- `exp::<S, D>(x)` is `exp::<D, D>` of the losslessly widened operand, as computations (any starting counter), for every
operand but `S::MIN` -/
theorem exp_widen_fun (S D : Layout) (hS : Supp S) (hD : Supp D) (hadm : fromAdmissible S D) (x : Int) (hx : inRange S x)
    (hmin : x ≠ S.min) :
    Trans.exp S D x = Trans.exp D D (x * 2 ^ (D.f - S.f)) := by
  have cS := convFacts_supp S hS
  have cD := convFacts_supp D hD
  obtain ⟨hSv, hSs, _, _⟩ := hS
  obtain ⟨hDv, hDs, _, _⟩ := hD
  obtain ⟨hfrom, hx'⟩ := fromS_widen S D hSv hDv hadm x hx
  obtain ⟨t0, t1, t2⟩ := widen_tests S D hadm.1 x
  rw [exp_eq, exp_eq, cS.eq0 x hx, cD.eq0 _ hx', cS.eq1 x hx, cD.eq1 _ hx', cS.lt0 x hx, cD.lt0 _ hx']
  simp only [decide_eq_true_eq]
  by_cases h0 : x = 0
  · rw [if_pos h0, if_pos (t0.2 h0)]
  rw [if_neg h0, if_neg (fun h => h0 (t0.1 h))]
  by_cases h1 : x = 2 ^ S.f
  · rw [if_pos h1, if_pos (t1.2 h1)]
  rw [if_neg h1, if_neg (fun h => h1 (t1.1 h))]
  funext m
  by_cases hneg : x < 0
  · have hneg' : x * 2 ^ (D.f - S.f) < 0 := t2.2 hneg
    have hnx : inRange S (-x) := neg_inRange S hSs x hx hmin
    obtain ⟨hfromN, hnx'⟩ := fromS_widen S D hSv hDv hadm (-x) hnx
    have e : -x * 2 ^ (D.f - S.f) = -(x * 2 ^ (D.f - S.f)) := Int.neg_mul _ _
    rw [e] at hfromN hnx'
    rw [if_pos hneg, if_pos hneg', checkedNeg_eq, checkedNeg_eq, chk_in S hnx, chk_in D hnx', liftOpt_some_bind,
      liftOpt_some_bind, hfromN, fromS_self, liftO_bind, liftO_bind]
    simp only [hneg, hneg']
  · have hneg' : ¬ x * 2 ^ (D.f - S.f) < 0 := fun h => hneg (t2.1 h)
    rw [if_neg hneg, if_neg hneg', pure_bind', pure_bind', hfrom, fromS_self, liftO_bind, liftO_bind]
    simp only [hneg, hneg']

theorem exp_widen_eq (S D : Layout) (hS : Supp S) (hD : Supp D) (hadm : fromAdmissible S D) (x : Int) (hx : inRange S x)
    (hmin : x ≠ S.min) :
    Trans.run (Trans.exp S D x) = Trans.run (Trans.exp D D (x * 2 ^ (D.f - S.f))) := by
  rw [exp_widen_fun S D hS hD hadm x hx hmin]

/-- `exp::<S, D>(S::MIN)` is `Err`, without a single loop iteration (`checked_neg` of the source fails) -/
theorem exp_widen_min (S D : Layout) (hS : Supp S) :
    Trans.run (Trans.exp S D S.min) = .ok (none, 0) false := by
  have cS := convFacts_supp S hS
  obtain ⟨hSv, hSs, _, _⟩ := hS
  have hP := two_pow_pos (S.n - 1)
  have hF := two_pow_pos S.f
  have hm : S.min = -(2 ^ (S.n - 1)) := by unfold Layout.min minI; rw [hSs]; rfl
  have hx : inRange S S.min := by
    unfold inRange inI; rw [← Layout.min]
    unfold Layout.min maxI minI; rw [hSs]; simp only [if_true]; omega
  unfold Trans.run
  rw [exp_eq, cS.eq0 _ hx, cS.eq1 _ hx, cS.lt0 _ hx]
  simp only [decide_eq_true_eq]
  rw [if_neg (by omega), if_neg (by omega), if_pos (by omega), checkedNeg_eq, chk_out S (min_not_inRange_neg S hSs),
    liftOpt_none_bind]

/-- the hypothesis `x ≠ S.min` of `exp_widen_eq` cannot be dropped: at `exp::<I9F23, I32F32>(MIN)` the source-side `checked_neg`
fails at once, while `exp::<I32F32, I32F32>(−256.0)` negates, runs four loop iterations and then overflows.  Both are `Err`
(C15 says nothing about `Err`), only the iteration counters differ. -/
theorem exp_widen_eq_min_counterexample :
    Trans.run (Trans.exp ⟨true, 32, 23⟩ ⟨true, 64, 32⟩ (-(2 ^ 31))) = .ok (none, 0) false ∧
    Trans.run (Trans.exp ⟨true, 64, 32⟩ ⟨true, 64, 32⟩ (-(2 ^ 31) * 2 ^ (32 - 23))) = .ok (none, 4) false := by
  refine ⟨by decide +kernel, by decide +kernel⟩

/-! ### `powi` -/

theorem powi_widen_fun (S D : Layout) (hS : Supp S) (hD : Supp D) (hadm : fromAdmissible S D) (x : Int) (hx : inRange S x)
    (n : Int) :
    Trans.powi S D x n = Trans.powi D D (x * 2 ^ (D.f - S.f)) n := by
  obtain ⟨hSv, hSs, _, _⟩ := hS
  obtain ⟨hDv, hDs, _, _⟩ := hD
  obtain ⟨hfrom, hx'⟩ := fromS_widen S D hSv hDv hadm x hx
  obtain ⟨t0, _, _⟩ := widen_tests S D hadm.1 x
  funext m
  rw [powi_eq, powi_eq, fromNumI_zero S hSv, fromNumI_zero D hDv, liftO_bind, liftO_bind]
  by_cases h0 : x = 0
  · rw [if_pos h0, if_pos (t0.2 h0)]
  rw [if_neg h0, if_neg (fun h => h0 (t0.1 h))]
  by_cases hn0 : n = 0
  · rw [if_pos hn0, if_pos hn0]
  rw [if_neg hn0, if_neg hn0]
  by_cases hn1 : n = 1
  · rw [if_pos hn1, if_pos hn1, hfrom, fromS_self]
  rw [if_neg hn1, if_neg hn1]
  unfold powiBody
  rw [hfrom, fromS_self]

theorem powi_widen_eq (S D : Layout) (hS : Supp S) (hD : Supp D) (hadm : fromAdmissible S D) (x : Int) (hx : inRange S x)
    (n : Int) :
    Trans.run (Trans.powi S D x n) = Trans.run (Trans.powi D D (x * 2 ^ (D.f - S.f)) n) := by
  rw [powi_widen_fun S D hS hD hadm x hx n]

/-! ### `pow` -/

theorem log2_widen_fun (S D : Layout) (hS : S.valid) (hv : D.valid) (hadm : fromAdmissible S D) (x : Int)
    (hx : inRange S x) :
    Trans.log2 S D x = Trans.log2 D D (x * 2 ^ (D.f - S.f)) := by
  obtain ⟨hfrom, hx'⟩ := fromS_widen S D hS hv hadm x hx
  obtain ⟨_, _, _, w4⟩ := widen_cmp S D hadm.1 x
  rw [log2_eq, log2_eq, hfrom, fromS_refl]
  by_cases h0 : x ≤ 0
  · have : x * 2 ^ (D.f - S.f) ≤ 0 := by
      by_contra hc
      have := w4.1 (by omega)
      omega
    rw [if_pos h0, if_pos this]
  · have : ¬ x * 2 ^ (D.f - S.f) ≤ 0 := by
      have := w4.2 (by omega)
      omega
    rw [if_neg h0, if_neg this]

theorem ln_widen_fun (S D : Layout) (hS : S.valid) (hv : D.valid) (hadm : fromAdmissible S D) (x : Int)
    (hx : inRange S x) : Trans.ln S D x = Trans.ln D D (x * 2 ^ (D.f - S.f)) := by
  rw [ln_eq, ln_eq, log2_widen_fun S D hS hv hadm x hx]

theorem fromNumI_one (S : Layout) (hS : Supp S) : Trans.fromNumI S 1 = .ok (2 ^ S.f) false :=
  (convFacts_supp S hS).fromNum1

theorem pow_widen_fun (S D : Layout) (hS : Supp S) (hD : Supp D) (hadm : fromAdmissible S D) (x y : Int)
    (hx : inRange S x) (hy : inRange S y) :
    Trans.pow S D x y = Trans.pow D D (x * 2 ^ (D.f - S.f)) (y * 2 ^ (D.f - S.f)) := by
  have oS := fromNumI_one S hS
  have oD := fromNumI_one D hD
  obtain ⟨hSv, hSs, _, _⟩ := hS
  obtain ⟨hDv, hDs, _, _⟩ := hD
  obtain ⟨hfromx, hx'⟩ := fromS_widen S D hSv hDv hadm x hx
  obtain ⟨hfromy, hy'⟩ := fromS_widen S D hSv hDv hadm y hy
  obtain ⟨tx0, _, _⟩ := widen_tests S D hadm.1 x
  obtain ⟨ty0, ty1, _⟩ := widen_tests S D hadm.1 y
  funext m
  rw [pow_eq, pow_eq, fromNumI_zero S hSv, fromNumI_zero D hDv, liftO_bind, liftO_bind]
  by_cases h0 : x = 0
  · rw [if_pos h0, if_pos (tx0.2 h0)]
  rw [if_neg h0, if_neg (fun h => h0 (tx0.1 h)), liftO_bind, liftO_bind]
  by_cases hy0 : y = 0
  · rw [if_pos hy0, if_pos (ty0.2 hy0)]
  rw [if_neg hy0, if_neg (fun h => hy0 (ty0.1 h)), oS, oD, liftO_bind, liftO_bind]
  by_cases hy1 : y = 2 ^ S.f
  · rw [if_pos hy1, if_pos (ty1.2 hy1), hfromx, fromS_self]
  rw [if_neg hy1, if_neg (fun h => hy1 (ty1.1 h)), ln_widen_fun S D hSv hDv hadm x hx, hfromy, fromS_self]

theorem pow_widen_eq (S D : Layout) (hS : Supp S) (hD : Supp D) (hadm : fromAdmissible S D) (x y : Int)
    (hx : inRange S x) (hy : inRange S y) :
    Trans.run (Trans.pow S D x y) = Trans.run (Trans.pow D D (x * 2 ^ (D.f - S.f)) (y * 2 ^ (D.f - S.f))) := by
  rw [pow_widen_fun S D hS hD hadm x y hx hy]

/-- the widened operand is an operand of `D` -/
theorem widen_inRange (S D : Layout) (hS : Supp S) (hD : Supp D) (hadm : fromAdmissible S D) (x : Int) (hx : inRange S x) :
    inRange D (x * 2 ^ (D.f - S.f)) :=
  (fromS_widen S D hS.1 hD.1 hadm x hx).2

/-! ### the reductions packaged for the real-valued statements (the widened operand as an abstract integer `w`) -/

theorem exp_widen_ex (S D : Layout) (hS : Supp S) (hD : Supp D) (hadm : fromAdmissible S D) (x : Int) (hx : inRange S x)
    (hmin : x ≠ S.min) :
    ∃ w : Int, w = x * 2 ^ (D.f - S.f) ∧ inRange D w ∧ Trans.run (Trans.exp S D x) = Trans.run (Trans.exp D D w) :=
  ⟨_, rfl, widen_inRange S D hS hD hadm x hx, exp_widen_eq S D hS hD hadm x hx hmin⟩

theorem powi_widen_ex (S D : Layout) (hS : Supp S) (hD : Supp D) (hadm : fromAdmissible S D) (x : Int) (hx : inRange S x) :
    ∃ w : Int, w = x * 2 ^ (D.f - S.f) ∧ inRange D w ∧ (w = 0 ↔ x = 0) ∧
      ∀ n : Int, Trans.run (Trans.powi S D x n) = Trans.run (Trans.powi D D w n) :=
  ⟨_, rfl, widen_inRange S D hS hD hadm x hx, (widen_tests S D hadm.1 x).1, fun n => powi_widen_eq S D hS hD hadm x hx n⟩

theorem pow_widen_ex (S D : Layout) (hS : Supp S) (hD : Supp D) (hadm : fromAdmissible S D) (x y : Int)
    (hx : inRange S x) (hy : inRange S y) :
    ∃ w v : Int, w = x * 2 ^ (D.f - S.f) ∧ v = y * 2 ^ (D.f - S.f) ∧ inRange D w ∧ inRange D v ∧ (0 < x → 0 < w) ∧
      Trans.run (Trans.pow S D x y) = Trans.run (Trans.pow D D w v) :=
  ⟨_, _, rfl, rfl, widen_inRange S D hS hD hadm x hx, widen_inRange S D hS hD hadm y hy,
    (widen_cmp S D hadm.1 x).2.2.2.2, pow_widen_eq S D hS hD hadm x y hx hy⟩

/-- the integer bound of `C15_partial` (powi, `n ≥ 2`) with the powers of two abstracted: `F = 2^f`, `M = max(F, |x|)`,
`n = k + 1` -/
theorem powi_int_bound (D : Layout) (h : Supp D) (x : Int) (hx : inRange D x) (n : Int) (hn : 2 ≤ n) (r : Int) (it : Nat)
    (dbg : Bool) (he : Trans.run (Trans.powi D D x n) = .ok (some r, it) dbg) :
    ∃ (F M : Int) (k : Nat), F = 2 ^ D.f ∧ M = max F (x.natAbs : Int) ∧ n.toNat = k + 1 ∧ (k : Int) = n - 1 ∧
      ((r * F ^ k - x ^ (k + 1)).natAbs : Int) ≤ (k : Int) * M ^ k := by
  obtain ⟨hv, hs, hf, hint⟩ := h
  have hb := powi_accuracy_tight D hv hs hf hint x hx n hn r it dbg he
  refine ⟨2 ^ D.f, Mx D x, n.toNat - 1, rfl, rfl, by omega, by omega, ?_⟩
  have hk : n.toNat - 1 + 1 = n.toNat := by omega
  rw [hk, ← Int.pow_mul]
  exact hb

end Sfx.PairsPf

#print axioms Sfx.PairsPf.exp_widen_eq
#print axioms Sfx.PairsPf.exp_widen_min
#print axioms Sfx.PairsPf.exp_widen_eq_min_counterexample
#print axioms Sfx.PairsPf.powi_widen_eq
#print axioms Sfx.PairsPf.pow_widen_eq
