import SfxProofs.PowAccModel
import SfxProofs.PowBandReal
import SfxProofs.PowBandWitness
import SfxProofs.LogAccModel
/-
  PowBand.lean — property C15 (pow clause) for `transcendental::pow` (model `Trans.pow`, `S = D`) OUTSIDE the two known findings, over
  Mathlib's reals.  With `X = val x > 0`, `Y = val y`, `t = Y ln X`, `ulp = 2^-f`, `Rm T f = e^T - Σ_{i<f} T^i/i!`:

      8 |Y| ulp ≤ 1   (not D16)   ∧   Rm (|t| + 1) f ≤ e^(|t| + 1) / 2^24   (not D10, margin 1)   ∧   pow(x, y) = Ok(r)   →
          |val r - X^Y| ≤ (2^-18 + |t| / 2^22 + 16 |Y| ulp) · X^Y + 64 ulp                               (`pow_accuracy_band`)

  Proof (`PowBandReal.lean`): the computed exponent `z = ⌊ln(x) · y⌋` satisfies `|Z - t| ≤ |t| / 2^23 + 5 |Y| ulp + 1 ulp < 1`
  (`ln` is accurate to `5 ulp`, `ln_real_sharp`; `|t| < 2^16` follows from the tail hypothesis, `tail_bound128`); `T ↦ Rm T f / e^T` is
  nondecreasing on `T ≥ 0` (`tail_mono`), so the tail hypothesis holds at `|Z|` and `ExpBandReal.exp_real_band` applies; then the
  propagation of `PowAccReal.pow_core` as in `PowAccWide.lean`.  The theorem complements `PowAccPf.pow_accuracy_wide_gen` (whose region
  hypothesis `4 (|t| + 8 |Y| ulp) + 1 ≤ f` is not implied by the tail condition with margin 1 for small `f`, nor conversely).
-/
namespace Sfx.PowBandPf
open Sfx.ExpAccPf

/-- `ln::<D, D>` is accurate to `|ln| / 2^23 + 5 ulp` -/
theorem ln_accuracy_sharp (D : Layout) (hv : D.valid) (hs : D.signed = true) (hf : 23 ≤ D.f) (hint : 9 ≤ D.intBits)
    (x : Int) (hx : inRange D x) (r : Int) (it : Nat) (dbg : Bool) :
    Trans.run (Trans.ln D D x) = .ok (some r, it) dbg →
      |(r : ℝ) / 2 ^ D.f - Real.log ((x : ℝ) / 2 ^ D.f)| ≤ |Real.log ((x : ℝ) / 2 ^ D.f)| / 2 ^ 23 + 5 / 2 ^ D.f := by
  intro h
  exact ln_real_sharp D.f hf x r (LogAccPf.ln_acc D hv hs hf hint x hx r it dbg h)

/-- C15 (pow clause) for `pow::<D, D>` outside the known findings: 8|Y| ulp ≤ 1 (not D16) and the series tail at |Y ln X| + 1 is at most 2^-24 e^(|Y ln X| + 1) (not D10, with a margin of 1 for the error of the computed exponent) -/
theorem pow_accuracy_band (D : Layout) (hv : D.valid) (hs : D.signed = true) (hf : 23 ≤ D.f) (hint : 9 ≤ D.intBits)
    (x y : Int) (hx : inRange D x) (hy : inRange D y) (hx0 : 0 < x)
    (hA : 8 * |(y : ℝ) / 2 ^ D.f| / 2 ^ D.f ≤ 1)
    (htail : Sfx.ExpAccPf.Rm (|(y : ℝ) / 2 ^ D.f * Real.log ((x : ℝ) / 2 ^ D.f)| + 1) D.f ≤
               Real.exp (|(y : ℝ) / 2 ^ D.f * Real.log ((x : ℝ) / 2 ^ D.f)| + 1) / 2 ^ 24)
    (r : Int) (it : Nat) (dbg : Bool) :
    Trans.run (Trans.pow D D x y) = .ok (some r, it) dbg →
      |(r : ℝ) / 2 ^ D.f - ((x : ℝ) / 2 ^ D.f) ^ ((y : ℝ) / 2 ^ D.f)| ≤
        (1 / 2 ^ 18 + |(y : ℝ) / 2 ^ D.f * Real.log ((x : ℝ) / 2 ^ D.f)| / 2 ^ 22 + 16 * |(y : ℝ) / 2 ^ D.f| / 2 ^ D.f) *
          ((x : ℝ) / 2 ^ D.f) ^ ((y : ℝ) / 2 ^ D.f) + 64 / 2 ^ D.f := by
  intro h
  have hG : (0 : ℝ) < 2 ^ D.f := by positivity
  have hX : 0 < (x : ℝ) / 2 ^ D.f := div_pos (by exact_mod_cast hx0) hG
  have hf128 : D.f ≤ 128 := by
    obtain ⟨h1, h2⟩ := hv
    have : D.n ≤ 128 := by omega
    omega
  have hrhs : 0 ≤ (1 / 2 ^ 18 + |(y : ℝ) / 2 ^ D.f * Real.log ((x : ℝ) / 2 ^ D.f)| / 2 ^ 22 +
      16 * |(y : ℝ) / 2 ^ D.f| / 2 ^ D.f) * ((x : ℝ) / 2 ^ D.f) ^ ((y : ℝ) / 2 ^ D.f) + 64 / 2 ^ D.f := by
    have := Real.rpow_nonneg hX.le ((y : ℝ) / 2 ^ D.f)
    positivity
  rcases PowAccPf.pow_acc D hv hs hf hint x y hx hy hx0 r it dbg h with ⟨hy0, hr⟩ | ⟨hy1, hr⟩ | ⟨l, m, hl, _, hspec⟩
  · have e : (r : ℝ) / 2 ^ D.f - ((x : ℝ) / 2 ^ D.f) ^ ((y : ℝ) / 2 ^ D.f) = 0 := by
      rw [hr, hy0, pow2_cast, Int.cast_zero, zero_div, Real.rpow_zero, div_self hG.ne', sub_self]
    rw [e, abs_zero]
    exact hrhs
  · have e : (r : ℝ) / 2 ^ D.f - ((x : ℝ) / 2 ^ D.f) ^ ((y : ℝ) / 2 ^ D.f) = 0 := by
      rw [hr, hy1, pow2_cast, div_self hG.ne', Real.rpow_one, sub_self]
    rw [e, abs_zero]
    exact hrhs
  · have hln := ln_accuracy_sharp D hv hs hf hint x hx l m false hl
    exact pow_real_band D.f hf hf128 x y l r hx0 hln hA htail hspec

/-! non-vacuity: `I32F32`, `x = 2.0`, `y = 12.0` (`y ∉ {0, 1}`): `|y ln x| ≈ 8.32`, so `4 |y ln x| + 2 > 32` and `pow_accuracy_wide` does
not apply; every hypothesis holds; the model returns `Ok` there (`pow_2_12_run`, `PowBandWitness.lean`) -/

theorem witness_val_x : ((8589934592 : Int) : ℝ) / 2 ^ (⟨true, 64, 32⟩ : Layout).f = 2 := by
  show ((8589934592 : Int) : ℝ) / 2 ^ 32 = 2
  push_cast
  norm_num

theorem witness_val_y : ((51539607552 : Int) : ℝ) / 2 ^ (⟨true, 64, 32⟩ : Layout).f = 12 := by
  show ((51539607552 : Int) : ℝ) / 2 ^ 32 = 12
  push_cast
  norm_num

theorem band_witness_hA :
    8 * |((51539607552 : Int) : ℝ) / 2 ^ (⟨true, 64, 32⟩ : Layout).f| / 2 ^ (⟨true, 64, 32⟩ : Layout).f ≤ 1 := by
  rw [witness_val_y]
  show 8 * |(12 : ℝ)| / 2 ^ 32 ≤ 1
  norm_num

theorem band_witness_tail :
    Sfx.ExpAccPf.Rm (|((51539607552 : Int) : ℝ) / 2 ^ (⟨true, 64, 32⟩ : Layout).f *
        Real.log (((8589934592 : Int) : ℝ) / 2 ^ (⟨true, 64, 32⟩ : Layout).f)| + 1) (⟨true, 64, 32⟩ : Layout).f ≤
      Real.exp (|((51539607552 : Int) : ℝ) / 2 ^ (⟨true, 64, 32⟩ : Layout).f *
        Real.log (((8589934592 : Int) : ℝ) / 2 ^ (⟨true, 64, 32⟩ : Layout).f)| + 1) / 2 ^ 24 := by
  rw [witness_val_x, witness_val_y]
  exact tail_witness12

/-- the witness violates the region hypothesis of `pow_accuracy_wide` -/
theorem band_witness_outside :
    ¬ (4 * |((51539607552 : Int) : ℝ) / 2 ^ (⟨true, 64, 32⟩ : Layout).f *
        Real.log (((8589934592 : Int) : ℝ) / 2 ^ (⟨true, 64, 32⟩ : Layout).f)| + 2 ≤ (((⟨true, 64, 32⟩ : Layout).f : ℕ) : ℝ)) := by
  rw [witness_val_x, witness_val_y, not_le]
  show ((32 : ℕ) : ℝ) < _
  push_cast
  exact witness12_outside

/-- the instance at the value the model returns: `|4096.00045 - 2^12| ≤ …` -/
theorem band_witness_result :
    |((17592187964048 : Int) : ℝ) / 2 ^ 32 - (((8589934592 : Int) : ℝ) / 2 ^ 32) ^ (((51539607552 : Int) : ℝ) / 2 ^ 32)| ≤
      (1 / 2 ^ 18 + |((51539607552 : Int) : ℝ) / 2 ^ 32 * Real.log (((8589934592 : Int) : ℝ) / 2 ^ 32)| / 2 ^ 22 +
        16 * |((51539607552 : Int) : ℝ) / 2 ^ 32| / 2 ^ 32) *
          (((8589934592 : Int) : ℝ) / 2 ^ 32) ^ (((51539607552 : Int) : ℝ) / 2 ^ 32) + 64 / 2 ^ 32 :=
  pow_accuracy_band ⟨true, 64, 32⟩ (by decide) rfl (by decide) (by decide) 8589934592 51539607552 (by decide) (by decide) (by decide)
    band_witness_hA band_witness_tail _ 31 false pow_2_12_run

end Sfx.PowBandPf

#print axioms Sfx.PowBandPf.pow_accuracy_band
#print axioms Sfx.PowBandPf.ln_accuracy_sharp
#print axioms Sfx.PowBandPf.band_witness_result
#print axioms Sfx.PowBandPf.band_witness_outside
