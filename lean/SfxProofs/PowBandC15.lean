import SfxProofs.PowBand
import SfxProps.C15
/-
  PowBandC15.lean — the pow clause of `Sfx.C15.C15_statement` (SfxProps/C15.lean), verbatim, for every pair of operands OUTSIDE the two
  known findings: `8 |val y| ulp ≤ 1` (not D16: the absolute error of `ln` multiplied by `|y|`; cannot be dropped, `PowAccNeg.lean`) and
  the omitted tail of the series of `exp` at `|val y · ln (val x)| + 1` at most `2^-24 e^(|val y · ln (val x)| + 1)` (not D10; the margin 1
  covers the error of the computed exponent).
-/
namespace Sfx.PowBandPf
open Sfx.C15 Sfx.C12

/-- PROVED part of the pow clause of C15: every supported type, every pair of operands outside known findings D10 and D16 -/
theorem C15_pow_band (D : Layout) (h : Supp D) (x y : Int) (hx : inRange D x) (hy : inRange D y)
    (hA : 8 * |val D.f y| / (2 : ℝ) ^ D.f ≤ 1)
    (htail : Sfx.ExpAccPf.Rm (|val D.f y * Real.log (val D.f x)| + 1) D.f ≤
      Real.exp (|val D.f y * Real.log (val D.f x)| + 1) / 2 ^ 24) :
    ∀ r it dbg, 0 < x → Trans.run (Trans.pow D D x y) = .ok (some r, it) dbg →
      |val D.f r - (val D.f x) ^ (val D.f y)| ≤
        (1 / (2 : ℝ) ^ 18 + |val D.f y * Real.log (val D.f x)| / (2 : ℝ) ^ 22 + 16 * |val D.f y| / (2 : ℝ) ^ D.f) * (val D.f x) ^ (val D.f y)
          + 64 / (2 : ℝ) ^ D.f := by
  obtain ⟨hv, hs, hf, hint⟩ := h
  intro r it dbg hx0 hrun
  exact pow_accuracy_band D hv hs hf hint x y hx hy hx0 hA htail r it dbg hrun

/-- the tail hypothesis in the form "the exact partial sum of the `f` terms at `T = |val y · ln (val x)| + 1` reaches `(1 - 2^-24) e^T`" -/
theorem C15_pow_band_sum (D : Layout) (h : Supp D) (x y : Int) (hx : inRange D x) (hy : inRange D y)
    (hA : 8 * |val D.f y| / (2 : ℝ) ^ D.f ≤ 1)
    (hsum : Real.exp (|val D.f y * Real.log (val D.f x)| + 1) * (1 - 1 / 2 ^ 24) ≤
      Sfx.ExpAccPf.Sm (|val D.f y * Real.log (val D.f x)| + 1) D.f) :
    ∀ r it dbg, 0 < x → Trans.run (Trans.pow D D x y) = .ok (some r, it) dbg →
      |val D.f r - (val D.f x) ^ (val D.f y)| ≤
        (1 / (2 : ℝ) ^ 18 + |val D.f y * Real.log (val D.f x)| / (2 : ℝ) ^ 22 + 16 * |val D.f y| / (2 : ℝ) ^ D.f) * (val D.f x) ^ (val D.f y)
          + 64 / (2 : ℝ) ^ D.f :=
  C15_pow_band D h x y hx hy hA ((ExpBandPf.tail_hyp_iff _ _).2 hsum)

end Sfx.PowBandPf

#print axioms Sfx.PowBandPf.C15_pow_band
#print axioms Sfx.PowBandPf.C15_pow_band_sum
