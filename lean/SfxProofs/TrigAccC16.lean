import SfxProofs.TrigAcc
import SfxProofs.TrigAccTan
import SfxProps.C16
/-
  TrigAccC16.lean — the sin/cos half of `C16.C16_statement` (SfxProps/C16.lean), word for word, from `SfxProofs/TrigAcc.lean`.
  The tan clause of `C16_statement` is covered only for `|tan x| ≤ 8` (`C16_tan_8`); totality of tan for `|tan x| ≤ 64` is `C12_tan_total`.
-/
namespace Sfx.TrigAccPf
open Sfx.C16 Sfx.C12

/-- the sin/cos clause of `C16.C16_statement`, for every supported layout and every operand -/
theorem C16_sin_cos (D : Layout) (hS : Supp D) (a : Int) (ha : inRange D a) (hb : |val D.f a| ≤ 200) :
    (∀ r it dbg, Trans.run (Trans.sin D a) = .ok (some r, it) dbg →
      |val D.f r - Real.sin (val D.f a)| ≤ 1 / (2 : ℝ) ^ 16 ∧ |val D.f r| ≤ 1 + 1 / (2 : ℝ) ^ 16) ∧
    (∀ r it dbg, Trans.run (Trans.cos D a) = .ok (some r, it) dbg →
      |val D.f r - Real.cos (val D.f a)| ≤ 1 / (2 : ℝ) ^ 16 ∧ |val D.f r| ≤ 1 + 1 / (2 : ℝ) ^ 16) := by
  obtain ⟨hv, hs, hf, hi⟩ := hS
  exact ⟨fun r it dbg h => sin_run_accuracy D hv hs hf hi a ha hb r it dbg h,
    fun r it dbg h => cos_run_accuracy D hv hs hf hi a ha hb r it dbg h⟩

/-- the tan clause of `C16.C16_statement` with `|tan x| ≤ 8` in place of `|tan x| ≤ 64` (PARTIAL; the clause with 64 is open) -/
theorem C16_tan_8 (D : Layout) (hS : Supp D) (a : Int) (hb : |val D.f a| ≤ 100) (ht : |Real.tan (val D.f a)| ≤ 8) :
    ∀ r it dbg, Trans.run (Trans.tan D a) = .ok (some r, it) dbg →
      |val D.f r - Real.tan (val D.f a)| ≤ (1 + Real.tan (val D.f a) ^ 2) / (2 : ℝ) ^ 14 := by
  obtain ⟨hv, hs, hf, hi⟩ := hS
  exact fun r it dbg h => tan_accuracy_partial D hv hs hf hi a hb ht r it dbg h

/-- `tan` is `Total` (C12) wherever the true tangent is at most 64 in magnitude -/
theorem C12_tan_total (D : Layout) (hS : Supp D) (a : Int) (hb : |val D.f a| ≤ 100) (ht : |Real.tan (val D.f a)| ≤ 64) :
    ∃ r it, Trans.run (Trans.tan D a) = .ok (some r, it) false ∧ it ≤ 50 := by
  obtain ⟨hv, hs, hf, hi⟩ := hS
  obtain ⟨r, it, h1, h2, _⟩ := tan_total D hv hs hf hi a hb ht
  exact ⟨r, it, h1, h2⟩

end Sfx.TrigAccPf

#print axioms Sfx.TrigAccPf.C16_sin_cos
#print axioms Sfx.TrigAccPf.C16_tan_8
#print axioms Sfx.TrigAccPf.C12_tan_total
