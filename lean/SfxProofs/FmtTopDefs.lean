import SfxProofs.FmtStruct
import SfxProofs.FmtRadixBytes
import SfxProofs.FmtDec
/-
  FmtTopDefs.lean — vocabulary of the top-level C09 theorem (`FmtTop.lean`): the printed digit string as a FUNCTION of
  (kind, precision, value) only, its ASCII rendering, canonical form.
-/
namespace Sfx.FmtTopPf
open Sfx.Display
open Sfx.TextSpec (FmtSpec rneDiv)

/-- value of a digit list in radix `R`, most significant first (`FmtRadixPf.valI`; `FmtDecPf.valD = valI 10`) -/
abbrev valI := FmtRadixPf.valI

/-- canonical integer digits: non-empty, no superfluous leading zero -/
def Canon (ip : List Nat) : Prop := ip ≠ [] ∧ (ip.head? ≠ some 0 ∨ ip = [0])

/-- strip leading zeros, keeping a single `0` for zero -/
def stripZeros (ip : List Nat) : List Nat :=
  match ip.dropWhile (· == 0) with
  | [] => [0]
  | l => l

/-- the ASCII rendering `int[.frac]` of digit lists (`upper`: upper-case hex digits) -/
def render (upper : Bool) (ip fp : List Nat) (dot : Bool) : List Nat :=
  ip.map (encodeDigit upper) ++ (if dot then 46 :: fp.map (encodeDigit upper) else [])

/-- the radix of a kind letter, as a number (10, 2, 8, 16) -/
def radixNat (kind : String) : Nat :=
  match kind with | "b" => 2 | "o" => 8 | "x" => 16 | "X" => 16 | _ => 10

theorem radix_eq (spec : FmtSpec) : spec.radix = radixNat spec.kind := rfl

/-- raw digit lists (integer digits, fraction digits) of the finished digit buffer (before `encode_digits`), as defined by
the two value proofs; the decimal integer digits lose the reserved carry slot / over-estimated leading zero here -/
def rawDigits (kind : String) (prec : Option Nat) (abs nbits fracN : Nat) : List Nat × List Nat :=
  if FmtPf.radixOf kind = .dec then
    match FmtDecPf.decDigits nbits abs fracN prec with
    | .ok (ip, fp) _ => (stripZeros ip, fp)
    | .panic => ([], [])
  else
    match FmtRadixPf.radixDigits nbits abs fracN (FmtPf.radixOf kind) prec with
    | .ok (ip, fp) _ => (ip, fp)
    | .panic => ([], [])

/-- THE PRINTED DIGITS: integer digits, fraction digits, number of `0`s appended to reach a requested precision.
A function of the kind letter, the precision and the value ONLY (no sign, width, fill, alignment, `+`, `#`, `0`). -/
def digitsOf (kind : String) (prec : Option Nat) (abs nbits fracN : Nat) : List Nat × List Nat × Nat :=
  let d := rawDigits kind prec abs nbits fracN
  (d.1, d.2, (prec.getD 0) - d.2.length)

/-- the printed body `int[.frac]` (ASCII) and the zeros appended, from `digitsOf` -/
def bodyOfDigits (kind : String) (d : List Nat × List Nat × Nat) : List Nat × Nat :=
  (render (kind == "X") d.1 d.2.1 (!d.2.1.isEmpty || decide (0 < d.2.2)), d.2.2)

end Sfx.FmtTopPf
