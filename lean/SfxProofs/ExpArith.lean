import Mathlib.Tactic.Ring
import Mathlib.Tactic.Linarith
/-
  ExpArith.lean — the pure integer step behind the error bound of `transcendental::powi` (repeated truncated products).
  Statements use products only (no `^`), so the file can be used from files whose statements are elaborated with core's `Int.pow`.
-/
namespace Sfx.ExpPf

/-- `|x| ≤ M`, `|E| ≤ T` gives `|x * E| ≤ M * T` -/
theorem mul_abs_le (x E M T : Int) (h1 : x ≤ M) (h2 : -M ≤ x) (h3 : E ≤ T) (h4 : -T ≤ E) :
    x * E ≤ M * T ∧ -(M * T) ≤ x * E := by
  have a := mul_nonneg (sub_nonneg.2 h1) (by linarith : (0 : Int) ≤ T + E)
  have b := mul_nonneg (by linarith : (0 : Int) ≤ M + x) (sub_nonneg.2 h3)
  have c := mul_nonneg (sub_nonneg.2 h1) (sub_nonneg.2 h3)
  have d := mul_nonneg (by linarith : (0 : Int) ≤ M + x) (by linarith : (0 : Int) ≤ T + E)
  constructor <;> nlinarith

/-- one truncated product `r' = ⌊r * x / F⌋` (`0 ≤ r * x - r' * F < F`): the scaled error `r * A - P` (with `A = F ^ k`,
`P = x ^ (k + 1)`, bound `k * B`, `B = M ^ k`) becomes `x * (r * A - P) - δ * A`, bounded by `(k + 1) * (B * M)` -/
theorem powi_step (x r r' F M A B P k : Int) (hk : 0 ≤ k) (hF : 0 < F) (hFM : F ≤ M) (hxM1 : x ≤ M) (hxM2 : -M ≤ x)
    (hA : 0 ≤ A) (hAB : A ≤ B) (hd0 : 0 ≤ r * x - r' * F) (hd1 : r * x - r' * F < F)
    (h1 : -(k * B) ≤ r * A - P) (h2 : r * A - P ≤ k * B) :
    -((k + 1) * (B * M)) ≤ r' * (A * F) - P * x ∧ r' * (A * F) - P * x ≤ (k + 1) * (B * M) := by
  have e : r' * (A * F) - P * x = x * (r * A - P) - (r * x - r' * F) * A := by ring
  obtain ⟨b1, b2⟩ := mul_abs_le x (r * A - P) M (k * B) hxM1 hxM2 h2 h1
  have c0 : 0 ≤ (r * x - r' * F) * A := mul_nonneg hd0 hA
  have c1 : (r * x - r' * F) * A ≤ F * A := mul_le_mul_of_nonneg_right (le_of_lt hd1) hA
  have c2 : F * A ≤ M * B := mul_le_mul hFM hAB hA (by linarith)
  have hB : 0 ≤ B := le_trans hA hAB
  have hM : 0 ≤ M := by linarith
  have hkBM : 0 ≤ k * (B * M) := mul_nonneg hk (mul_nonneg hB hM)
  rw [e]
  constructor <;> nlinarith

end Sfx.ExpPf
