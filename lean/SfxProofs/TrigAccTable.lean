import SfxProofs.TrigAccBase
import SfxProofs.TrigAccAtan
/-
  TrigAccTable.lean — the generated `ARCTAN_ANGLES` table against Mathlib's `Real.arctan`:
      `table_arctan : ∀ i < 24, |angleOf i / 2^128 − arctan (2^-i)| ≤ 2^-53`.
  Entries `1 … 23` go through the kernel-evaluated `table_entries_pinned` (70 floored terms of Gregory's series on the `2^256`
  scale) and the alternating-series enclosure `arctan_enclosure_70`; entry 0 is `π/4` (`Real.arctan_one`, `Real.pi_gt_d20`).
  No `^` on `Int` is written in this file (powers of two are `p2 k`).
-/
namespace Sfx.TrigAccPf
open Sfx.Trans Sfx.TrigPf Real

theorem p2_cast : ∀ k : ℕ, ((p2 k : Int) : ℝ) = (2 : ℝ) ^ k
  | 0 => by rw [p2_zero]; norm_num
  | k + 1 => by rw [p2_succ, Int.cast_mul, p2_cast k, pow_succ]; norm_num

theorem p4_cast : ∀ k : ℕ, ((p4 k : Int) : ℝ) = (4 : ℝ) ^ k
  | 0 => by rw [p4_zero]; norm_num
  | k + 1 => by rw [p4_succ, Int.cast_mul, p4_cast k, pow_succ]; norm_num

theorem sgn_cast (k : ℕ) : (((if k % 2 = 0 then 1 else -1 : Int)) : ℝ) = (-1 : ℝ) ^ k := by
  by_cases h : k % 2 = 0
  · rw [if_pos h, (Nat.even_iff.2 h).neg_one_pow]; norm_num
  · rw [if_neg h, (Nat.odd_iff.2 (by omega)).neg_one_pow]; norm_num

/-- `2^(256 ∸ n)` against `2^256 / 2^n` -/
theorem pow_trunc (n : ℕ) : 0 ≤ (2 : ℝ) ^ (256 - n) - 2 ^ 256 / 2 ^ n ∧ (2 : ℝ) ^ (256 - n) - 2 ^ 256 / 2 ^ n < 1 := by
  have hn : (0 : ℝ) < 2 ^ n := by positivity
  by_cases h : n ≤ 256
  · have : (2 : ℝ) ^ 256 = 2 ^ (256 - n) * 2 ^ n := by rw [← pow_add]; congr 1; omega
    rw [this, mul_div_assoc, div_self hn.ne', mul_one, sub_self]; norm_num
  · have h0 : 256 - n = 0 := by omega
    have hlt : (2 : ℝ) ^ 256 < 2 ^ n := pow_lt_pow_right₀ (by norm_num) (by omega)
    have h1 : (2 : ℝ) ^ 256 / 2 ^ n < 1 := (div_lt_one hn).2 hlt
    have h2 : (0 : ℝ) < 2 ^ 256 / 2 ^ n := by positivity
    rw [h0, pow_zero]; constructor <;> linarith

/-- one floored term against the true term -/
theorem term_err (P r d q : ℝ) (hd : 1 ≤ d) (h1 : q * d ≤ P) (h2 : P < q * d + d) (h3 : 0 ≤ P - r) (h4 : P - r < 1) :
    |q - r / d| ≤ 1 := by
  have hd0 : 0 < d := by linarith
  have e : q - r / d = (q * d - r) / d := by field_simp
  rw [e, abs_le]
  constructor
  · rw [le_div_iff₀ hd0]; linarith
  · rw [div_le_iff₀ hd0]; linarith

theorem gterm_scaled (i k : ℕ) :
    (2 : ℝ) ^ 256 * gterm (((2 : ℝ) ^ i)⁻¹) k = 2 ^ 256 / 2 ^ (i * (2 * k + 1)) / ((2 * (k : ℝ) + 1)) := by
  unfold gterm
  rw [inv_pow, ← pow_mul]
  push_cast
  field_simp

/-- the floored integer series is within `k` of the real partial sum (on the `2^256` scale) -/
theorem series_err (i : ℕ) : ∀ k : ℕ, |((atanSeries i k : Int) : ℝ) - 2 ^ 256 * gsum (((2 : ℝ) ^ i)⁻¹) k| ≤ (k : ℝ)
  | 0 => by rw [atanSeries_zero, gsum_zero]; norm_num
  | k + 1 => by
    have ih := series_err i k
    obtain ⟨q, h1, h2, h3⟩ := atanSeries_step i k
    have c1 : (q : ℝ) * (2 * (k : ℝ) + 1) ≤ (2 : ℝ) ^ (256 - i * (2 * k + 1)) := by
      rw [← p2_cast]; exact_mod_cast h1
    have c2 : (2 : ℝ) ^ (256 - i * (2 * k + 1)) < (q : ℝ) * (2 * (k : ℝ) + 1) + (2 * (k : ℝ) + 1) := by
      rw [← p2_cast]; exact_mod_cast h2
    obtain ⟨t1, t2⟩ := pow_trunc (i * (2 * k + 1))
    have hk : (1 : ℝ) ≤ 2 * (k : ℝ) + 1 := by have : (0 : ℝ) ≤ k := Nat.cast_nonneg k; linarith
    have te := term_err _ _ _ _ hk c1 c2 t1 t2
    rw [h3, gsum_succ, Int.cast_add, Int.cast_mul, sgn_cast]
    have e : ((atanSeries i k : Int) : ℝ) + (-1 : ℝ) ^ k * (q : ℝ) -
        2 ^ 256 * (gsum (((2 : ℝ) ^ i)⁻¹) k + (-1 : ℝ) ^ k * gterm (((2 : ℝ) ^ i)⁻¹) k) =
        (((atanSeries i k : Int) : ℝ) - 2 ^ 256 * gsum (((2 : ℝ) ^ i)⁻¹) k) +
          (-1 : ℝ) ^ k * ((q : ℝ) - 2 ^ 256 * gterm (((2 : ℝ) ^ i)⁻¹) k) := by ring
    rw [e, gterm_scaled]
    refine le_trans (abs_add_le _ _) ?_
    rw [abs_mul, abs_pow, abs_neg, abs_one, one_pow, one_mul]
    push_cast
    linarith

/-- entries `1 … 23` -/
theorem table_arctan_pos (i : ℕ) (h1 : 1 ≤ i) (h2 : i < 24) :
    |((angleOf i : Int) : ℝ) / 2 ^ 128 - arctan (((2 : ℝ) ^ i)⁻¹)| ≤ 1 / 2 ^ 53 := by
  obtain ⟨p1, p2'⟩ := pinned_p2 i h1 h2
  have q1 : ((angleOf i : Int) : ℝ) * 2 ^ 128 - ((atanSeries i 70 : Int) : ℝ) < 2 ^ (202 - i) := by
    rw [← p2_cast, ← p2_cast]; exact_mod_cast p1
  have q2 : ((atanSeries i 70 : Int) : ℝ) - ((angleOf i : Int) : ℝ) * 2 ^ 128 < 2 ^ (202 - i) := by
    rw [← p2_cast, ← p2_cast]; exact_mod_cast p2'
  have se := series_err i 70
  set t : ℝ := ((2 : ℝ) ^ i)⁻¹ with ht
  have ht0 : 0 ≤ t := by positivity
  have hthalf : t ≤ 1 / 2 := by
    rw [ht, inv_le_comm₀ (by positivity) (by norm_num)]
    calc ((1 : ℝ) / 2)⁻¹ = 2 ^ 1 := by norm_num
      _ ≤ 2 ^ i := pow_le_pow_right₀ (by norm_num) h1
  obtain ⟨e1, e2⟩ := arctan_enclosure_70 t ht0 (by linarith)
  have hp : (2 : ℝ) ^ (202 - i) ≤ 2 ^ 201 := pow_le_pow_right₀ (by norm_num) (by omega)
  have ht141 : t ^ 141 ≤ (1 / 2) ^ 141 := pow_le_pow_left₀ ht0 hthalf 141
  rw [abs_le] at se
  obtain ⟨s1, s2⟩ := se
  have key : ((angleOf i : Int) : ℝ) / 2 ^ 128 - arctan t =
      (((angleOf i : Int) : ℝ) * 2 ^ 128 - 2 ^ 256 * arctan t) / 2 ^ 256 := by
    field_simp
  rw [key, abs_le]
  have h256 : (0 : ℝ) < 2 ^ 256 := by positivity
  constructor
  · rw [le_div_iff₀ h256]
    have : (2 : ℝ) ^ 256 * arctan t ≤ 2 ^ 256 * gsum t 70 + 2 ^ 256 * (t ^ 141 / 141) := by
      rw [← mul_add]; exact mul_le_mul_of_nonneg_left e2 h256.le
    have h3 : (2 : ℝ) ^ 256 * (t ^ 141 / 141) ≤ 2 ^ 256 * ((1 / 2) ^ 141 / 141) := by gcongr
    norm_num at hp h3 s1 s2 ⊢
    linarith
  · rw [div_le_iff₀ h256]
    have : (2 : ℝ) ^ 256 * gsum t 70 ≤ 2 ^ 256 * arctan t := mul_le_mul_of_nonneg_left e1 h256.le
    norm_num at hp s1 s2 ⊢
    linarith

/-- the table entries used by the loop are `atan 2^-i` to `2^-53` (absolute, on the unit scale) -/
theorem table_arctan (i : ℕ) (hi : i < 24) :
    |((angleOf i : Int) : ℝ) / 2 ^ 128 - arctan (((2 : ℝ) ^ i)⁻¹)| ≤ 1 / 2 ^ 53 := by
  rcases Nat.eq_zero_or_pos i with h | h
  · subst h
    rw [angle0_val, pow_zero, inv_one, arctan_one]
    have := quarter_pi_tab
    push_cast
    exact this
  · exact table_arctan_pos i h hi

end Sfx.TrigAccPf

#print axioms Sfx.TrigAccPf.table_arctan
