import SfxProps.C15
import SfxProps.C15Acc
import SfxProofs.Pairs
import SfxProofs.PairsReal
/-
  PairsC15.lean — C15 for DIFFERENT source and destination types: `exp::<S, D>`, `pow::<S, D>`, `powi::<S, D>` with `D: From<S>`,
  both among the supported signed types.  Everything proved for `S = D` (SfxProps/C15.lean, SfxProps/C15Acc.lean) transfers through
  the reductions of SfxProofs/Pairs.lean (`exp_widen_eq`, `pow_widen_eq`, `powi_widen_eq`): the operand is compared in the source
  layout, converted losslessly, and everything else runs in `D`; the real value of the operand is unchanged (`val_widen`).

  Also here: the REAL-valued form of the powi clause of `C15_statement` for `S = D` (`C15_powi_real`), derived from the exact
  integer bound of `C15_partial`.

  The first part is elaborated with Mathlib's power instance (real powers), the second part with core `Int` powers.
-/
namespace Sfx.PairsPf
open Sfx.C15 Sfx.C12 Sfx.ConvPf

/-- the widened operand has the same real value -/
theorem val_widen (S D : Layout) (hf : S.f ≤ D.f) (x : Int) :
    val D.f (x * 2 ^ (D.f - S.f)) = val S.f x := by
  unfold val
  have h : (2 : ℝ) ^ D.f = 2 ^ S.f * 2 ^ (D.f - S.f) := by
    rw [← pow_add]; congr 1; omega
  push_cast
  rw [h]
  have h1 : (0 : ℝ) < 2 ^ S.f := by positivity
  have h2 : (0 : ℝ) < 2 ^ (D.f - S.f) := by positivity
  field_simp

/-! ### the real-valued form of the powi clause, `S = D` -/

/-- powi, `n ≥ 2`, same type, the sharp constant: within `(n − 1) ulp · max(1, |x|)^(n−1)` of `x^n` -/
theorem C15_powi_real_tight (D : Layout) (h : Supp D) (x : Int) (hx : inRange D x) (n : Int) :
    ∀ r it dbg, 2 ≤ n → Trans.run (Trans.powi D D x n) = .ok (some r, it) dbg →
      |val D.f r - (val D.f x) ^ n.toNat| ≤ ((n : ℝ) - 1) / (2 : ℝ) ^ D.f * (max 1 |val D.f x|) ^ (n.toNat - 1) := by
  intro r it dbg hn he
  obtain ⟨F, M, k, hF, hM, hk, hkn, hb⟩ := powi_int_bound D h x hx n hn r it dbg he
  have hFr : (F : ℝ) = (2 : ℝ) ^ D.f := by
    rw [hF]; push_cast; rfl
  have hMr : (M : ℝ) = max (F : ℝ) |(x : ℝ)| := by
    rw [hM]; push_cast; rfl
  have hb' : |(r : ℝ) * (F : ℝ) ^ k - (x : ℝ) ^ (k + 1)| ≤ (k : ℝ) * (max (F : ℝ) |(x : ℝ)|) ^ k := by
    rw [← hMr]
    rw [Int.natCast_natAbs] at hb
    exact_mod_cast hb
  have hF0 : (0 : ℝ) < (F : ℝ) := by rw [hFr]; positivity
  have key := powi_real_core (F : ℝ) (x : ℝ) (r : ℝ) k hF0 hb'
  have hkr : (k : ℝ) = (n : ℝ) - 1 := by
    have : ((k : Int) : ℝ) = ((n - 1 : Int) : ℝ) := by rw [hkn]
    push_cast at this
    exact this
  have hk1 : n.toNat - 1 = k := by omega
  rw [hk1, hk]
  unfold val
  rw [← hFr, ← hkr]
  exact key

/-- powi, `n ≥ 2`, same type: the powi clause of `C15_statement`, word for word -/
theorem C15_powi_real (D : Layout) (h : Supp D) (x : Int) (hx : inRange D x) (n : Int) :
    ∀ r it dbg, 2 ≤ n → Trans.run (Trans.powi D D x n) = .ok (some r, it) dbg →
      |val D.f r - (val D.f x) ^ n.toNat| ≤ ((n : ℝ) + 1) / (2 : ℝ) ^ D.f * (max 1 |val D.f x|) ^ (n.toNat - 1) := by
  intro r it dbg hn he
  refine le_trans (C15_powi_real_tight D h x hx n r it dbg hn he) ?_
  have hP : (0 : ℝ) < (2 : ℝ) ^ D.f := by positivity
  have hB : (0 : ℝ) ≤ (max 1 |val D.f x|) ^ (n.toNat - 1) := by positivity
  have : ((n : ℝ) - 1) / (2 : ℝ) ^ D.f ≤ ((n : ℝ) + 1) / (2 : ℝ) ^ D.f :=
    div_le_div_of_nonneg_right (by linarith) hP.le
  exact mul_le_mul_of_nonneg_right this hB

/-! ### pairs: exp -/

/-- the exp clause for `S ≠ D`, operands with `|x| ≤ D.f / 4` -/
theorem C15_exp_wide_pairs (S D : Layout) (hS : Supp S) (hD : Supp D) (hadm : fromAdmissible S D) (x : Int) (hx : inRange S x)
    (hsmall : 4 * |val S.f x| ≤ (D.f : ℝ)) :
    ∀ r it dbg, Trans.run (Trans.exp S D x) = .ok (some r, it) dbg →
      |val D.f r - Real.exp (val S.f x)| ≤ Real.exp (val S.f x) / (2 : ℝ) ^ 20 + 64 / (2 : ℝ) ^ D.f := by
  intro r it dbg he
  by_cases hmin : x = S.min
  · rw [hmin, exp_widen_min S D hS] at he
    exact (ExpAccPf.ok_none_ne he).elim
  · obtain ⟨w, hw, hwin, hrun⟩ := exp_widen_ex S D hS hD hadm x hx hmin
    have hval : val D.f w = val S.f x := by rw [hw]; exact val_widen S D hadm.1 x
    rw [hrun] at he
    have := exp_holds_wide D hD w hwin (by rw [hval]; exact hsmall) r it dbg he
    rw [hval] at this
    exact this

/-- the exp clause for `S ≠ D`, operands with `|x| ≤ 4` -/
theorem C15_exp_le_four_pairs (S D : Layout) (hS : Supp S) (hD : Supp D) (hadm : fromAdmissible S D) (x : Int) (hx : inRange S x)
    (hsmall : |val S.f x| ≤ 4) :
    ∀ r it dbg, Trans.run (Trans.exp S D x) = .ok (some r, it) dbg →
      |val D.f r - Real.exp (val S.f x)| ≤ Real.exp (val S.f x) / (2 : ℝ) ^ 20 + 64 / (2 : ℝ) ^ D.f := by
  intro r it dbg he
  by_cases hmin : x = S.min
  · rw [hmin, exp_widen_min S D hS] at he
    exact (ExpAccPf.ok_none_ne he).elim
  · obtain ⟨w, hw, hwin, hrun⟩ := exp_widen_ex S D hS hD hadm x hx hmin
    have hval : val D.f w = val S.f x := by rw [hw]; exact val_widen S D hadm.1 x
    rw [hrun] at he
    have := exp_holds_le_four D hD w hwin (by rw [hval]; exact hsmall) r it dbg he
    rw [hval] at this
    exact this

/-! ### pairs: pow -/

/-- the pow clause for `S ≠ D`, `4·|y·ln x| + 2 ≤ D.f`, `|y| ≤ 2^D.f / 32` -/
theorem C15_pow_wide_pairs (S D : Layout) (hS : Supp S) (hD : Supp D) (hadm : fromAdmissible S D) (x y : Int)
    (hx : inRange S x) (hy : inRange S y)
    (hsmall : 4 * |val S.f y * Real.log (val S.f x)| + 2 ≤ (D.f : ℝ)) (hY : |val S.f y| * 32 ≤ (2 : ℝ) ^ D.f) :
    ∀ r it dbg, 0 < x → Trans.run (Trans.pow S D x y) = .ok (some r, it) dbg →
      |val D.f r - (val S.f x) ^ (val S.f y)| ≤
        (1 / (2 : ℝ) ^ 18 + |val S.f y * Real.log (val S.f x)| / (2 : ℝ) ^ 22 + 16 * |val S.f y| / (2 : ℝ) ^ D.f) * (val S.f x) ^ (val S.f y)
          + 64 / (2 : ℝ) ^ D.f := by
  intro r it dbg hx0 he
  obtain ⟨w, v, hw, hv, hwin, hvin, hpos, hrun⟩ := pow_widen_ex S D hS hD hadm x y hx hy
  have hvalx : val D.f w = val S.f x := by rw [hw]; exact val_widen S D hadm.1 x
  have hvaly : val D.f v = val S.f y := by rw [hv]; exact val_widen S D hadm.1 y
  rw [hrun] at he
  have := pow_holds_wide D hD w v hwin hvin (by rw [hvalx, hvaly]; exact hsmall) (by rw [hvaly]; exact hY) r it dbg (hpos hx0) he
  rw [hvalx, hvaly] at this
  exact this

/-- the pow clause for `S ≠ D`, `|y·ln x| ≤ 7/2`, `|y| ≤ 2^D.f / 32` -/
theorem C15_pow_small_pairs (S D : Layout) (hS : Supp S) (hD : Supp D) (hadm : fromAdmissible S D) (x y : Int)
    (hx : inRange S x) (hy : inRange S y)
    (hsmall : |val S.f y * Real.log (val S.f x)| ≤ 7 / 2) (hY : |val S.f y| * 32 ≤ (2 : ℝ) ^ D.f) :
    ∀ r it dbg, 0 < x → Trans.run (Trans.pow S D x y) = .ok (some r, it) dbg →
      |val D.f r - (val S.f x) ^ (val S.f y)| ≤
        (1 / (2 : ℝ) ^ 18 + |val S.f y * Real.log (val S.f x)| / (2 : ℝ) ^ 22 + 16 * |val S.f y| / (2 : ℝ) ^ D.f) * (val S.f x) ^ (val S.f y)
          + 64 / (2 : ℝ) ^ D.f := by
  intro r it dbg hx0 he
  obtain ⟨w, v, hw, hv, hwin, hvin, hpos, hrun⟩ := pow_widen_ex S D hS hD hadm x y hx hy
  have hvalx : val D.f w = val S.f x := by rw [hw]; exact val_widen S D hadm.1 x
  have hvaly : val D.f v = val S.f y := by rw [hv]; exact val_widen S D hadm.1 y
  rw [hrun] at he
  have := pow_holds_small D hD w v hwin hvin (by rw [hvalx, hvaly]; exact hsmall) (by rw [hvaly]; exact hY) r it dbg (hpos hx0) he
  rw [hvalx, hvaly] at this
  exact this

/-! ### pairs: powi -/

/-- powi, `n ≥ 2`, `S ≠ D`, the sharp constant -/
theorem C15_powi_pairs_tight (S D : Layout) (hS : Supp S) (hD : Supp D) (hadm : fromAdmissible S D) (x : Int) (hx : inRange S x)
    (n : Int) :
    ∀ r it dbg, 2 ≤ n → Trans.run (Trans.powi S D x n) = .ok (some r, it) dbg →
      |val D.f r - (val S.f x) ^ n.toNat| ≤ ((n : ℝ) - 1) / (2 : ℝ) ^ D.f * (max 1 |val S.f x|) ^ (n.toNat - 1) := by
  intro r it dbg hn he
  obtain ⟨w, hw, hwin, _, hrun⟩ := powi_widen_ex S D hS hD hadm x hx
  have hval : val D.f w = val S.f x := by rw [hw]; exact val_widen S D hadm.1 x
  rw [hrun] at he
  have := C15_powi_real_tight D hD w hwin n r it dbg hn he
  rw [hval] at this
  exact this

/-- powi, `n ≥ 2`, `S ≠ D`: the powi clause of `C15_statement` with the source value `val S.f x` -/
theorem C15_powi_pairs (S D : Layout) (hS : Supp S) (hD : Supp D) (hadm : fromAdmissible S D) (x : Int) (hx : inRange S x)
    (n : Int) :
    ∀ r it dbg, 2 ≤ n → Trans.run (Trans.powi S D x n) = .ok (some r, it) dbg →
      |val D.f r - (val S.f x) ^ n.toNat| ≤ ((n : ℝ) + 1) / (2 : ℝ) ^ D.f * (max 1 |val S.f x|) ^ (n.toNat - 1) := by
  intro r it dbg hn he
  obtain ⟨w, hw, hwin, _, hrun⟩ := powi_widen_ex S D hS hD hadm x hx
  have hval : val D.f w = val S.f x := by rw [hw]; exact val_widen S D hadm.1 x
  rw [hrun] at he
  have := C15_powi_real D hD w hwin n r it dbg hn he
  rw [hval] at this
  exact this

/-! ### the full statement over pairs, and what is true of it -/

/-- FULL statement of C15 over pairs of types (`S = D` is the instance `C15_statement`) -/
def C15_pairs_statement : Prop :=
  ∀ S D : Layout, Supp S → Supp D → fromAdmissible S D → ∀ x y : Int, inRange S x → inRange S y → ∀ n : Int,
    (∀ r it dbg, Trans.run (Trans.exp S D x) = .ok (some r, it) dbg →
      |val D.f r - Real.exp (val S.f x)| ≤ Real.exp (val S.f x) / (2 : ℝ) ^ 20 + 64 / (2 : ℝ) ^ D.f) ∧
    (∀ r it dbg, 0 < x → Trans.run (Trans.pow S D x y) = .ok (some r, it) dbg →
      |val D.f r - (val S.f x) ^ (val S.f y)| ≤
        (1 / (2 : ℝ) ^ 18 + |val S.f y * Real.log (val S.f x)| / (2 : ℝ) ^ 22 + 16 * |val S.f y| / (2 : ℝ) ^ D.f) * (val S.f x) ^ (val S.f y)
          + 64 / (2 : ℝ) ^ D.f) ∧
    (∀ r it dbg, 2 ≤ n → Trans.run (Trans.powi S D x n) = .ok (some r, it) dbg →
      |val D.f r - (val S.f x) ^ n.toNat| ≤ ((n : ℝ) + 1) / (2 : ℝ) ^ D.f * (max 1 |val S.f x|) ^ (n.toNat - 1))

theorem fromAdmissible_refl (D : Layout) : fromAdmissible D D := by
  unfold fromAdmissible
  exact ⟨Nat.le_refl _, by rw [if_pos rfl]⟩

/-- the pair statement contains `C15_statement`, which is false (known findings D10, D16) -/
theorem pairs_statement_false : ¬ C15_pairs_statement := fun h =>
  statement_false (fun D hD x y hx hy n => h D D hD hD (fromAdmissible_refl D) x y hx hy n)

/-- PROVED part of the pair statement, in its shape: the exp clause for `|x| ≤ D.f/4`, the pow clause for `4|y ln x| + 2 ≤ D.f`,
`|y| ≤ 2^D.f/32`, the powi clause in full -/
theorem C15_pairs_partial (S D : Layout) (hS : Supp S) (hD : Supp D) (hadm : fromAdmissible S D) (x y : Int)
    (hx : inRange S x) (hy : inRange S y) (n : Int) :
    (4 * |val S.f x| ≤ (D.f : ℝ) → ∀ r it dbg, Trans.run (Trans.exp S D x) = .ok (some r, it) dbg →
      |val D.f r - Real.exp (val S.f x)| ≤ Real.exp (val S.f x) / (2 : ℝ) ^ 20 + 64 / (2 : ℝ) ^ D.f) ∧
    (4 * |val S.f y * Real.log (val S.f x)| + 2 ≤ (D.f : ℝ) → |val S.f y| * 32 ≤ (2 : ℝ) ^ D.f →
      ∀ r it dbg, 0 < x → Trans.run (Trans.pow S D x y) = .ok (some r, it) dbg →
      |val D.f r - (val S.f x) ^ (val S.f y)| ≤
        (1 / (2 : ℝ) ^ 18 + |val S.f y * Real.log (val S.f x)| / (2 : ℝ) ^ 22 + 16 * |val S.f y| / (2 : ℝ) ^ D.f) * (val S.f x) ^ (val S.f y)
          + 64 / (2 : ℝ) ^ D.f) ∧
    (∀ r it dbg, 2 ≤ n → Trans.run (Trans.powi S D x n) = .ok (some r, it) dbg →
      |val D.f r - (val S.f x) ^ n.toNat| ≤ ((n : ℝ) + 1) / (2 : ℝ) ^ D.f * (max 1 |val S.f x|) ^ (n.toNat - 1)) :=
  ⟨fun h => C15_exp_wide_pairs S D hS hD hadm x hx h, fun h1 h2 => C15_pow_wide_pairs S D hS hD hadm x y hx hy h1 h2,
    C15_powi_pairs S D hS hD hadm x hx n⟩

end Sfx.PairsPf

/-! the model-level clauses are stated with core powers (`Int.instNatPow`), as in the model -/
attribute [-instance] Monoid.toNPow
namespace Sfx.PairsPf
open Sfx.C15 Sfx.C12 Sfx.ConvPf Sfx.ExpPf Sfx.SqrtPf Sfx.Trans

/-- powi with a negative exponent, `S ≠ D`: the truncated reciprocal of `powi(x, |n|)` (computed in `D`), `Err` when that is `Err`,
zero, or has no representable reciprocal; same iteration count -/
theorem C15_powi_neg_pairs (S D : Layout) (hS : Supp S) (hD : Supp D) (hadm : fromAdmissible S D) (x : Int) (hx : inRange S x)
    (n : Int) (hx0 : x ≠ 0) (hn : n < 0) :
    (∃ r' it, Trans.run (Trans.powi S D x (-n)) = .ok (some r', it) false ∧ inRange D r' ∧
      Trans.run (Trans.powi S D x n) = .ok (if r' = 0 then none else D.chk (divSpec D.f (2 ^ D.f) r'), it) false) ∨
    (∃ it, Trans.run (Trans.powi S D x (-n)) = .ok (none, it) false ∧ Trans.run (Trans.powi S D x n) = .ok (none, it) false) := by
  obtain ⟨w, _, hwin, hw0, hrun⟩ := powi_widen_ex S D hS hD hadm x hx
  rw [hrun, hrun]
  exact (C15_partial D hD w 0 hwin n).2.1 (fun h => hx0 (hw0.1 h)) hn

/-- the conventions `0^n = 0`, `x^0 = 1`, `x^1 = x` of powi and `0^y = 0`, `x^0 = 1`, `x^1 = x` of pow for `S ≠ D`: the
comparisons run in the source layout (`1` is `2^S.f`), the results are in `D` (`1` is `2^D.f`, `x` is the widened operand); no
loop iteration, no check fires.  (No range hypothesis on the operands is needed.) -/
theorem C15_conventions_pairs (S D : Layout) (hS : Supp S) (hD : Supp D) (hadm : fromAdmissible S D) (x y : Int)
    (hx : inRange S x) (n : Int) :
    (Trans.run (Trans.powi S D 0 n) = .ok (some 0, 0) false) ∧
    (x ≠ 0 → Trans.run (Trans.powi S D x 0) = .ok (some (2 ^ D.f), 0) false ∧
      Trans.run (Trans.powi S D x 1) = .ok (some (x * 2 ^ (D.f - S.f)), 0) false) ∧
    (Trans.run (Trans.pow S D 0 y) = .ok (some 0, 0) false) ∧
    (x ≠ 0 → Trans.run (Trans.pow S D x 0) = .ok (some (2 ^ D.f), 0) false ∧
      Trans.run (Trans.pow S D x (2 ^ S.f)) = .ok (some (x * 2 ^ (D.f - S.f)), 0) false) := by
  have oS := fromNumI_one S hS
  have hcD := facts D hD.1 hD.2.1 hD.2.2.1 hD.2.2.2
  have zS := fromNumI_zero S hS.1
  have hfrom := (LogPf.fromS_widen S D hS.1 hD.1 hadm x hx).1
  have hP := two_pow_pos S.f
  unfold Trans.run
  refine ⟨?_, fun hx0 => ⟨?_, ?_⟩, ?_, fun hx0 => ⟨?_, ?_⟩⟩
  · rw [powi_eq, zS, liftO_bind, if_pos rfl, hcD.zero]; rfl
  · rw [powi_eq, zS, liftO_bind, if_neg hx0, if_pos rfl, hcD.one]; rfl
  · rw [powi_eq, zS, liftO_bind, if_neg hx0, if_neg (by decide), if_pos rfl, hfrom]; rfl
  · rw [pow_eq, zS, liftO_bind, if_pos rfl, hcD.zero]; rfl
  · rw [pow_eq, zS, liftO_bind, if_neg hx0, liftO_bind, if_pos rfl, hcD.one]; rfl
  · rw [pow_eq, zS, liftO_bind, if_neg hx0, liftO_bind, if_neg (by omega), oS, liftO_bind, if_pos rfl, hfrom]; rfl

/-- non-vacuity: I9F23 → I32F32 is an admissible pair of supported types, and `powi::<I9F23, I32F32>(1.5, 3)` returns
`Ok(3.375)` after two products -/
example : Supp ⟨true, 32, 23⟩ ∧ Supp ⟨true, 64, 32⟩ ∧ fromAdmissible ⟨true, 32, 23⟩ ⟨true, 64, 32⟩ ∧
    inRange ⟨true, 32, 23⟩ (3 * 2 ^ 22) ∧
    Trans.run (Trans.powi ⟨true, 32, 23⟩ ⟨true, 64, 32⟩ (3 * 2 ^ 22) 3) = .ok (some (27 * 2 ^ 29), 2) false := by
  refine ⟨⟨by decide, rfl, by decide, by decide⟩, ⟨by decide, rfl, by decide, by decide⟩, by unfold fromAdmissible; decide,
    by decide, by decide +kernel⟩

end Sfx.PairsPf

#print axioms Sfx.PairsPf.exp_widen_eq
#print axioms Sfx.PairsPf.exp_widen_min
#print axioms Sfx.PairsPf.powi_widen_eq
#print axioms Sfx.PairsPf.pow_widen_eq
#print axioms Sfx.PairsPf.C15_powi_real_tight
#print axioms Sfx.PairsPf.C15_powi_real
#print axioms Sfx.PairsPf.C15_exp_wide_pairs
#print axioms Sfx.PairsPf.C15_exp_le_four_pairs
#print axioms Sfx.PairsPf.C15_pow_wide_pairs
#print axioms Sfx.PairsPf.C15_pow_small_pairs
#print axioms Sfx.PairsPf.C15_powi_pairs_tight
#print axioms Sfx.PairsPf.C15_powi_pairs
#print axioms Sfx.PairsPf.pairs_statement_false
#print axioms Sfx.PairsPf.C15_pairs_partial
#print axioms Sfx.PairsPf.C15_powi_neg_pairs
#print axioms Sfx.PairsPf.C15_conventions_pairs
