// Generates the (signed, nbits, frac) -> concrete type dispatch table for the typed harness.
use std::{env, fs, path::PathBuf};
include!("build_ext_from.rs");
fn main() {
    println!("cargo:rerun-if-env-changed=SFX_FRACS");
    println!("cargo:rerun-if-changed=fracs_quick.txt");
    println!("cargo:rerun-if-changed=build.rs");
    println!("cargo:rerun-if-changed=build_ext_from.rs");
    let mode = env::var("SFX_FRACS").unwrap_or_else(|_| "quick".into());
    let mut table: Vec<(u32, Vec<u32>)> = Vec::new();
    if mode == "all" {
        for n in [8u32, 16, 32, 64, 128] {
            table.push((n, (0..=n).collect()));
        }
    } else {
        for line in fs::read_to_string("fracs_quick.txt").unwrap().lines() {
            let line = line.trim();
            if line.is_empty() || line.starts_with('#') { continue; }
            let (n, rest) = line.split_once(':').unwrap();
            table.push((n.trim().parse().unwrap(), rest.split_whitespace().map(|x| x.parse().unwrap()).collect()));
        }
    }
    let mut s = String::new();
    s.push_str("macro_rules! sfx_dispatch {\n    ($s:expr, $n:expr, $f:expr, $run:ident ( $($arg:expr),* )) => {\n        match ($s, $n, $f) {\n");
    for (n, fs_) in &table {
        for f in fs_ {
            s.push_str(&format!("            (true, {n}, {f}) => $run::<substrate_fixed::FixedI{n}<substrate_fixed::types::extra::U{f}>>($($arg),*),\n", n = n, f = f));
            s.push_str(&format!("            (false, {n}, {f}) => $run::<substrate_fixed::FixedU{n}<substrate_fixed::types::extra::U{f}>>($($arg),*),\n", n = n, f = f));
        }
    }
    s.push_str("            _ => \"SKIP\".to_string(),\n        }\n    };\n}\n");
    for (sig, name, pre) in [(true, "sfx_dispatch_s", "FixedI"), (false, "sfx_dispatch_u", "FixedU")] {
        let _ = sig;
        s.push_str(&format!("macro_rules! {} {{\n    ($n:expr, $f:expr, $run:ident ( $($arg:expr),* )) => {{\n        match ($n, $f) {{\n", name));
        for (n, fs_) in &table {
            for f in fs_ {
                s.push_str(&format!("            ({n}, {f}) => $run::<substrate_fixed::{pre}{n}<substrate_fixed::types::extra::U{f}>>($($arg),*),\n", n = n, f = f, pre = pre));
            }
        }
        s.push_str("            _ => \"SKIP\".to_string(),\n        }\n    };\n}\n");
    }
    // pair dispatch for conversions / comparisons: every (source family, destination family) with fracs in {0, mid, n} each
    fn three(n: u32) -> Vec<u32> { vec![0, if n == 8 { 3 } else { n / 2 - 1 }, n] }
    let fam: Vec<(bool, u32)> = vec![(false, 8), (false, 16), (false, 32), (false, 64), (false, 128), (true, 8), (true, 16), (true, 32), (true, 64), (true, 128)];
    let tyname = |sg: bool, n: u32, f: u32| format!("substrate_fixed::Fixed{}{}<substrate_fixed::types::extra::U{}>", if sg { "I" } else { "U" }, n, f);
    s.push_str("macro_rules! sfx_dispatch_pair {\n    ($s1:expr, $n1:expr, $f1:expr, $s2:expr, $n2:expr, $f2:expr, $run:ident ( $($arg:expr),* )) => {\n        match ($s1, $n1, $f1, $s2, $n2, $f2) {\n");
    for &(s1, n1) in &fam { for f1 in three(n1) { for &(s2, n2) in &fam { for f2 in three(n2) {
        s.push_str(&format!("            ({}, {}, {}, {}, {}, {}) => $run::<{}, {}>($($arg),*),\n", s1, n1, f1, s2, n2, f2, tyname(s1, n1, f1), tyname(s2, n2, f2)));
    } } } }
    s.push_str("            _ => \"SKIP\".to_string(),\n        }\n    };\n}\n");
    // `From` / `LossyFrom` between fixed-point types exist only for admissible pairs (type-level bounds of convert.rs): instantiate exactly those
    let adm_int = |s1: bool, n1: u32, f1: u32, s2: bool, n2: u32, f2: u32| -> bool {
        if s1 == s2 { n1 - f1 <= n2 - f2 } else { !s1 && s2 && n1 - f1 + 1 <= n2 - f2 }
    };
    for (name, need_frac) in [("sfx_dispatch_from", true), ("sfx_dispatch_lossy", false)] {
        s.push_str(&format!("macro_rules! {} {{\n    ($s1:expr, $n1:expr, $f1:expr, $s2:expr, $n2:expr, $f2:expr, $run:ident ( $($arg:expr),* )) => {{\n        match ($s1, $n1, $f1, $s2, $n2, $f2) {{\n", name));
        for &(s1, n1) in &fam { for f1 in three(n1) { for &(s2, n2) in &fam { for f2 in three(n2) {
            // `From` is only implemented for strictly wider destinations (convert! rows); `LossyFrom` for every width pair
            let ok = adm_int(s1, n1, f1, s2, n2, f2) && (!need_frac || (f1 <= f2 && n1 < n2));
            if ok {
                s.push_str(&format!("            ({}, {}, {}, {}, {}, {}) => $run::<{}, {}>($($arg),*),\n", s1, n1, f1, s2, n2, f2, tyname(s1, n1, f1), tyname(s2, n2, f2)));
            }
        } } } }
        s.push_str("            _ => \"SKIP\".to_string(),\n        }\n    };\n}\n");
    }
    // small dispatch for integer conversions: fracs {0, 1, mid, n-1, n}
    s.push_str("macro_rules! sfx_dispatch_small {\n    ($s:expr, $n:expr, $f:expr, $run:ident ( $($arg:expr),* )) => {\n        match ($s, $n, $f) {\n");
    for &(s1, n1) in &fam { for f1 in [0, 1, if n1 == 8 { 3 } else { n1 / 2 - 1 }, n1 - 1, n1] {
        s.push_str(&format!("            ({}, {}, {}) => $run::<{}>($($arg),*),\n", s1, n1, f1, tyname(s1, n1, f1)));
    } }
    s.push_str("            _ => \"SKIP\".to_string(),\n        }\n    };\n}\n");
    ext_from_dispatch(&table, &mut s);
    let out = PathBuf::from(env::var("OUT_DIR").unwrap());
    fs::write(out.join("dispatch.rs"), s).unwrap();
}
