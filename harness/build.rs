// Generates the (signed, nbits, frac) -> concrete type dispatch table for the typed harness.
use std::{env, fs, path::PathBuf};
fn main() {
    println!("cargo:rerun-if-env-changed=SFX_FRACS");
    println!("cargo:rerun-if-changed=fracs_quick.txt");
    println!("cargo:rerun-if-changed=build.rs");
    let mode = env::var("SFX_FRACS").unwrap_or_else(|_| "quick".into());
    let mut table: Vec<(u32, Vec<u32>)> = Vec::new();
    if mode == "all" {
        for n in [8u32, 16, 32, 64, 128] {
            table.push((n, (0..=n).collect()));
        }
    } else {
        for line in fs::read_to_string("fracs_quick.txt").unwrap().lines() {
            let line = line.trim();
            if line.is_empty() || line.starts_with('#') { continue; }
            let (n, rest) = line.split_once(':').unwrap();
            table.push((n.trim().parse().unwrap(), rest.split_whitespace().map(|x| x.parse().unwrap()).collect()));
        }
    }
    let mut s = String::new();
    s.push_str("macro_rules! sfx_dispatch {\n    ($s:expr, $n:expr, $f:expr, $run:ident ( $($arg:expr),* )) => {\n        match ($s, $n, $f) {\n");
    for (n, fs_) in &table {
        for f in fs_ {
            s.push_str(&format!("            (true, {n}, {f}) => $run::<substrate_fixed::FixedI{n}<substrate_fixed::types::extra::U{f}>>($($arg),*),\n", n = n, f = f));
            s.push_str(&format!("            (false, {n}, {f}) => $run::<substrate_fixed::FixedU{n}<substrate_fixed::types::extra::U{f}>>($($arg),*),\n", n = n, f = f));
        }
    }
    s.push_str("            _ => \"SKIP\".to_string(),\n        }\n    };\n}\n");
    for (sig, name, pre) in [(true, "sfx_dispatch_s", "FixedI"), (false, "sfx_dispatch_u", "FixedU")] {
        let _ = sig;
        s.push_str(&format!("macro_rules! {} {{\n    ($n:expr, $f:expr, $run:ident ( $($arg:expr),* )) => {{\n        match ($n, $f) {{\n", name));
        for (n, fs_) in &table {
            for f in fs_ {
                s.push_str(&format!("            ({n}, {f}) => $run::<substrate_fixed::{pre}{n}<substrate_fixed::types::extra::U{f}>>($($arg),*),\n", n = n, f = f, pre = pre));
            }
        }
        s.push_str("            _ => \"SKIP\".to_string(),\n        }\n    };\n}\n");
    }
    let out = PathBuf::from(env::var("OUT_DIR").unwrap());
    fs::write(out.join("dispatch.rs"), s).unwrap();
}
