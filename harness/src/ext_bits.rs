//! Extension `Bits` of the arith bin (module of `src/bin/arith.rs`): requests that reach the parts of the shift /
//! bit-inspection / integer-remainder family which the generic `run::<F: Fixed>` of `arith.rs` cannot express:
//!
//! * the deprecated `wrapping_rem_int` / `overflowing_rem_int`: the provided methods of the `Fixed` trait
//!   (`traits.rs:984-999`, op names without suffix) and the inherent methods (`macros_frac.rs:949-962`, suffix `_inh`);
//! * the constants `int_nbits() frac_nbits() min_value() max_value()` through the trait and (suffix `_inh`) inherent,
//!   plus the associated constants `INT_NBITS` / `FRAC_NBITS` (suffix `_const`);
//! * the reference / assigning impl variants of `F % F`, `F % Bits`, `F << u32`, `F >> u32` (`arith.rs` `refs!`, `refs_assign!`,
//!   `shift!`, `shift_assign!`): suffixes `_rv _vr _rr _assign _assign_r` as for `mul` / `div`;
//! * `F << T`, `F >> T` for the twelve primitive amount types: `shl_<T>` / `shr_<T>` (and the same five suffixes);
//! * every function of the family once more through its inherent method (`<op>_inh`) — the trait methods of `arith.rs`
//!   are `trait_delegate!` forwarders to these.
//!
//! request: `<op> <signed> <nbits> <frac> <args…>`; answers in the formats of `arith.rs`.
#![allow(deprecated)]
use sfxh::*;
use substrate_fixed::traits::Fixed;

fn fx<F: Fixed>(x: F) -> String where F::Bits: Prim { format!("{}", x.to_bits()) }
fn opt<F: Fixed>(x: Option<F>) -> String where F::Bits: Prim { match x { None => "N".into(), Some(v) => format!("S:{}", v.to_bits()) } }
fn pair<F: Fixed>(x: (F, bool)) -> String where F::Bits: Prim { format!("{},{}", x.0.to_bits(), b01(x.1)) }

/// the six impl variants of a binary operator whose right-hand side is `Copy`
macro_rules! variants {
    ($x:expr, $y:expr, $var:expr, $op:tt, $opa:tt) => {{
        let x = $x; let y = $y;
        match $var {
            "" => x $op y,
            "rv" => &x $op y,
            "vr" => x $op &y,
            "rr" => &x $op &y,
            "assign" => { let mut t = x; t $opa y; t }
            "assign_r" => { let mut t = x; t $opa &y; t }
            _ => bad(),
        }
    }};
}

const AMOUNT_TYPES: &[&str] = &["i8", "i16", "i32", "i64", "i128", "isize", "u8", "u16", "u32", "u64", "u128", "usize"];

/// `shl_<T>[_<variant>]` → (`T`, variant); `None` when the text after `shl_` does not start with a type name
fn split_amount_type(rest: &str) -> Option<(&str, &str)> {
    let (ty, var) = match rest.split_once('_') { Some((t, v)) => (t, v), None => (rest, "") };
    if AMOUNT_TYPES.contains(&ty) { Some((ty, var)) } else { None }
}

pub trait ExtBits: Fixed {
    /// operations available on every fixed-point type; `None` = not an operation of this extension
    fn ext(op: &str, a: &[&str]) -> Option<String>;
    /// `F << T`, `F >> T` (no bound on `Frac` in the crate: instantiated on the small frac table only)
    fn ext_shift(left: bool, ty: &str, var: &str, a: &[&str]) -> String;
}

macro_rules! shift_ty {
    ($x:expr, $amt:expr, $ty:expr, $var:expr, $op:tt, $opa:tt) => {{
        macro_rules! go { ($T:ty) => {{ let k: $T = $amt.parse::<$T>().unwrap_or_else(|_| bad()); variants!($x, k, $var, $op, $opa) }} }
        match $ty {
            "i8" => go!(i8), "i16" => go!(i16), "i32" => go!(i32), "i64" => go!(i64), "i128" => go!(i128), "isize" => go!(isize),
            "u8" => go!(u8), "u16" => go!(u16), "u32" => go!(u32), "u64" => go!(u64), "u128" => go!(u128), "usize" => go!(usize),
            _ => bad(),
        }
    }};
}

macro_rules! ext_common {
    ($Inner:ty) => {
        fn ext_shift(left: bool, ty: &str, var: &str, a: &[&str]) -> String {
            let x = Self::from_bits(<$Inner as Prim>::parse(arg(a, 0)));
            let amt = arg(a, 1);
            if left { fx(shift_ty!(x, amt, ty, var, <<, <<=)) } else { fx(shift_ty!(x, amt, ty, var, >>, >>=)) }
        }
    };
}

/// arms shared by the signed and the unsigned families (`Self` is a concrete `FixedXN<Frac>`: a method call resolves to
/// the inherent method, `<Self as Fixed>::…` to the trait's)
macro_rules! ext_arms {
    ($op:expr, $a:expr, $Inner:ty, $x:ident, { $($extra:tt)* }) => {{
        let a: &[&str] = $a;
        let $x = |i: usize| Self::from_bits(<$Inner as Prim>::parse(arg(a, i)));
        let x = $x;
        let k = |i: usize| <$Inner as Prim>::parse(arg(a, i));
        let u = |i: usize| arg_u32(a, i);
        Some(match $op {
            // ---- deprecated remainder forms: trait-provided and inherent
            "wrapping_rem_int" => fx(<Self as Fixed>::wrapping_rem_int(x(0), k(1))),
            "overflowing_rem_int" => pair(<Self as Fixed>::overflowing_rem_int(x(0), k(1))),
            "wrapping_rem_int_inh" => fx(x(0).wrapping_rem_int(k(1))),
            "overflowing_rem_int_inh" => pair(x(0).overflowing_rem_int(k(1))),
            // ---- `F % Bits` impl variants
            "rem_int_rv" => fx(variants!(x(0), k(1), "rv", %, %=)),
            "rem_int_vr" => fx(variants!(x(0), k(1), "vr", %, %=)),
            "rem_int_rr" => fx(variants!(x(0), k(1), "rr", %, %=)),
            "rem_int_assign" => fx(variants!(x(0), k(1), "assign", %, %=)),
            "rem_int_assign_r" => fx(variants!(x(0), k(1), "assign_r", %, %=)),
            // ---- `F % F` impl variants (`arith.rs` `refs!`, `RemAssign`, `refs_assign!`)
            "rem_rv" => fx(variants!(x(0), x(1), "rv", %, %=)),
            "rem_vr" => fx(variants!(x(0), x(1), "vr", %, %=)),
            "rem_rr" => fx(variants!(x(0), x(1), "rr", %, %=)),
            "rem_assign" => fx(variants!(x(0), x(1), "assign", %, %=)),
            "rem_assign_r" => fx(variants!(x(0), x(1), "assign_r", %, %=)),
            // ---- `F << u32`, `F >> u32` impl variants
            "shl_rv" => fx(variants!(x(0), u(1), "rv", <<, <<=)),
            "shl_vr" => fx(variants!(x(0), u(1), "vr", <<, <<=)),
            "shl_rr" => fx(variants!(x(0), u(1), "rr", <<, <<=)),
            "shl_assign" => fx(variants!(x(0), u(1), "assign", <<, <<=)),
            "shl_assign_r" => fx(variants!(x(0), u(1), "assign_r", <<, <<=)),
            "shr_rv" => fx(variants!(x(0), u(1), "rv", >>, >>=)),
            "shr_vr" => fx(variants!(x(0), u(1), "vr", >>, >>=)),
            "shr_rr" => fx(variants!(x(0), u(1), "rr", >>, >>=)),
            "shr_assign" => fx(variants!(x(0), u(1), "assign", >>, >>=)),
            "shr_assign_r" => fx(variants!(x(0), u(1), "assign_r", >>, >>=)),
            // ---- constants
            "int_nbits" => format!("{}", <Self as Fixed>::int_nbits()),
            "frac_nbits" => format!("{}", <Self as Fixed>::frac_nbits()),
            "min_value" => fx(<Self as Fixed>::min_value()),
            "max_value" => fx(<Self as Fixed>::max_value()),
            "int_nbits_inh" => format!("{}", Self::int_nbits()),
            "frac_nbits_inh" => format!("{}", Self::frac_nbits()),
            "min_value_inh" => fx(Self::min_value()),
            "max_value_inh" => fx(Self::max_value()),
            "int_nbits_const" => format!("{}", Self::INT_NBITS),
            "frac_nbits_const" => format!("{}", Self::FRAC_NBITS),
            // ---- the family through the inherent methods
            "checked_shl_inh" => opt(x(0).checked_shl(u(1))),
            "checked_shr_inh" => opt(x(0).checked_shr(u(1))),
            "wrapping_shl_inh" => fx(x(0).wrapping_shl(u(1))),
            "wrapping_shr_inh" => fx(x(0).wrapping_shr(u(1))),
            "overflowing_shl_inh" => pair(x(0).overflowing_shl(u(1))),
            "overflowing_shr_inh" => pair(x(0).overflowing_shr(u(1))),
            "count_ones_inh" => format!("{}", x(0).count_ones()),
            "count_zeros_inh" => format!("{}", x(0).count_zeros()),
            "leading_zeros_inh" => format!("{}", x(0).leading_zeros()),
            "trailing_zeros_inh" => format!("{}", x(0).trailing_zeros()),
            "rotate_left_inh" => fx(x(0).rotate_left(u(1))),
            "rotate_right_inh" => fx(x(0).rotate_right(u(1))),
            $($extra)*
            _ => return None,
        })
    }};
}

macro_rules! ext_signed {
    ($($F:ident, $L:ident, $Inner:ty);*) => { $(
        impl<Frac: substrate_fixed::types::extra::$L> ExtBits for substrate_fixed::$F<Frac> {
            fn ext(op: &str, a: &[&str]) -> Option<String> {
                ext_arms!(op, a, $Inner, x, {
                    "signum_inh" => fx(x(0).signum()),
                    "is_positive_inh" => b01(x(0).is_positive()).to_string(),
                    "is_negative_inh" => b01(x(0).is_negative()).to_string(),
                })
            }
            ext_common!($Inner);
        }
    )* };
}
macro_rules! ext_unsigned {
    ($($F:ident, $L:ident, $Inner:ty);*) => { $(
        impl<Frac: substrate_fixed::types::extra::$L> ExtBits for substrate_fixed::$F<Frac> {
            fn ext(op: &str, a: &[&str]) -> Option<String> {
                ext_arms!(op, a, $Inner, x, {
                    "is_power_of_two_inh" => b01(x(0).is_power_of_two()).to_string(),
                    "next_power_of_two_inh" => fx(x(0).next_power_of_two()),
                    "checked_next_power_of_two_inh" => opt(x(0).checked_next_power_of_two()),
                })
            }
            ext_common!($Inner);
        }
    )* };
}
ext_signed! { FixedI8, LeEqU8, i8; FixedI16, LeEqU16, i16; FixedI32, LeEqU32, i32; FixedI64, LeEqU64, i64; FixedI128, LeEqU128, i128 }
ext_unsigned! { FixedU8, LeEqU8, u8; FixedU16, LeEqU16, u16; FixedU32, LeEqU32, u32; FixedU64, LeEqU64, u64; FixedU128, LeEqU128, u128 }

fn run_ext<F: ExtBits>(op: &str, a: &[&str]) -> String { F::ext(op, a).unwrap_or_else(|| "UNKNOWN".to_string()) }
fn run_shift<F: ExtBits>(left: bool, ty: &str, var: &str, a: &[&str]) -> String { F::ext_shift(left, ty, var, a) }

const SIGNED_ONLY: &[&str] = &["signum_inh", "is_positive_inh", "is_negative_inh"];
const UNSIGNED_ONLY: &[&str] = &["is_power_of_two_inh", "next_power_of_two_inh", "checked_next_power_of_two_inh"];

/// does this extension answer `op`?
pub fn handles(op: &str) -> bool {
    if op.starts_with("shl_") || op.starts_with("shr_") { return true; }
    op.ends_with("_inh") || op.ends_with("_const")
        || matches!(op, "wrapping_rem_int" | "overflowing_rem_int" | "int_nbits" | "frac_nbits" | "min_value" | "max_value")
        || (op.starts_with("rem_int_") && op != "rem_int")
        || matches!(op, "rem_rv" | "rem_vr" | "rem_rr" | "rem_assign" | "rem_assign_r")
}

pub fn typed(op: &str, s: bool, n: u32, f: u32, a: &[&str]) -> String {
    for (pre, left) in [("shl_", true), ("shr_", false)] {
        if let Some(rest) = op.strip_prefix(pre) {
            if let Some((ty, var)) = split_amount_type(rest) {
                return sfx_dispatch_small!(s, n, f, run_shift(left, ty, var, a));
            }
        }
    }
    if (SIGNED_ONLY.contains(&op) && !s) || (UNSIGNED_ONLY.contains(&op) && s) { return "UNKNOWN".into(); }
    sfx_dispatch!(s, n, f, run_ext(op, a))
}
