//! Typed public-API harness: arithmetic, rounding, remainders, pass-through integer ops (C01 C02 C06 C07 C11)
//! plus the run-time-parameter hooks `mul_overflow`, `div_overflow`, `div_rem_from`.
use sfxh::*;
use substrate_fixed::traits::{Fixed, FixedSigned, FixedUnsigned};
use substrate_fixed::verif_hooks as hooks;

include!(concat!(env!("OUT_DIR"), "/dispatch.rs"));
#[path = "../ext_bits.rs"] mod ext_bits;   // extension Bits: rem_int forms, constants, shift / `%` impl variants, `<op>_inh`

fn fx<F: Fixed>(x: F) -> String where F::Bits: Prim { format!("{}", x.to_bits()) }
fn opt<F: Fixed>(x: Option<F>) -> String where F::Bits: Prim { match x { None => "N".into(), Some(v) => format!("S:{}", v.to_bits()) } }
fn pair<F: Fixed>(x: (F, bool)) -> String where F::Bits: Prim { format!("{},{}", x.0.to_bits(), b01(x.1)) }

fn run<F: Fixed>(op: &str, a: &[&str]) -> String
where
    F::Bits: Prim,
    for<'a> &'a F: core::ops::Mul<F, Output = F> + core::ops::Div<F, Output = F> + core::ops::Mul<&'a F, Output = F> + core::ops::Div<&'a F, Output = F>,
    for<'a> F: core::ops::Mul<&'a F, Output = F> + core::ops::Div<&'a F, Output = F> + core::ops::MulAssign<&'a F> + core::ops::DivAssign<&'a F>,
{
    let x = |i: usize| F::from_bits(<F::Bits as Prim>::parse(arg(a, i)));
    let k = |i: usize| <F::Bits as Prim>::parse(arg(a, i));
    let u = |i: usize| arg_u32(a, i);
    match op {
        // ---- mul / div (C01, C02)
        "mul" => fx(x(0) * x(1)),
        "div" => fx(x(0) / x(1)),
        "mul_rv" => fx(&x(0) * x(1)),
        "mul_vr" => fx(x(0) * &x(1)),
        "mul_rr" => fx(&x(0) * &x(1)),
        "div_rv" => fx(&x(0) / x(1)),
        "div_vr" => fx(x(0) / &x(1)),
        "div_rr" => fx(&x(0) / &x(1)),
        "mul_assign" => { let mut t = x(0); t *= x(1); fx(t) }
        "div_assign" => { let mut t = x(0); t /= x(1); fx(t) }
        "mul_assign_r" => { let mut t = x(0); t *= &x(1); fx(t) }
        "div_assign_r" => { let mut t = x(0); t /= &x(1); fx(t) }
        "checked_mul" => opt(x(0).checked_mul(x(1))),
        "checked_div" => opt(x(0).checked_div(x(1))),
        "saturating_mul" => fx(x(0).saturating_mul(x(1))),
        "saturating_div" => fx(x(0).saturating_div(x(1))),
        "wrapping_mul" => fx(x(0).wrapping_mul(x(1))),
        "wrapping_div" => fx(x(0).wrapping_div(x(1))),
        "overflowing_mul" => pair(x(0).overflowing_mul(x(1))),
        "overflowing_div" => pair(x(0).overflowing_div(x(1))),
        // ---- add / sub / neg (C02)
        "add" => fx(x(0) + x(1)),
        "sub" => fx(x(0) - x(1)),
        "checked_add" => opt(x(0).checked_add(x(1))),
        "checked_sub" => opt(x(0).checked_sub(x(1))),
        "checked_neg" => opt(x(0).checked_neg()),
        "saturating_add" => fx(x(0).saturating_add(x(1))),
        "saturating_sub" => fx(x(0).saturating_sub(x(1))),
        "saturating_neg" => fx(x(0).saturating_neg()),
        "wrapping_add" => fx(x(0).wrapping_add(x(1))),
        "wrapping_sub" => fx(x(0).wrapping_sub(x(1))),
        "wrapping_neg" => fx(x(0).wrapping_neg()),
        "overflowing_add" => pair(x(0).overflowing_add(x(1))),
        "overflowing_sub" => pair(x(0).overflowing_sub(x(1))),
        "overflowing_neg" => pair(x(0).overflowing_neg()),
        // ---- by integer (C02)
        "mul_int" => fx(x(0) * k(1)),
        "div_int" => fx(x(0) / k(1)),
        "checked_mul_int" => opt(x(0).checked_mul_int(k(1))),
        "checked_div_int" => opt(x(0).checked_div_int(k(1))),
        "saturating_mul_int" => fx(x(0).saturating_mul_int(k(1))),
        "wrapping_mul_int" => fx(x(0).wrapping_mul_int(k(1))),
        "wrapping_div_int" => fx(x(0).wrapping_div_int(k(1))),
        "overflowing_mul_int" => pair(x(0).overflowing_mul_int(k(1))),
        "overflowing_div_int" => pair(x(0).overflowing_div_int(k(1))),
        // ---- remainders and Euclidean division (C07)
        "rem" => fx(x(0) % x(1)),
        "rem_euclid" => fx(x(0).rem_euclid(x(1))),
        "div_euclid" => fx(x(0).div_euclid(x(1))),
        "checked_rem" => opt(x(0).checked_rem(x(1))),
        "checked_rem_euclid" => opt(x(0).checked_rem_euclid(x(1))),
        "checked_div_euclid" => opt(x(0).checked_div_euclid(x(1))),
        "saturating_div_euclid" => fx(x(0).saturating_div_euclid(x(1))),
        "wrapping_div_euclid" => fx(x(0).wrapping_div_euclid(x(1))),
        "overflowing_div_euclid" => pair(x(0).overflowing_div_euclid(x(1))),
        "rem_int" => fx(x(0) % k(1)),
        "rem_euclid_int" => fx(x(0).rem_euclid_int(k(1))),
        "div_euclid_int" => fx(x(0).div_euclid_int(k(1))),
        "checked_rem_int" => opt(x(0).checked_rem_int(k(1))),
        "checked_rem_euclid_int" => opt(x(0).checked_rem_euclid_int(k(1))),
        "checked_div_euclid_int" => opt(x(0).checked_div_euclid_int(k(1))),
        "wrapping_rem_euclid_int" => fx(x(0).wrapping_rem_euclid_int(k(1))),
        "wrapping_div_euclid_int" => fx(x(0).wrapping_div_euclid_int(k(1))),
        "overflowing_rem_euclid_int" => pair(x(0).overflowing_rem_euclid_int(k(1))),
        "overflowing_div_euclid_int" => pair(x(0).overflowing_div_euclid_int(k(1))),
        // ---- rounding (C06)
        "int" => fx(x(0).int()),
        "frac" => fx(x(0).frac()),
        "round_to_zero" => fx(x(0).round_to_zero()),
        "ceil" => fx(x(0).ceil()),
        "floor" => fx(x(0).floor()),
        "round" => fx(x(0).round()),
        "round_ties_to_even" => fx(x(0).round_ties_to_even()),
        "checked_ceil" => opt(x(0).checked_ceil()),
        "checked_floor" => opt(x(0).checked_floor()),
        "checked_round" => opt(x(0).checked_round()),
        "checked_round_ties_to_even" => opt(x(0).checked_round_ties_to_even()),
        "saturating_ceil" => fx(x(0).saturating_ceil()),
        "saturating_floor" => fx(x(0).saturating_floor()),
        "saturating_round" => fx(x(0).saturating_round()),
        "saturating_round_ties_to_even" => fx(x(0).saturating_round_ties_to_even()),
        "wrapping_ceil" => fx(x(0).wrapping_ceil()),
        "wrapping_floor" => fx(x(0).wrapping_floor()),
        "wrapping_round" => fx(x(0).wrapping_round()),
        "wrapping_round_ties_to_even" => fx(x(0).wrapping_round_ties_to_even()),
        "overflowing_ceil" => pair(x(0).overflowing_ceil()),
        "overflowing_floor" => pair(x(0).overflowing_floor()),
        "overflowing_round" => pair(x(0).overflowing_round()),
        "overflowing_round_ties_to_even" => pair(x(0).overflowing_round_ties_to_even()),
        // ---- shifts and pass-through integer ops (C11 union corpus)
        "shl" => fx(x(0) << u(1)),
        "shr" => fx(x(0) >> u(1)),
        "checked_shl" => opt(x(0).checked_shl(u(1))),
        "checked_shr" => opt(x(0).checked_shr(u(1))),
        "wrapping_shl" => fx(x(0).wrapping_shl(u(1))),
        "wrapping_shr" => fx(x(0).wrapping_shr(u(1))),
        "overflowing_shl" => pair(x(0).overflowing_shl(u(1))),
        "overflowing_shr" => pair(x(0).overflowing_shr(u(1))),
        "not" => fx(!x(0)),
        "bitand" => fx(x(0) & x(1)),
        "bitor" => fx(x(0) | x(1)),
        "bitxor" => fx(x(0) ^ x(1)),
        "count_ones" => format!("{}", x(0).count_ones()),
        "count_zeros" => format!("{}", x(0).count_zeros()),
        "leading_zeros" => format!("{}", x(0).leading_zeros()),
        "trailing_zeros" => format!("{}", x(0).trailing_zeros()),
        "rotate_left" => fx(x(0).rotate_left(u(1))),
        "rotate_right" => fx(x(0).rotate_right(u(1))),
        _ => "UNKNOWN".to_string(),
    }
}

fn run_signed<F: FixedSigned>(op: &str, a: &[&str]) -> String where F::Bits: Prim {
    let x = |i: usize| F::from_bits(<F::Bits as Prim>::parse(arg(a, i)));
    match op {
        "neg" => fx(-x(0)),
        "abs" => fx(x(0).abs()),
        "checked_abs" => opt(x(0).checked_abs()),
        "saturating_abs" => fx(x(0).saturating_abs()),
        "wrapping_abs" => fx(x(0).wrapping_abs()),
        "overflowing_abs" => pair(x(0).overflowing_abs()),
        "signum" => fx(x(0).signum()),
        "is_positive" => b01(x(0).is_positive()).to_string(),
        "is_negative" => b01(x(0).is_negative()).to_string(),
        _ => "UNKNOWN".to_string(),
    }
}
fn run_unsigned<F: FixedUnsigned>(op: &str, a: &[&str]) -> String where F::Bits: Prim {
    let x = |i: usize| F::from_bits(<F::Bits as Prim>::parse(arg(a, i)));
    match op {
        "is_power_of_two" => b01(x(0).is_power_of_two()).to_string(),
        "next_power_of_two" => fx(x(0).next_power_of_two()),
        "checked_next_power_of_two" => opt(x(0).checked_next_power_of_two()),
        _ => "UNKNOWN".to_string(),
    }
}

const SIGNED_ONLY: &[&str] = &["neg", "abs", "checked_abs", "saturating_abs", "wrapping_abs", "overflowing_abs", "signum", "is_positive", "is_negative"];
const UNSIGNED_ONLY: &[&str] = &["is_power_of_two", "next_power_of_two", "checked_next_power_of_two"];


fn typed(op: &str, s: bool, n: u32, f: u32, a: &[&str]) -> String {
    if ext_bits::handles(op) { return ext_bits::typed(op, s, n, f, a); }
    if SIGNED_ONLY.contains(&op) {
        if !s { return "UNKNOWN".into(); }
        return sfx_dispatch_s!(n, f, run_signed(op, a));
    }
    if UNSIGNED_ONLY.contains(&op) {
        if s { return "UNKNOWN".into(); }
        return sfx_dispatch_u!(n, f, run_unsigned(op, a));
    }
    sfx_dispatch!(s, n, f, run(op, a))
}

fn hook(op: &str, s: bool, n: u32, f: u32, a: &[&str]) -> String {
    match op {
        "h_mul_overflow" => { let (v, o) = hooks::mul_overflow(s, n, pat(arg(a, 0)), pat(arg(a, 1)), f); format!("{},{}", canon(s, n, v), b01(o)) }
        "h_div_overflow" => { let (v, o) = hooks::div_overflow(s, n, pat(arg(a, 0)), pat(arg(a, 1)), f); format!("{},{}", canon(s, n, v), b01(o)) }
        "h_div_rem_from" => {
            let ((q1, q0), r) = hooks::div_rem_from(s, n, pat(arg(a, 0)), pat(arg(a, 1)), pat(arg(a, 2)));
            format!("{},{},{}", canon(s, n, q1), canon(false, n, q0), canon(s, n, r))
        }
        _ => "UNKNOWN".to_string(),
    }
}

fn main() {
    serve(|op, s, n, f, a| if op.starts_with("h_") { hook(op, s, n, f, a) } else { typed(op, s, n, f, a) });
}
