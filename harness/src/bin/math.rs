//! Typed harness for `substrate_fixed::transcendental` (C12–C17): results and loop-iteration counts.
//! request: `t_<fn> s n f x [s2 n2 f2] [y|n]`; answer: `O:<bits>;<iters>` | `E;<iters>` | `<bits>;<iters>` (sin/cos/tan) | `P`
use sfxh::*;
use substrate_fixed::traits::Fixed;
use substrate_fixed::transcendental as t;
use substrate_fixed::types::*;

fn res<D: Fixed, E>(r: Result<D, E>) -> String where D::Bits: Prim {
    let it = t::verif_read_iters();
    match r { Ok(v) => format!("O:{};{}", v.to_bits(), it), Err(_) => format!("E;{}", it) }
}
fn val<D: Fixed>(v: D) -> String where D::Bits: Prim { format!("{};{}", v.to_bits(), t::verif_read_iters()) }

macro_rules! bits { ($T:ty, $s:expr) => { <$T>::from_bits(<<$T as Fixed>::Bits as Prim>::parse($s)) } }

// (source, destination) pairs accepted by the trait bounds
macro_rules! pairs_any {   // sqrt, powi: S may be unsigned; sqrt's D too
    ($m:ident, $key:expr, $($args:tt)*) => {
        match $key {
            (true, 32, 23, true, 32, 23) => $m!(I9F23, I9F23, $($args)*),
            (true, 64, 32, true, 64, 32) => $m!(I32F32, I32F32, $($args)*),
            (true, 128, 64, true, 128, 64) => $m!(I64F64, I64F64, $($args)*),
            (true, 128, 88, true, 128, 88) => $m!(I40F88, I40F88, $($args)*),
            (true, 64, 48, true, 64, 48) => $m!(I16F48, I16F48, $($args)*),
            (true, 128, 32, true, 128, 32) => $m!(I96F32, I96F32, $($args)*),
            (true, 64, 23, true, 64, 23) => $m!(I41F23, I41F23, $($args)*),
            (true, 32, 23, true, 64, 32) => $m!(I9F23, I32F32, $($args)*),
            (true, 64, 32, true, 128, 64) => $m!(I32F32, I64F64, $($args)*),
            (true, 64, 48, true, 128, 64) => $m!(I16F48, I64F64, $($args)*),
            (false, 64, 32, true, 128, 64) => $m!(U32F32, I64F64, $($args)*),
            (false, 32, 23, true, 64, 32) => $m!(U9F23, I32F32, $($args)*),
            _ => "SKIP".to_string(),
        }
    };
}
macro_rules! pairs_unsigned_d {   // sqrt only
    ($m:ident, $key:expr, $($args:tt)*) => {
        match $key {
            (false, 64, 32, false, 64, 32) => $m!(U32F32, U32F32, $($args)*),
            (false, 128, 64, false, 128, 64) => $m!(U64F64, U64F64, $($args)*),
            (false, 32, 23, false, 32, 23) => $m!(U9F23, U9F23, $($args)*),
            (false, 128, 32, false, 128, 32) => $m!(U96F32, U96F32, $($args)*),
            (false, 32, 23, false, 64, 32) => $m!(U9F23, U32F32, $($args)*),
            _ => "SKIP".to_string(),
        }
    };
}
type I41F23 = substrate_fixed::FixedI64<substrate_fixed::types::extra::U23>;

macro_rules! do_sqrt { ($S:ty, $D:ty, $a:expr) => {{ let x = bits!($S, arg($a, 0)); t::verif_reset_iters(); res(t::sqrt::<$S, $D>(x)) }} }
macro_rules! do_powi { ($S:ty, $D:ty, $a:expr) => {{ let x = bits!($S, arg($a, 0)); let n = arg_i32($a, 4); t::verif_reset_iters(); res(t::powi::<$S, $D>(x, n)) }} }
macro_rules! do_log2 { ($S:ty, $D:ty, $a:expr) => {{ let x = bits!($S, arg($a, 0)); t::verif_reset_iters(); res(t::log2::<$S, $D>(x)) }} }
macro_rules! do_ln { ($S:ty, $D:ty, $a:expr) => {{ let x = bits!($S, arg($a, 0)); t::verif_reset_iters(); res(t::ln::<$S, $D>(x)) }} }
macro_rules! do_exp { ($S:ty, $D:ty, $a:expr) => {{ let x = bits!($S, arg($a, 0)); t::verif_reset_iters(); res(t::exp::<$S, $D>(x)) }} }
macro_rules! do_pow { ($S:ty, $D:ty, $a:expr) => {{ let x = bits!($S, arg($a, 0)); let y = bits!($S, arg($a, 4)); t::verif_reset_iters(); res(t::pow::<$S, $D>(x, y)) }} }

macro_rules! signed_pairs {   // log2, ln, exp, pow: S and D signed
    ($m:ident, $key:expr, $($args:tt)*) => {
        match $key {
            (true, 32, 23, true, 32, 23) => $m!(I9F23, I9F23, $($args)*),
            (true, 64, 32, true, 64, 32) => $m!(I32F32, I32F32, $($args)*),
            (true, 128, 64, true, 128, 64) => $m!(I64F64, I64F64, $($args)*),
            (true, 128, 88, true, 128, 88) => $m!(I40F88, I40F88, $($args)*),
            (true, 64, 48, true, 64, 48) => $m!(I16F48, I16F48, $($args)*),
            (true, 128, 32, true, 128, 32) => $m!(I96F32, I96F32, $($args)*),
            (true, 64, 23, true, 64, 23) => $m!(I41F23, I41F23, $($args)*),
            (true, 32, 23, true, 64, 32) => $m!(I9F23, I32F32, $($args)*),
            (true, 64, 32, true, 128, 64) => $m!(I32F32, I64F64, $($args)*),
            (true, 64, 48, true, 128, 64) => $m!(I16F48, I64F64, $($args)*),
            _ => "SKIP".to_string(),
        }
    };
}

macro_rules! trig {
    ($f:ident, $key:expr, $a:expr) => {
        match $key {
            (true, 32, 23) => { let x = bits!(I9F23, arg($a, 0)); t::verif_reset_iters(); val(t::$f(x)) }
            (true, 64, 32) => { let x = bits!(I32F32, arg($a, 0)); t::verif_reset_iters(); val(t::$f(x)) }
            (true, 128, 64) => { let x = bits!(I64F64, arg($a, 0)); t::verif_reset_iters(); val(t::$f(x)) }
            (true, 128, 88) => { let x = bits!(I40F88, arg($a, 0)); t::verif_reset_iters(); val(t::$f(x)) }
            (true, 64, 48) => { let x = bits!(I16F48, arg($a, 0)); t::verif_reset_iters(); val(t::$f(x)) }
            (true, 128, 32) => { let x = bits!(I96F32, arg($a, 0)); t::verif_reset_iters(); val(t::$f(x)) }
            (true, 64, 23) => { let x = bits!(I41F23, arg($a, 0)); t::verif_reset_iters(); val(t::$f(x)) }
            _ => "SKIP".to_string(),
        }
    };
}

fn main() {
    serve(|op, s, n, f, a| {
        if op == "t_sin" { return trig!(sin, (s, n, f), a); }
        if op == "t_cos" { return trig!(cos, (s, n, f), a); }
        if op == "t_tan" { return trig!(tan, (s, n, f), a); }
        if op == "t_consts" {
            return format!("{},{},{},{},{},{}", t::TWO_PI.to_bits(), t::PI.to_bits(), t::FRAC_PI_2.to_bits(), t::FRAC_PI_4.to_bits(), t::LOG2_E.to_bits(), t::E.to_bits());
        }
        let key = (s, n, f, arg(a, 1) == "1", arg_u32(a, 2), arg_u32(a, 3));
        match op {
            "t_sqrt" => { let r = pairs_any!(do_sqrt, key, a); if r == "SKIP" { pairs_unsigned_d!(do_sqrt, key, a) } else { r } }
            "t_powi" => pairs_any!(do_powi, key, a),
            "t_log2" => signed_pairs!(do_log2, key, a),
            "t_ln" => signed_pairs!(do_ln, key, a),
            "t_exp" => signed_pairs!(do_exp, key, a),
            "t_pow" => signed_pairs!(do_pow, key, a),
            _ => "UNKNOWN".to_string(),
        }
    });
}
