//! Typed harness for `Wrapping<F>` (C18): programs (sequences of operations) over every impl variant.
//! request: `wprog s n f <x0> <step> <step> ...`; step = `<op>[.<variant>]:<arg>`; answer: values after each step
//! joined by `;`, ending with `P` at the step that panicked.
use sfxh::*;
use std::panic::{catch_unwind, AssertUnwindSafe};
use substrate_fixed::traits::{Fixed, FixedSigned, FixedUnsigned};
use substrate_fixed::Wrapping;
use core::ops::*;

include!(concat!(env!("OUT_DIR"), "/dispatch.rs"));

type W<F> = Wrapping<F>;

macro_rules! binop {
    ($x:expr, $y:expr, $var:expr, $op:tt, $opa:tt) => {{
        let x = $x; let y = $y;
        match $var {
            "vv" => x $op y,
            "rv" => &x $op y,
            "vr" => x $op &y,
            "rr" => &x $op &y,
            "av" => { let mut t = x; t $opa y; t }
            "ar" => { let mut t = x; t $opa &y; t }
            _ => bad(),
        }
    }};
}
macro_rules! shiftop {
    ($x:expr, $amt:expr, $ty:expr, $var:expr, $op:tt, $opa:tt) => {{
        macro_rules! go { ($T:ty) => {{ let k = $amt as $T; binop!($x, k, $var, $op, $opa) }} }
        match $ty {
            "i8" => go!(i8), "i16" => go!(i16), "i32" => go!(i32), "i64" => go!(i64), "i128" => go!(i128), "isize" => go!(isize),
            "u8" => go!(u8), "u16" => go!(u16), "u32" => go!(u32), "u64" => go!(u64), "u128" => go!(u128), "usize" => go!(usize),
            _ => bad(),
        }
    }};
}

fn step<F: Fixed>(x: W<F>, st: &str) -> Option<W<F>>
where
    F::Bits: Prim,
    W<F>: Mul<F::Bits, Output = W<F>> + Div<F::Bits, Output = W<F>> + Rem<F::Bits, Output = W<F>>,
    W<F>: MulAssign<F::Bits> + DivAssign<F::Bits> + RemAssign<F::Bits>,
    for<'a> W<F>: Mul<&'a F::Bits, Output = W<F>> + Div<&'a F::Bits, Output = W<F>> + Rem<&'a F::Bits, Output = W<F>>,
    for<'a> W<F>: MulAssign<&'a F::Bits> + DivAssign<&'a F::Bits> + RemAssign<&'a F::Bits>,
    for<'a> &'a W<F>: Mul<F::Bits, Output = W<F>> + Div<F::Bits, Output = W<F>> + Rem<F::Bits, Output = W<F>>,
    for<'a, 'b> &'a W<F>: Mul<&'b F::Bits, Output = W<F>> + Div<&'b F::Bits, Output = W<F>> + Rem<&'b F::Bits, Output = W<F>>,
    for<'a> &'a F: BitAnd<F, Output = F> + BitOr<F, Output = F> + BitXor<F, Output = F> + Not<Output = F>,
    for<'a, 'b> &'a F: BitAnd<&'b F, Output = F> + BitOr<&'b F, Output = F> + BitXor<&'b F, Output = F>,
    for<'a> F: BitAnd<&'a F, Output = F> + BitOr<&'a F, Output = F> + BitXor<&'a F, Output = F>,
    for<'a> F: BitAndAssign<&'a F> + BitOrAssign<&'a F> + BitXorAssign<&'a F>,
    for<'a> &'a F: Shl<u32, Output = F> + Shr<u32, Output = F>,
{
    let (head, argstr) = match st.split_once(':') { Some((h, a)) => (h, a), None => (st, "") };
    let (op, var) = match head.split_once('.') { Some((o, v)) => (o, v), None => (head, "vv") };
    let wy = || W::<F>::from_bits(<F::Bits as Prim>::parse(argstr));
    let ky = || <F::Bits as Prim>::parse(argstr);
    let r = catch_unwind(AssertUnwindSafe(|| -> W<F> {
        match op {
            "add" => binop!(x, wy(), var, +, +=),
            "sub" => binop!(x, wy(), var, -, -=),
            "mul" => binop!(x, wy(), var, *, *=),
            "div" => binop!(x, wy(), var, /, /=),
            "rem" => binop!(x, wy(), var, %, %=),
            "bitand" => binop!(x, wy(), var, &, &=),
            "bitor" => binop!(x, wy(), var, |, |=),
            "bitxor" => binop!(x, wy(), var, ^, ^=),
            "mul_int" => binop!(x, ky(), var, *, *=),
            "div_int" => binop!(x, ky(), var, /, /=),
            "rem_int" => binop!(x, ky(), var, %, %=),
            "neg" => if var == "r" { -&x } else { -x },
            "not" => if var == "r" { !&x } else { !x },
            "shl" | "shr" => {
                // argument: <type>,<amount>
                let (ty, amt) = argstr.split_once(',').unwrap_or_else(|| bad());
                let amt: u128 = pat(amt);
                if op == "shl" { shiftop!(x, amt, ty, var, <<, <<=) } else { shiftop!(x, amt, ty, var, >>, >>=) }
            }
            "ceil" => x.ceil(),
            "floor" => x.floor(),
            "round" => x.round(),
            "round_ties_to_even" => x.round_ties_to_even(),
            "int" => x.int(),
            "frac" => x.frac(),
            "round_to_zero" => x.round_to_zero(),
            "rotate_left" => x.rotate_left(argstr.parse().unwrap_or_else(|_| bad())),
            "rotate_right" => x.rotate_right(argstr.parse().unwrap_or_else(|_| bad())),
            "div_euclid" => x.div_euclid(wy()),
            "rem_euclid" => x.rem_euclid(wy()),
            "div_euclid_int" => x.div_euclid_int(ky()),
            "rem_euclid_int" => x.rem_euclid_int(ky()),
            "from_bits" => W::<F>::from_bits(ky()),
            "sum" | "product" => {
                let mut v = vec![x];
                for p in argstr.split(',') { if !p.is_empty() { v.push(W::<F>::from_bits(<F::Bits as Prim>::parse(p))); } }
                match (op, var) {
                    ("sum", "r") => v.iter().sum(),
                    ("sum", _) => v.into_iter().sum(),
                    ("product", "r") => v.iter().product(),
                    (_, _) => v.into_iter().product(),
                }
            }
            "sum0" => { let v: Vec<W<F>> = Vec::new(); v.into_iter().sum() }
            "product0" => { let v: Vec<W<F>> = Vec::new(); if var == "r" { v.iter().product() } else { v.into_iter().product() } }
            _ => bad(),
        }
    }));
    match r {
        Ok(v) => Some(v),
        Err(e) => if e.is::<BadReq>() { std::panic::resume_unwind(e) } else { None },
    }
}

fn step_signed<F: FixedSigned>(x: W<F>, st: &str) -> Option<Option<W<F>>> {
    let r = catch_unwind(AssertUnwindSafe(|| match st {
        "abs" => Some(x.abs()),
        "signum" => Some(x.signum()),
        _ => None,
    }));
    match r { Ok(Some(v)) => Some(Some(v)), Ok(None) => None, Err(_) => Some(None) }
}
fn step_unsigned<F: FixedUnsigned>(x: W<F>, st: &str) -> Option<Option<W<F>>> {
    let r = catch_unwind(AssertUnwindSafe(|| match st {
        "next_power_of_two" => Some(x.next_power_of_two()),
        _ => None,
    }));
    match r { Ok(Some(v)) => Some(Some(v)), Ok(None) => None, Err(_) => Some(None) }
}

trait Special: Fixed { fn special(x: W<Self>, st: &str) -> Option<Option<W<Self>>>; }
macro_rules! special {
    ($($F:ident => $f:ident, $L:ident);*) => { $(
        impl<Frac: substrate_fixed::types::extra::$L> Special for substrate_fixed::$F<Frac> {
            fn special(x: W<Self>, st: &str) -> Option<Option<W<Self>>> { $f(x, st) }
        }
    )* };
}
special! { FixedI8 => step_signed, LeEqU8; FixedI16 => step_signed, LeEqU16; FixedI32 => step_signed, LeEqU32; FixedI64 => step_signed, LeEqU64; FixedI128 => step_signed, LeEqU128;
           FixedU8 => step_unsigned, LeEqU8; FixedU16 => step_unsigned, LeEqU16; FixedU32 => step_unsigned, LeEqU32; FixedU64 => step_unsigned, LeEqU64; FixedU128 => step_unsigned, LeEqU128 }

fn run<F: Fixed + Special>(a: &[&str]) -> String
where
    F::Bits: Prim,
    W<F>: Mul<F::Bits, Output = W<F>> + Div<F::Bits, Output = W<F>> + Rem<F::Bits, Output = W<F>>,
    W<F>: MulAssign<F::Bits> + DivAssign<F::Bits> + RemAssign<F::Bits>,
    for<'a> W<F>: Mul<&'a F::Bits, Output = W<F>> + Div<&'a F::Bits, Output = W<F>> + Rem<&'a F::Bits, Output = W<F>>,
    for<'a> W<F>: MulAssign<&'a F::Bits> + DivAssign<&'a F::Bits> + RemAssign<&'a F::Bits>,
    for<'a> &'a W<F>: Mul<F::Bits, Output = W<F>> + Div<F::Bits, Output = W<F>> + Rem<F::Bits, Output = W<F>>,
    for<'a, 'b> &'a W<F>: Mul<&'b F::Bits, Output = W<F>> + Div<&'b F::Bits, Output = W<F>> + Rem<&'b F::Bits, Output = W<F>>,
    for<'a> &'a F: BitAnd<F, Output = F> + BitOr<F, Output = F> + BitXor<F, Output = F> + Not<Output = F>,
    for<'a, 'b> &'a F: BitAnd<&'b F, Output = F> + BitOr<&'b F, Output = F> + BitXor<&'b F, Output = F>,
    for<'a> F: BitAnd<&'a F, Output = F> + BitOr<&'a F, Output = F> + BitXor<&'a F, Output = F>,
    for<'a> F: BitAndAssign<&'a F> + BitOrAssign<&'a F> + BitXorAssign<&'a F>,
    for<'a> &'a F: Shl<u32, Output = F> + Shr<u32, Output = F>,
{
    let mut x = W::<F>::from_bits(<F::Bits as Prim>::parse(arg(a, 0)));
    let mut out: Vec<String> = Vec::new();
    for st in &a[1..] {
        let r = match F::special(x, st) { Some(r) => r, None => step(x, st) };
        match r {
            Some(v) => { x = v; out.push(format!("{}", x.to_bits())); }
            None => { out.push("P".into()); break; }
        }
    }
    out.join(";")
}

// ---- ExtOps: the operator trait impls of the PLAIN types `F = FixedI*/FixedU*<Frac>` (`arith.rs`: `refs!`, `refs_assign!`, `pass!`,
// `shift!`, `shift_assign!`, `fixed_arith!`, `Sum` / `Product`).  request: `fprog s n f <x0> <step> ...`, same step syntax and answer as
// `wprog`; extra variants `mul_int.lvv|lvr|lrv|lrr` = `k * a`, `k * &a`, `&k * a`, `&k * &a` (integer on the LEFT).
trait FOps: Fixed { fn fstep(x: Self, st: &str) -> Self; }
macro_rules! fneg {
    (Signed, $x:expr, $var:expr) => { if $var == "r" { -&$x } else { -$x } };
    (Unsigned, $x:expr, $var:expr) => {{ let _ = ($x, $var); bad() }};
}
macro_rules! fops {
    ($($F:ident, $L:ident, $Inner:ty, $Sg:tt);*) => { $(
        impl<Frac: substrate_fixed::types::extra::$L> FOps for substrate_fixed::$F<Frac> {
            fn fstep(x: Self, st: &str) -> Self {
                let (head, argstr) = match st.split_once(':') { Some((h, a)) => (h, a), None => (st, "") };
                let (op, var) = match head.split_once('.') { Some((o, v)) => (o, v), None => (head, "vv") };
                let fy = || Self::from_bits(<$Inner as Prim>::parse(argstr));
                let ky = || <$Inner as Prim>::parse(argstr);
                let list = |first: Option<Self>| -> Vec<Self> {
                    let mut v: Vec<Self> = first.into_iter().collect();
                    for p in argstr.split(',') { if !p.is_empty() { v.push(Self::from_bits(<$Inner as Prim>::parse(p))); } }
                    v
                };
                match op {
                    "add" => binop!(x, fy(), var, +, +=),
                    "sub" => binop!(x, fy(), var, -, -=),
                    "mul" => binop!(x, fy(), var, *, *=),
                    "div" => binop!(x, fy(), var, /, /=),
                    "rem" => binop!(x, fy(), var, %, %=),
                    "bitand" => binop!(x, fy(), var, &, &=),
                    "bitor" => binop!(x, fy(), var, |, |=),
                    "bitxor" => binop!(x, fy(), var, ^, ^=),
                    "mul_int" => { let k = ky(); match var {
                        "lvv" => k * x, "lvr" => k * &x, "lrv" => &k * x, "lrr" => &k * &x,
                        _ => binop!(x, k, var, *, *=),
                    } }
                    "div_int" => binop!(x, ky(), var, /, /=),
                    "rem_int" => binop!(x, ky(), var, %, %=),
                    "neg" => fneg!($Sg, x, var),
                    "not" => if var == "r" { !&x } else { !x },
                    "shl" | "shr" => {
                        let (ty, amt) = argstr.split_once(',').unwrap_or_else(|| bad());
                        let amt: u128 = pat(amt);
                        if op == "shl" { shiftop!(x, amt, ty, var, <<, <<=) } else { shiftop!(x, amt, ty, var, >>, >>=) }
                    }
                    "sum" => { let v = list(Some(x)); if var == "r" { v.iter().sum::<Self>() } else { v.into_iter().sum::<Self>() } }
                    "product" => { let v = list(Some(x)); if var == "r" { v.iter().product::<Self>() } else { v.into_iter().product::<Self>() } }
                    "sum0" => { let v: Vec<Self> = Vec::new(); if var == "r" { v.iter().sum::<Self>() } else { v.into_iter().sum::<Self>() } }
                    "product0" => { let v: Vec<Self> = Vec::new(); if var == "r" { v.iter().product::<Self>() } else { v.into_iter().product::<Self>() } }
                    _ => bad(),
                }
            }
        }
    )* };
}
fops! { FixedI8, LeEqU8, i8, Signed; FixedI16, LeEqU16, i16, Signed; FixedI32, LeEqU32, i32, Signed; FixedI64, LeEqU64, i64, Signed;
        FixedI128, LeEqU128, i128, Signed; FixedU8, LeEqU8, u8, Unsigned; FixedU16, LeEqU16, u16, Unsigned; FixedU32, LeEqU32, u32, Unsigned;
        FixedU64, LeEqU64, u64, Unsigned; FixedU128, LeEqU128, u128, Unsigned }

fn run_f<F: Fixed + FOps>(a: &[&str]) -> String
where
    F::Bits: Prim,
{
    let mut x = F::from_bits(<F::Bits as Prim>::parse(arg(a, 0)));
    let mut out: Vec<String> = Vec::new();
    for st in &a[1..] {
        match catch_unwind(AssertUnwindSafe(|| F::fstep(x, st))) {
            Ok(v) => { x = v; out.push(format!("{}", x.to_bits())); }
            Err(e) => {
                if e.is::<BadReq>() { std::panic::resume_unwind(e) }
                out.push("P".into());
                break;
            }
        }
    }
    out.join(";")
}

// ---- accessor functions of `Wrapping<F>` that return plain numbers (`wrapping.rs`): `wq_<fn> s n f [x]`
trait WQ: Fixed { fn pow2(x: W<Self>) -> Option<bool>; }
macro_rules! wq {
    ($($F:ident, $L:ident, $e:expr);*) => { $(
        impl<Frac: substrate_fixed::types::extra::$L> WQ for substrate_fixed::$F<Frac> {
            #[allow(unused_variables)]
            fn pow2(x: W<Self>) -> Option<bool> { let f: fn(W<Self>) -> Option<bool> = $e; f(x) }
        }
    )* };
}
wq! { FixedI8, LeEqU8, |_| None; FixedI16, LeEqU16, |_| None; FixedI32, LeEqU32, |_| None; FixedI64, LeEqU64, |_| None; FixedI128, LeEqU128, |_| None;
      FixedU8, LeEqU8, |x| Some(x.is_power_of_two()); FixedU16, LeEqU16, |x| Some(x.is_power_of_two()); FixedU32, LeEqU32, |x| Some(x.is_power_of_two());
      FixedU64, LeEqU64, |x| Some(x.is_power_of_two()); FixedU128, LeEqU128, |x| Some(x.is_power_of_two()) }

fn run_wq<F: Fixed + WQ>(op: &str, a: &[&str]) -> String
where
    F::Bits: Prim,
    W<F>: std::fmt::Display,
{
    let x = || W::<F>::from_bits(<F::Bits as Prim>::parse(arg(a, 0)));
    match op {
        "wq_count_ones" => x().count_ones().to_string(),
        "wq_count_zeros" => x().count_zeros().to_string(),
        "wq_leading_zeros" => x().leading_zeros().to_string(),
        "wq_trailing_zeros" => x().trailing_zeros().to_string(),
        "wq_is_power_of_two" => match F::pow2(x()) { Some(b) => b01(b).to_string(), None => bad() },
        "wq_min_value" => W::<F>::min_value().to_bits().to_string(),
        "wq_max_value" => W::<F>::max_value().to_bits().to_string(),
        "wq_int_nbits" => W::<F>::int_nbits().to_string(),
        "wq_frac_nbits" => W::<F>::frac_nbits().to_string(),
        "wq_display" => hex(format!("{}", x()).as_bytes()),
        _ => "UNKNOWN".to_string(),
    }
}

fn main() {
    serve(|op, s, n, f, a| match op {
        "wprog" => sfx_dispatch!(s, n, f, run(a)),
        "fprog" => sfx_dispatch!(s, n, f, run_f(a)),
        _ if op.starts_with("wq_") => sfx_dispatch!(s, n, f, run_wq(op, a)),
        _ => "UNKNOWN".to_string(),
    });
}
