//! Typed harness for parsing and formatting (C08 C09) plus the run-time-parameter hooks of `from_str.rs` / `display.rs`.
//! Strings travel as hex bytes (`-` = empty).
use sfxh::*;
use std::str::FromStr;
use substrate_fixed::traits::Fixed;
use substrate_fixed::verif_hooks as hooks;

#[path = "../fmt_table.rs"]
mod fmt_table;
use fmt_table::{fmt_with, Any};

include!(concat!(env!("OUT_DIR"), "/dispatch.rs"));

fn perr(e: &substrate_fixed::ParseFixedError) -> String { format!("E:{}", hooks::parse_error_kind(e)) }

fn spec(a: &[&str], i: usize) -> (String, String, bool, bool, bool, Option<usize>, Option<usize>) {
    // kind fa plus alt zero width prec
    let w = arg(a, i + 5); let p = arg(a, i + 6);
    (arg(a, i).to_string(), arg(a, i + 1).to_string(), arg(a, i + 2) == "1", arg(a, i + 3) == "1", arg(a, i + 4) == "1",
     if w == "-" { None } else { Some(w.parse().unwrap_or_else(|_| bad())) },
     if p == "-" { None } else { Some(p.parse().unwrap_or_else(|_| bad())) })
}

fn run<F: Fixed>(op: &str, a: &[&str]) -> String where F::Bits: Prim {
    match op {
        "rt" => {
            let x = F::from_bits(<F::Bits as Prim>::parse(arg(a, 0)));
            let s = x.to_string();
            match F::from_str(&s) { Ok(v) => format!("O:{};{}", v.to_bits(), hex(s.as_bytes())), Err(e) => format!("{};{}", perr(&e), hex(s.as_bytes())) }
        }
        "f_fmt" => {
            let (kind, fa, plus, alt, zero, w, p) = spec(a, 0);
            let x = F::from_bits(<F::Bits as Prim>::parse(arg(a, 7)));
            match fmt_with(&Any(&x), &kind, &fa, plus, alt, zero, w, p) { Some(s) => hex(s.as_bytes()), None => bad() }
        }
        _ => {
            // p_<form>_<radix> <hexbytes>
            let bytes = unhex(arg(a, 0));
            let s = match std::str::from_utf8(&bytes) { Ok(s) => s, Err(_) => return "SKIP".to_string() };
            let val = |r: Result<F, substrate_fixed::ParseFixedError>| match r { Ok(v) => format!("O:{}", v.to_bits()), Err(e) => perr(&e) };
            let pair = |r: Result<(F, bool), substrate_fixed::ParseFixedError>| match r { Ok((v, o)) => format!("O:{},{}", v.to_bits(), b01(o)), Err(e) => perr(&e) };
            match op {
                "p_plain_10" => val(F::from_str(s)),
                "p_plain_2" => val(F::from_str_binary(s)),
                "p_plain_8" => val(F::from_str_octal(s)),
                "p_plain_16" => val(F::from_str_hex(s)),
                "p_saturating_10" => val(F::saturating_from_str(s)),
                "p_saturating_2" => val(F::saturating_from_str_binary(s)),
                "p_saturating_8" => val(F::saturating_from_str_octal(s)),
                "p_saturating_16" => val(F::saturating_from_str_hex(s)),
                "p_wrapping_10" => val(F::wrapping_from_str(s)),
                "p_wrapping_2" => val(F::wrapping_from_str_binary(s)),
                "p_wrapping_8" => val(F::wrapping_from_str_octal(s)),
                "p_wrapping_16" => val(F::wrapping_from_str_hex(s)),
                "p_wtype_10" => val(s.parse::<substrate_fixed::Wrapping<F>>().map(|w| w.0)),
                "p_wtype_2" => val(substrate_fixed::Wrapping::<F>::from_str_binary(s).map(|w| w.0)),
                "p_wtype_8" => val(substrate_fixed::Wrapping::<F>::from_str_octal(s).map(|w| w.0)),
                "p_wtype_16" => val(substrate_fixed::Wrapping::<F>::from_str_hex(s).map(|w| w.0)),
                // the error's `Display` text (and, through it, `message()`): `O` when the literal parses
                "p_errmsg_10" => match F::from_str(s) { Ok(_) => "O".to_string(), Err(e) => hex(e.to_string().as_bytes()) },
                "p_errmsg_16" => match F::from_str_hex(s) { Ok(_) => "O".to_string(), Err(e) => hex(format!("{}", e).as_bytes()) },
                "p_overflowing_10" => pair(F::overflowing_from_str(s)),
                "p_overflowing_2" => pair(F::overflowing_from_str_binary(s)),
                "p_overflowing_8" => pair(F::overflowing_from_str_octal(s)),
                "p_overflowing_16" => pair(F::overflowing_from_str_hex(s)),
                _ => "UNKNOWN".to_string(),
            }
        }
    }
}

fn hook(op: &str, s: bool, n: u32, f: u32, a: &[&str]) -> String {
    match op {
        // h_from_str s n f radix hexbytes
        "h_from_str" => {
            let radix = arg_u32(a, 0);
            let bytes = unhex(arg(a, 1));
            match hooks::from_str(s, n, &bytes, radix, n - f, f) {
                Ok((bits, o)) => format!("O:{},{}", canon(s, n, bits), b01(o)),
                Err(k) => format!("E:{}", k),
            }
        }
        // h_fmt s n f kind fa plus alt zero width prec bits     (sign/magnitude as the types pass them: neg_abs of the bits)
        "h_fmt" => {
            let (kind, fa, plus, alt, zero, w, p) = spec(a, 0);
            let bits = pat(arg(a, 7));
            // magnitude of the n-bit two's-complement pattern
            let m = if n == 128 { bits } else { bits & ((1u128 << n) - 1) };
            let neg = s && (m >> (n - 1)) & 1 == 1;
            let abs = if neg { if n == 128 { m.wrapping_neg() } else { (m.wrapping_neg()) & ((1u128 << n) - 1) } } else { m };
            let raw = hooks::FmtRaw { neg, abs, nbits: n, frac_nbits: f };
            if kind == "D" { return bad(); }
            match fmt_with2(&raw, &kind, &fa, plus, alt, zero, w, p) { Some(s) => hex(s.as_bytes()), None => bad() }
        }
        _ => "UNKNOWN".to_string(),
    }
}

// `FmtRaw` has no `Debug`; route the other five kinds through a wrapper that forwards Debug to Display
struct Dbg<'a>(&'a hooks::FmtRaw);
impl<'a> std::fmt::Display for Dbg<'a> { fn fmt(&self, f: &mut std::fmt::Formatter) -> std::fmt::Result { std::fmt::Display::fmt(self.0, f) } }
impl<'a> std::fmt::Debug for Dbg<'a> { fn fmt(&self, f: &mut std::fmt::Formatter) -> std::fmt::Result { std::fmt::Display::fmt(self.0, f) } }
impl<'a> std::fmt::Binary for Dbg<'a> { fn fmt(&self, f: &mut std::fmt::Formatter) -> std::fmt::Result { std::fmt::Binary::fmt(self.0, f) } }
impl<'a> std::fmt::Octal for Dbg<'a> { fn fmt(&self, f: &mut std::fmt::Formatter) -> std::fmt::Result { std::fmt::Octal::fmt(self.0, f) } }
impl<'a> std::fmt::LowerHex for Dbg<'a> { fn fmt(&self, f: &mut std::fmt::Formatter) -> std::fmt::Result { std::fmt::LowerHex::fmt(self.0, f) } }
impl<'a> std::fmt::UpperHex for Dbg<'a> { fn fmt(&self, f: &mut std::fmt::Formatter) -> std::fmt::Result { std::fmt::UpperHex::fmt(self.0, f) } }
fn fmt_with2(raw: &hooks::FmtRaw, kind: &str, fa: &str, plus: bool, alt: bool, zero: bool, w: Option<usize>, p: Option<usize>) -> Option<String> {
    fmt_with(&Any(&Dbg(raw)), kind, fa, plus, alt, zero, w, p)
}

fn main() {
    serve(|op, s, n, f, a| if op.starts_with("h_") { hook(op, s, n, f, a) } else { sfx_dispatch!(s, n, f, run(op, a)) });
}
