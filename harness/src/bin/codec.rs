//! Typed harness for the SCALE codec and byte views (C10).
use sfxh::*;
use codec::{Decode, Encode, MaxEncodedLen};
use substrate_fixed::traits::Fixed;
use substrate_fixed::Wrapping;

include!(concat!(env!("OUT_DIR"), "/dispatch.rs"));
#[path = "../ext_serde.rs"] mod ext_serde;   // extension Serde: the serde representation (serdeize.rs) through serde_json / serde_cbor

trait Bytes { fn to_vec(&self) -> Vec<u8>; fn from_slice(s: &[u8]) -> Self; }
macro_rules! bytes { ($($n:expr),*) => { $( impl Bytes for [u8; $n] {
    fn to_vec(&self) -> Vec<u8> { self[..].to_vec() }
    fn from_slice(s: &[u8]) -> Self { if s.len() != $n { bad() } let mut a = [0u8; $n]; a.copy_from_slice(s); a }
} )* } }
bytes! { 1, 2, 4, 8, 16 }

fn run<F: Fixed + Encode + Decode + MaxEncodedLen>(op: &str, a: &[&str]) -> String
where F::Bits: Prim + Encode, F::Bytes: Bytes {
    let x = |i: usize| F::from_bits(<F::Bits as Prim>::parse(arg(a, i)));
    match op {
        "encode" => hex(&x(0).encode()),
        // the other ways the codec hands out the encoding of a value: Encode::using_encoded / encode_to, the blanket impl for &T, a tuple of two values
        "encode_using" => x(0).using_encoded(|b| hex(b)),
        "encode_to" => { let mut v: Vec<u8> = Vec::new(); x(0).encode_to(&mut v); hex(&v) }
        "encode_ref" => { let v = x(0); hex(&(&v).encode()) }
        "encode_pair" => hex(&(x(0), x(0)).encode()),
        "encode_size_hint_ok" => { let v = x(0); format!("{}", (v.size_hint() <= v.encode().len() || v.size_hint() == v.encoded_size()) as u8) }
        "int_encode" => hex(&<F::Bits as Prim>::parse(arg(a, 0)).encode()),
        "encoded_size" => format!("{}", x(0).encoded_size()),
        "max_encoded_len" => format!("{}", F::max_encoded_len()),
        "decode" => {
            let bytes = unhex(arg(a, 0));
            let mut input = &bytes[..];
            match F::decode(&mut input) { Ok(v) => format!("S:{},{}", v.to_bits(), input.len()), Err(_) => "N".into() }
        }
        "to_le_bytes" => hex(&x(0).to_le_bytes().to_vec()),
        "to_be_bytes" => hex(&x(0).to_be_bytes().to_vec()),
        "to_ne_bytes" => hex(&x(0).to_ne_bytes().to_vec()),
        "from_le_bytes" => format!("{}", F::from_le_bytes(<F::Bytes as Bytes>::from_slice(&unhex(arg(a, 0)))).to_bits()),
        "from_be_bytes" => format!("{}", F::from_be_bytes(<F::Bytes as Bytes>::from_slice(&unhex(arg(a, 0)))).to_bits()),
        "from_ne_bytes" => format!("{}", F::from_ne_bytes(<F::Bytes as Bytes>::from_slice(&unhex(arg(a, 0)))).to_bits()),
        "bits_roundtrip" => format!("{}", F::from_bits(x(0).to_bits()).to_bits()),
        "wrapping_bits" => format!("{}", Wrapping::<F>::from_bits(<F::Bits as Prim>::parse(arg(a, 0))).to_bits()),
        _ => "UNKNOWN".to_string(),
    }
}

fn main() { serve(|op, s, n, f, a| if ext_serde::handles(op) { ext_serde::typed(op, s, n, f, a) } else { sfx_dispatch!(s, n, f, run(op, a)) }); }
