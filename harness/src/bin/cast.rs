//! Typed harness for the crate's `az` feature (`src/cast.rs`): the impls of `az::{Cast, CheckedCast, SaturatingCast, WrappingCast,
//! OverflowingCast, StaticCast}` between fixed-point types, between fixed-point types and the primitive integers / `bool`, and between
//! fixed-point types and `f32` / `f64`.  Every op calls the TRAIT METHOD of the impl in `cast.rs` (not `to_num` / `from_num`).
//!
//! Requests (formats of the `cv_* / icv_* / fcv_*` ops of `conv.rs`; `<form>` = cast | checked | saturating | wrapping | overflowing | static):
//!   az_<form>        s n f x s2 n2 f2     fixed(s,n,f) -> fixed(s2,n2,f2)      (`run_time!{$Src($LeEqUSrc); $Dst($LeEqUDst)}`, `compile_time!` fixed rows)
//!   azi_<form>       s n f x <int>        fixed -> i8..i128 isize u8..u128 usize (`run_time!{$Fixed($LeEqU); $Dst}`, `compile_time!{…; int …}`)
//!   azi_<form>_from  s n f 0 <int|bool> k int / bool -> fixed                    (`run_time!{$Src; $Fixed($LeEqU)}`, `compile_time!{int …; …}`, bool rows)
//!   azf_<form>       s n f x <f32|f64>    fixed -> float, answer = bit pattern   (`compile_time!{…; float $Dst}`)
//!   azf_<form>_from  s n f 0 <f32|f64> b  float (bit pattern b) -> fixed         (`compile_time!{float $Src; …}`)
//! Answers: cast / saturating / wrapping: the destination's bits (integers: the value; floats: the bit pattern); checked / static: `N` | `S:<v>`;
//! overflowing: `<v>,<0|1>`; `P` for a panic.
#![allow(unused_macros, deprecated)]
use az::{Cast, CheckedCast, OverflowingCast, SaturatingCast, StaticCast, WrappingCast};
use sfxh::*;
use substrate_fixed::traits::Fixed;

include!(concat!(env!("OUT_DIR"), "/dispatch.rs"));

/// all six cast traits towards `T`
trait AzAll<T>: Cast<T> + CheckedCast<T> + SaturatingCast<T> + WrappingCast<T> + OverflowingCast<T> + StaticCast<T> {}
impl<S, T> AzAll<T> for S where S: Cast<T> + CheckedCast<T> + SaturatingCast<T> + WrappingCast<T> + OverflowingCast<T> + StaticCast<T> {}

/// the six forms of one (source value, destination type) pair; `$show` renders a destination value
macro_rules! forms {
    ($form:expr, $x:expr, $D:ty, $show:expr) => {{
        let show = $show;
        match $form {
            "cast" => show(Cast::<$D>::cast($x)),
            "checked" => match CheckedCast::<$D>::checked_cast($x) { None => "N".to_string(), Some(v) => format!("S:{}", show(v)) },
            "saturating" => show(SaturatingCast::<$D>::saturating_cast($x)),
            "wrapping" => show(WrappingCast::<$D>::wrapping_cast($x)),
            "overflowing" => { let (v, o) = OverflowingCast::<$D>::overflowing_cast($x); format!("{},{}", show(v), b01(o)) }
            "static" => match StaticCast::<$D>::static_cast($x) { None => "N".to_string(), Some(v) => format!("S:{}", show(v)) },
            _ => "UNKNOWN".to_string(),
        }
    }};
}

fn fxs<F: Fixed>(x: F) -> String where F::Bits: Prim { format!("{}", x.to_bits()) }

// ---- fixed -> fixed: `az_<form> s n f x s2 n2 f2`
fn run2<S: Fixed + AzAll<D>, D: Fixed>(form: &str, a: &[&str]) -> String where S::Bits: Prim, D::Bits: Prim {
    let x = S::from_bits(<S::Bits as Prim>::parse(arg(a, 0)));
    forms!(form, x, D, fxs::<D>)
}

// ---- fixed <-> primitive integer / bool
macro_rules! int_forms {
    ($F:ty, $I:ty, $form:expr, $from:expr, $a:expr) => {{
        if $from {
            let k = <$I as Prim>::parse(arg($a, 2));
            forms!($form, k, $F, fxs::<$F>)
        } else {
            let x = <$F>::from_bits(<<$F as Fixed>::Bits as Prim>::parse(arg($a, 0)));
            forms!($form, x, $I, |v: $I| format!("{}", v))
        }
    }};
}
fn run_int<F>(form: &str, from: bool, a: &[&str]) -> String
where
    F: Fixed + AzAll<i8> + AzAll<i16> + AzAll<i32> + AzAll<i64> + AzAll<i128> + AzAll<isize>
        + AzAll<u8> + AzAll<u16> + AzAll<u32> + AzAll<u64> + AzAll<u128> + AzAll<usize>,
    F::Bits: Prim,
    i8: AzAll<F>, i16: AzAll<F>, i32: AzAll<F>, i64: AzAll<F>, i128: AzAll<F>, isize: AzAll<F>,
    u8: AzAll<F>, u16: AzAll<F>, u32: AzAll<F>, u64: AzAll<F>, u128: AzAll<F>, usize: AzAll<F>,
    bool: AzAll<F>,
{
    // args: x <inttype> [k]
    match arg(a, 1) {
        "i8" => int_forms!(F, i8, form, from, a), "i16" => int_forms!(F, i16, form, from, a), "i32" => int_forms!(F, i32, form, from, a),
        "i64" => int_forms!(F, i64, form, from, a), "i128" => int_forms!(F, i128, form, from, a), "isize" => int_forms!(F, isize, form, from, a),
        "u8" => int_forms!(F, u8, form, from, a), "u16" => int_forms!(F, u16, form, from, a), "u32" => int_forms!(F, u32, form, from, a),
        "u64" => int_forms!(F, u64, form, from, a), "u128" => int_forms!(F, u128, form, from, a), "usize" => int_forms!(F, usize, form, from, a),
        "bool" if from => {
            let k = match arg(a, 2) { "0" => false, "1" => true, _ => bad() };
            forms!(form, k, F, fxs::<F>)
        }
        _ => "UNKNOWN".to_string(),
    }
}

// ---- fixed <-> float (bit patterns)
macro_rules! float_forms {
    ($F:ty, $T:ty, $U:ty, $form:expr, $from:expr, $a:expr) => {{
        if $from {
            let fl = <$T>::from_bits(arg($a, 2).parse::<$U>().unwrap_or_else(|_| bad()));
            forms!($form, fl, $F, fxs::<$F>)
        } else {
            let x = <$F>::from_bits(<<$F as Fixed>::Bits as Prim>::parse(arg($a, 0)));
            forms!($form, x, $T, |v: $T| format!("{}", v.to_bits()))
        }
    }};
}
fn run_float<F>(form: &str, from: bool, a: &[&str]) -> String
where
    F: Fixed + AzAll<f32> + AzAll<f64>,
    F::Bits: Prim,
    f32: AzAll<F>, f64: AzAll<F>,
{
    match arg(a, 1) {
        "f32" => float_forms!(F, f32, u32, form, from, a),
        "f64" => float_forms!(F, f64, u64, form, from, a),
        _ => "UNKNOWN".to_string(),
    }
}

fn main() {
    serve(|op, s, n, f, a| {
        if let Some(rest) = op.strip_prefix("azi_") {
            let (form, from) = match rest.strip_suffix("_from") { Some(fm) => (fm, true), None => (rest, false) };
            sfx_dispatch_small!(s, n, f, run_int(form, from, a))
        } else if let Some(rest) = op.strip_prefix("azf_") {
            let (form, from) = match rest.strip_suffix("_from") { Some(fm) => (fm, true), None => (rest, false) };
            sfx_dispatch!(s, n, f, run_float(form, from, a))
        } else if let Some(form) = op.strip_prefix("az_") {
            let s2 = arg(a, 1) == "1"; let n2 = arg_u32(a, 2); let f2 = arg_u32(a, 3);
            sfx_dispatch_pair!(s, n, f, s2, n2, f2, run2(form, a))
        } else { "UNKNOWN".to_string() }
    });
}
