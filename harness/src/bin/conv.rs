//! Typed harness for conversions and comparisons (C03 C04 C05) plus the hooks
//! `to_fixed_helper`, `to_float_kind`, `from_to_float_helper` for every layout.
#![allow(unused_macros)]
use sfxh::*;
use std::cmp::Ordering;
use std::collections::hash_map::DefaultHasher;
use std::hash::{Hash, Hasher};
use substrate_fixed::traits::{Fixed, FromFixed, ToFixed};
use substrate_fixed::verif_hooks as hooks;

include!(concat!(env!("OUT_DIR"), "/dispatch.rs"));

fn fx<F: Fixed>(x: F) -> String where F::Bits: Prim { format!("{}", x.to_bits()) }
fn ord(o: Option<Ordering>) -> String {
    match o { None => "U".into(), Some(Ordering::Less) => "-1".into(), Some(Ordering::Equal) => "0".into(), Some(Ordering::Greater) => "1".into() }
}

macro_rules! cmp_ops {
    ($op:expr, $a:expr, $b:expr) => {
        match $op {
            "eq" => b01($a == $b).to_string(),
            "ne" => b01($a != $b).to_string(),
            "lt" => b01($a < $b).to_string(),
            "le" => b01($a <= $b).to_string(),
            "gt" => b01($a > $b).to_string(),
            "ge" => b01($a >= $b).to_string(),
            "pcmp" => ord($a.partial_cmp(&$b)),
            _ => "UNKNOWN".to_string(),
        }
    };
}

// ---- fixed <-> fixed: request `<op> s n f x s2 n2 f2 [y]`
fn run2<S: Fixed + PartialOrd<D>, D: Fixed>(op: &str, a: &[&str]) -> String where S::Bits: Prim, D::Bits: Prim {
    let x = S::from_bits(<S::Bits as Prim>::parse(arg(a, 0)));
    match op {
        "cv_to_num" => fx::<D>(x.to_num::<D>()),
        "cv_checked" => match x.checked_to_num::<D>() { None => "N".into(), Some(v) => format!("S:{}", v.to_bits()) },
        "cv_saturating" => fx::<D>(x.saturating_to_num::<D>()),
        "cv_wrapping" => fx::<D>(x.wrapping_to_num::<D>()),
        "cv_overflowing" => { let (v, o) = x.overflowing_to_num::<D>(); format!("{},{}", v.to_bits(), b01(o)) }
        "cv_from_num" => fx::<D>(D::from_num(x)),
        "cv_checked_from" => match D::checked_from_num(x) { None => "N".into(), Some(v) => format!("S:{}", v.to_bits()) },
        "cv_saturating_from" => fx::<D>(D::saturating_from_num(x)),
        "cv_wrapping_from" => fx::<D>(D::wrapping_from_num(x)),
        "cv_wfrom" => fx::<D>(substrate_fixed::Wrapping::<D>::from_num(x).0),
        "cv_wto" => fx::<D>(substrate_fixed::Wrapping(x).to_num::<D>()),
        "cv_overflowing_from" => { let (v, o) = D::overflowing_from_num(x); format!("{},{}", v.to_bits(), b01(o)) }
        _ => {
            if let Some(c) = op.strip_prefix("cmp_") {
                let y = D::from_bits(<D::Bits as Prim>::parse(arg(a, 4)));
                cmp_ops!(c, x, y)
            } else { "UNKNOWN".to_string() }
        }
    }
}

// ---- the infallible conversions (exist only for admissible pairs)
fn run_from<S: Fixed, D: Fixed + From<S>>(a: &[&str]) -> String where S::Bits: Prim, D::Bits: Prim {
    let x = S::from_bits(<S::Bits as Prim>::parse(arg(a, 0)));
    fx::<D>(D::from(x))
}
fn run_lossy<S: Fixed, D: Fixed + substrate_fixed::traits::LossyFrom<S>>(a: &[&str]) -> String where S::Bits: Prim, D::Bits: Prim {
    let x = S::from_bits(<S::Bits as Prim>::parse(arg(a, 0)));
    fx::<D>(D::lossy_from(x))
}

// ---- fixed <-> primitive integer
macro_rules! int_ops {
    ($F:ty, $I:ty, $op:expr, $a:expr) => {{
        let x = <$F>::from_bits(<<$F as Fixed>::Bits as Prim>::parse(arg($a, 0)));
        let k = |i: usize| <$I as Prim>::parse(arg($a, i));
        match $op {
            "icv_to_num" => format!("{}", x.to_num::<$I>()),
            "icv_checked" => match x.checked_to_num::<$I>() { None => "N".into(), Some(v) => format!("S:{}", v) },
            "icv_saturating" => format!("{}", x.saturating_to_num::<$I>()),
            "icv_wrapping" => format!("{}", x.wrapping_to_num::<$I>()),
            "icv_overflowing" => { let (v, o) = x.overflowing_to_num::<$I>(); format!("{},{}", v, b01(o)) }
            "icv_from_num" => fx::<$F>(<$F>::from_num(k(2))),
            "icv_checked_from" => match <$F>::checked_from_num(k(2)) { None => "N".into(), Some(v) => format!("S:{}", v.to_bits()) },
            "icv_saturating_from" => fx::<$F>(<$F>::saturating_from_num(k(2))),
            "icv_wrapping_from" => fx::<$F>(<$F>::wrapping_from_num(k(2))),
            "icv_wfrom" => fx::<$F>(substrate_fixed::Wrapping::<$F>::from_num(k(2)).0),
            "icv_wto" => format!("{}", substrate_fixed::Wrapping(x).to_num::<$I>()),
            "icv_overflowing_from" => { let (v, o) = <$F>::overflowing_from_num(k(2)); format!("{},{}", v.to_bits(), b01(o)) }
            _ => {
                if let Some(c) = $op.strip_prefix("icmp_") { let y = k(2); cmp_ops!(c, x, y) }
                else if let Some(c) = $op.strip_prefix("icmpr_") { let y = k(2); cmp_ops!(c, y, x) }
                else { "UNKNOWN".to_string() }
            }
        }
    }};
}
fn run_int<F: Fixed>(op: &str, a: &[&str]) -> String
where
    F::Bits: Prim,
    i8: PartialOrd<F>, i16: PartialOrd<F>, i32: PartialOrd<F>, i64: PartialOrd<F>, i128: PartialOrd<F>, isize: PartialOrd<F>,
    u8: PartialOrd<F>, u16: PartialOrd<F>, u32: PartialOrd<F>, u64: PartialOrd<F>, u128: PartialOrd<F>, usize: PartialOrd<F>,
{
    // args: x <inttype> [k]
    match arg(a, 1) {
        "i8" => int_ops!(F, i8, op, a), "i16" => int_ops!(F, i16, op, a), "i32" => int_ops!(F, i32, op, a), "i64" => int_ops!(F, i64, op, a),
        "i128" => int_ops!(F, i128, op, a), "isize" => int_ops!(F, isize, op, a),
        "u8" => int_ops!(F, u8, op, a), "u16" => int_ops!(F, u16, op, a), "u32" => int_ops!(F, u32, op, a), "u64" => int_ops!(F, u64, op, a),
        "u128" => int_ops!(F, u128, op, a), "usize" => int_ops!(F, usize, op, a),
        "bool" => {
            match op {
                "icv_from_num" => fx::<F>(F::from_num(arg(a, 2) == "1")),
                "icv_checked_from" => match F::checked_from_num(arg(a, 2) == "1") { None => "N".into(), Some(v) => format!("S:{}", v.to_bits()) },
                "icv_saturating_from" => fx::<F>(F::saturating_from_num(arg(a, 2) == "1")),
                "icv_wrapping_from" => fx::<F>(F::wrapping_from_num(arg(a, 2) == "1")),
                "icv_wfrom" => fx::<F>(substrate_fixed::Wrapping::<F>::from_num(arg(a, 2) == "1").0),
                "icv_overflowing_from" => { let (v, o) = F::overflowing_from_num(arg(a, 2) == "1"); format!("{},{}", v.to_bits(), b01(o)) }
                _ => "UNKNOWN".to_string(),
            }
        }
        _ => "UNKNOWN".to_string(),
    }
}

// ---- fixed <-> float (bit patterns)
macro_rules! float_ops {
    ($F:ty, $T:ty, $U:ty, $op:expr, $a:expr) => {{
        let x = <$F>::from_bits(<<$F as Fixed>::Bits as Prim>::parse(arg($a, 0)));
        let fl = |i: usize| <$T>::from_bits(arg($a, i).parse::<$U>().unwrap_or_else(|_| bad()));
        match $op {
            "fcv_to" => format!("{}", x.to_num::<$T>().to_bits()),
            "fcv_to_saturating" => format!("{}", x.saturating_to_num::<$T>().to_bits()),
            "fcv_to_wrapping" => format!("{}", x.wrapping_to_num::<$T>().to_bits()),
            "fcv_to_checked" => match x.checked_to_num::<$T>() { None => "N".into(), Some(v) => format!("S:{}", v.to_bits()) },
            "fcv_to_overflowing" => { let (v, o) = x.overflowing_to_num::<$T>(); format!("{},{}", v.to_bits(), b01(o)) }
            "fcv_from_num" => fx::<$F>(<$F>::from_num(fl(2))),
            "fcv_checked_from" => match <$F>::checked_from_num(fl(2)) { None => "N".into(), Some(v) => format!("S:{}", v.to_bits()) },
            "fcv_saturating_from" => fx::<$F>(<$F>::saturating_from_num(fl(2))),
            "fcv_wrapping_from" => fx::<$F>(<$F>::wrapping_from_num(fl(2))),
            "fcv_wfrom" => fx::<$F>(substrate_fixed::Wrapping::<$F>::from_num(fl(2)).0),
            "fcv_overflowing_from" => { let (v, o) = <$F>::overflowing_from_num(fl(2)); format!("{},{}", v.to_bits(), b01(o)) }
            _ => {
                if let Some(c) = $op.strip_prefix("fcmp_") { let y = fl(2); cmp_ops!(c, x, y) }
                else if let Some(c) = $op.strip_prefix("fcmpr_") { let y = fl(2); cmp_ops!(c, y, x) }
                else { "UNKNOWN".to_string() }
            }
        }
    }};
}
fn run_float<F: Fixed>(op: &str, a: &[&str]) -> String where F::Bits: Prim, f32: PartialOrd<F>, f64: PartialOrd<F>, half::f16: PartialOrd<F>, half::bf16: PartialOrd<F> {
    match arg(a, 1) {
        "f32" => float_ops!(F, f32, u32, op, a),
        "f64" => float_ops!(F, f64, u64, op, a),
        "f16" => float_ops!(F, half::f16, u16, op, a),
        "bf16" => float_ops!(F, half::bf16, u16, op, a),
        _ => "UNKNOWN".to_string(),
    }
}

// ---- same type: Ord / Eq / Hash
fn run_same<F: Fixed>(op: &str, a: &[&str]) -> String where F::Bits: Prim {
    let x = F::from_bits(<F::Bits as Prim>::parse(arg(a, 0)));
    let y = F::from_bits(<F::Bits as Prim>::parse(arg(a, 1)));
    match op {
        "same_cmp" => ord(Some(x.cmp(&y))),
        "same_eq" => b01(x == y).to_string(),
        "same_hash_eq" => {
            let mut h1 = DefaultHasher::new(); x.hash(&mut h1);
            let mut h2 = DefaultHasher::new(); y.hash(&mut h2);
            b01(h1.finish() == h2.finish()).to_string()
        }
        _ => "UNKNOWN".to_string(),
    }
}

fn tfh(r: (bool, u128, i8, bool)) -> String {
    // Negative variant: print the i128 value; Unsigned: the u128 value
    if r.0 { format!("1,{},{},{}", r.1 as i128, r.2, b01(r.3)) } else { format!("0,{},{},{}", r.1, r.2, b01(r.3)) }
}

fn hook(op: &str, s: bool, n: u32, f: u32, a: &[&str]) -> String {
    match op {
        // h_to_fixed_helper s n 0 x srcFrac dstFrac dstInt
        "h_to_fixed_helper" => tfh(hooks::to_fixed_helper(s, n, pat(arg(a, 0)), arg_i32(a, 1), arg_u32(a, 2), arg_u32(a, 3))),
        // h_to_float_kind 0 <32|64> 0 bits dstFrac dstInt;  half formats: `0 16 11` = f16, `0 16 8` = bf16 (the frac field carries PREC)
        "h_to_float_kind" => {
            let k = if n == 16 && f == 11 { hooks::to_float_kind_f16(arg(a, 0).parse().unwrap_or_else(|_| bad()), arg_u32(a, 1), arg_u32(a, 2)) }
                    else if n == 16 && f == 8 { hooks::to_float_kind_bf16(arg(a, 0).parse().unwrap_or_else(|_| bad()), arg_u32(a, 1), arg_u32(a, 2)) }
                    else if n == 16 { bad() }
                    else if n == 32 { hooks::to_float_kind_f32(arg(a, 0).parse().unwrap_or_else(|_| bad()), arg_u32(a, 1), arg_u32(a, 2)) }
                    else { hooks::to_float_kind_f64(arg(a, 0).parse().unwrap_or_else(|_| bad()), arg_u32(a, 1), arg_u32(a, 2)) };
            match k.kind { 0 => "nan".into(), 1 => format!("inf,{}", b01(k.neg)), _ => format!("fin,{},{}", b01(k.neg), tfh(k.conv)) }
        }
        // h_from_to_float 0 <32|64> 0 neg abs fracBits intBits
        "h_from_to_float" => {
            let neg = arg(a, 0) == "1"; let abs = pat(arg(a, 1));
            if n == 16 && f == 11 { format!("{}", hooks::from_to_float_helper_f16(neg, abs, arg_u32(a, 2), arg_u32(a, 3))) }
            else if n == 16 && f == 8 { format!("{}", hooks::from_to_float_helper_bf16(neg, abs, arg_u32(a, 2), arg_u32(a, 3))) }
            else if n == 16 { bad() }
            else if n == 32 { format!("{}", hooks::from_to_float_helper_f32(neg, abs, arg_u32(a, 2), arg_u32(a, 3))) }
            else { format!("{}", hooks::from_to_float_helper_f64(neg, abs, arg_u32(a, 2), arg_u32(a, 3))) }
        }
        _ => "UNKNOWN".to_string(),
    }
}

include!("../ext_from.rs");

fn main() {
    serve(|op, s, n, f, a| {
        if let Some(r) = ext_from_op(op, s, n, f, a) { r }
        else if op.starts_with("h_") { hook(op, s, n, f, a) }
        else if op == "cvt_from" || op == "cvt_lossy" {
            let s2 = arg(a, 1) == "1"; let n2 = arg_u32(a, 2); let f2 = arg_u32(a, 3);
            if op == "cvt_from" { sfx_dispatch_from!(s, n, f, s2, n2, f2, run_from(a)) } else { sfx_dispatch_lossy!(s, n, f, s2, n2, f2, run_lossy(a)) }
        }
        else if op.starts_with("cv_") || op.starts_with("cmp_") {
            let s2 = arg(a, 1) == "1"; let n2 = arg_u32(a, 2); let f2 = arg_u32(a, 3);
            sfx_dispatch_pair!(s, n, f, s2, n2, f2, run2(op, a))
        }
        else if op.starts_with("icv_") || op.starts_with("icmp") { sfx_dispatch_small!(s, n, f, run_int(op, a)) }
        else if op.starts_with("fcv_") || op.starts_with("fcmp") { sfx_dispatch!(s, n, f, run_float(op, a)) }
        else if op.starts_with("same_") { sfx_dispatch!(s, n, f, run_same(op, a)) }
        else { "UNKNOWN".to_string() }
    });
}
