//! Extension `Serde` of the codec bin (module of `src/bin/codec.rs`): the serde representation of the fixed-point types and of
//! `Wrapping<F>` (`/repo/src/serdeize.rs`, compiled with the crate's `serde` feature), exercised through `serde_json` and `serde_cbor`.
//!
//! request: `<op> <signed> <nbits> <frac> <arg>`
//!
//! * `serde_ser x` / `serde_ser_w x`            -> hex of `serde_json::to_string(&F::from_bits(x))` (`_w`: of `Wrapping(F::from_bits(x))`);
//!   `serde_ser_pretty` / `serde_ser_pretty_w`  -> the same with `to_string_pretty`;  `E` when the serializer fails;
//! * `serde_de <hex>` / `serde_de_w <hex>`      -> `S:<bits>` when `serde_json::from_slice::<F>` (`Wrapping<F>`) accepts the bytes, `E` on any
//!   error (messages are not compared).  When the bytes are valid UTF-8 the same text is also given to `serde_json::from_str`; the two
//!   entry points must agree, otherwise the answer is `MISMATCH` (never observed);
//! * `serde_rt x` / `serde_rt_w x`              -> `from_slice(to_string(x))`: `S:<bits>` or `E`;
//! * `serde_val x` / `serde_val_w x`            -> `serde_json::to_value` followed by `serde_json::from_value` (the crate's `visit_map`
//!   driven by serde_json's `Value` deserializer instead of the text reader): `S:<bits>`, or `E` when either step fails (a 128-bit
//!   integer outside `i64 ∪ u64` has no `serde_json::Number`); the intermediate `Value` must be the object `{"bits": x}`, otherwise `MISMATCH`;
//! * `serde_cbor_ser x` / `serde_cbor_ser_w x`  -> hex of `serde_cbor::to_vec`, `E` when the serializer fails (CBOR integers are
//!   `-2^64 ..= 2^64 - 1`);
//! * `serde_cbor_de <hex>` / `serde_cbor_de_w <hex>` -> `serde_cbor::from_slice`: `S:<bits>` or `E`;
//! * `serde_cbor_rt x` / `serde_cbor_rt_w x`    -> `from_slice(to_vec(x))`: `S:<bits>`, or `E` when either step fails.
use sfxh::*;
use serde::{de::DeserializeOwned, Serialize};
use substrate_fixed::traits::Fixed;
use substrate_fixed::Wrapping;

pub fn handles(op: &str) -> bool { op.starts_with("serde_") }

fn res<T, E>(r: Result<T, E>, bits: impl Fn(&T) -> String) -> String { match r { Ok(v) => format!("S:{}", bits(&v)), Err(_) => "E".into() } }

fn json_de<T: DeserializeOwned>(bytes: &[u8], bits: impl Fn(&T) -> String) -> String {
    let a = res(serde_json::from_slice::<T>(bytes), &bits);
    if let Ok(text) = std::str::from_utf8(bytes) {
        if res(serde_json::from_str::<T>(text), &bits) != a { return "MISMATCH".into(); }
    }
    a
}

fn json_val<T: Serialize + DeserializeOwned>(x: &T, expect: serde_json::Value, bits: impl Fn(&T) -> String) -> String {
    match serde_json::to_value(x) {
        Err(_) => "E".into(),
        Ok(v) => {
            let mut m = serde_json::Map::new();
            m.insert("bits".to_string(), expect);
            if v != serde_json::Value::Object(m) { return "MISMATCH".into(); }
            res(serde_json::from_value::<T>(v), bits)
        }
    }
}

fn run<F: Fixed + Serialize + DeserializeOwned>(op: &str, a: &[&str]) -> String
where F::Bits: Prim + Serialize, Wrapping<F>: Serialize + DeserializeOwned {
    let x = || F::from_bits(<F::Bits as Prim>::parse(arg(a, 0)));
    let fb = |v: &F| format!("{}", v.to_bits());
    let wb = |v: &Wrapping<F>| format!("{}", v.0.to_bits());
    let ser = |r: Result<Vec<u8>, ()>| match r { Ok(b) => hex(&b), Err(()) => "E".into() };
    match op {
        "serde_ser" => ser(serde_json::to_string(&x()).map(String::into_bytes).map_err(|_| ())),
        "serde_ser_w" => ser(serde_json::to_string(&Wrapping(x())).map(String::into_bytes).map_err(|_| ())),
        "serde_ser_pretty" => ser(serde_json::to_string_pretty(&x()).map(String::into_bytes).map_err(|_| ())),
        "serde_ser_pretty_w" => ser(serde_json::to_string_pretty(&Wrapping(x())).map(String::into_bytes).map_err(|_| ())),
        "serde_de" => json_de::<F>(&unhex(arg(a, 0)), fb),
        "serde_de_w" => json_de::<Wrapping<F>>(&unhex(arg(a, 0)), wb),
        "serde_rt" => match serde_json::to_string(&x()) { Ok(t) => json_de::<F>(t.as_bytes(), fb), Err(_) => "E".into() },
        "serde_rt_w" => match serde_json::to_string(&Wrapping(x())) { Ok(t) => json_de::<Wrapping<F>>(t.as_bytes(), wb), Err(_) => "E".into() },
        "serde_val" => match serde_json::to_value(x().to_bits()) { Ok(e) => json_val(&x(), e, fb), Err(_) => "E".into() },
        "serde_val_w" => match serde_json::to_value(x().to_bits()) { Ok(e) => json_val(&Wrapping(x()), e, wb), Err(_) => "E".into() },
        "serde_cbor_ser" => ser(serde_cbor::to_vec(&x()).map_err(|_| ())),
        "serde_cbor_ser_w" => ser(serde_cbor::to_vec(&Wrapping(x())).map_err(|_| ())),
        "serde_cbor_de" => res(serde_cbor::from_slice::<F>(&unhex(arg(a, 0))), fb),
        "serde_cbor_de_w" => res(serde_cbor::from_slice::<Wrapping<F>>(&unhex(arg(a, 0))), wb),
        "serde_cbor_rt" => match serde_cbor::to_vec(&x()) { Ok(b) => res(serde_cbor::from_slice::<F>(&b), fb), Err(_) => "E".into() },
        "serde_cbor_rt_w" => match serde_cbor::to_vec(&Wrapping(x())) { Ok(b) => res(serde_cbor::from_slice::<Wrapping<F>>(&b), wb), Err(_) => "E".into() },
        _ => "UNKNOWN".to_string(),
    }
}

pub fn typed(op: &str, s: bool, n: u32, f: u32, a: &[&str]) -> String { sfx_dispatch!(s, n, f, run(op, a)) }
