// Ops for the type-level (infallible) conversion traits of convert.rs / traits.rs / wrapping.rs:
// `From` / `LossyFrom` / `LossyInto` between fixed-point types and primitives, `From<F> for Wrapping<F>`.
// Included textually by bin/conv.rs (after dispatch.rs, so the `sfx_dispatch_*` macros are in scope).
//
//   icvt_from        s n f <ity> <k>       D::from(k)                         -> bits of D         (ity: u8..u128, i8..i128, bool)
//   icvt_from_lossy  s n f <ity> <k>       D::lossy_from(k)                   -> bits of D
//   icvt_from_linto  s n f <ity> <k>       LossyInto::<D>::lossy_into(k)      -> bits of D
//   icvt_into        s n 0 <x> <ity>       <ity>::from(x)                     -> integer           (ity incl. usize / isize)
//   icvt_lossy       s n f <x> <ity>       <ity>::lossy_from(x)               -> integer
//   icvt_linto       s n f <x> <ity>       LossyInto::<ity>::lossy_into(x)    -> integer
//   fcvt_from        s n f <x> <f32|f64>   <fty>::from(x)                     -> float bits
//   fcvt_lossy       s n f <x> <f32|f64>   <fty>::lossy_from(x)               -> float bits
//   fcvt_linto       s n f <x> <f32|f64>   LossyInto::<fty>::lossy_into(x)    -> float bits
//   cvt_lossy_into   s n f <x> s2 n2 f2    LossyInto::<D>::lossy_into(x)      -> bits of D
//   w_from           s n f <x>             Wrapping::<F>::from(x).0           -> bits
//   pcvt_lossy       s n 0 <src> <k> <dst> <dst>::lossy_from(k: src)          -> integer / float bits / `nan`   (primitive -> primitive rows)
//   pcvt_linto       s n 0 <src> <k> <dst> LossyInto::<dst>::lossy_into(k)
use substrate_fixed::traits::{LossyFrom, LossyInto};

fn xf_ifrom<I: Prim, D: Fixed + From<I> + LossyFrom<I>>(op: &str, a: &[&str]) -> String where D::Bits: Prim {
    let k = <I as Prim>::parse(arg(a, 1));
    match op {
        "icvt_from" => fx::<D>(D::from(k)),
        "icvt_from_lossy" => fx::<D>(D::lossy_from(k)),
        "icvt_from_linto" => fx::<D>(LossyInto::<D>::lossy_into(k)),
        _ => "UNKNOWN".to_string(),
    }
}
fn xf_bfrom<D: Fixed + From<bool> + LossyFrom<bool>>(op: &str, a: &[&str]) -> String where D::Bits: Prim {
    let k = match arg(a, 1) { "0" => false, "1" => true, _ => bad() };
    match op {
        "icvt_from" => fx::<D>(D::from(k)),
        "icvt_from_lossy" => fx::<D>(D::lossy_from(k)),
        "icvt_from_linto" => fx::<D>(LossyInto::<D>::lossy_into(k)),
        _ => "UNKNOWN".to_string(),
    }
}
fn xf_into<S: Fixed, I: Prim + From<S>>(a: &[&str]) -> String where S::Bits: Prim {
    let x = S::from_bits(<S::Bits as Prim>::parse(arg(a, 0)));
    format!("{}", I::from(x))
}
fn xf_ilossy<S: Fixed, I: Prim + LossyFrom<S>>(op: &str, a: &[&str]) -> String where S::Bits: Prim {
    let x = S::from_bits(<S::Bits as Prim>::parse(arg(a, 0)));
    if op == "icvt_linto" { format!("{}", LossyInto::<I>::lossy_into(x)) } else { format!("{}", I::lossy_from(x)) }
}
trait XfFloat: Copy { fn bits_str(self) -> String; }
impl XfFloat for f32 { fn bits_str(self) -> String { if self.is_nan() { "nan".into() } else { format!("{}", self.to_bits()) } } }
impl XfFloat for f64 { fn bits_str(self) -> String { if self.is_nan() { "nan".into() } else { format!("{}", self.to_bits()) } } }
impl XfFloat for half::f16 { fn bits_str(self) -> String { if self.is_nan() { "nan".into() } else { format!("{}", self.to_bits()) } } }
impl XfFloat for half::bf16 { fn bits_str(self) -> String { if self.is_nan() { "nan".into() } else { format!("{}", self.to_bits()) } } }
#[allow(non_camel_case_types)] type f16 = half::f16;
#[allow(non_camel_case_types)] type bf16 = half::bf16;
fn xf_ffrom<S: Fixed, T: XfFloat + From<S>>(a: &[&str]) -> String where S::Bits: Prim {
    let x = S::from_bits(<S::Bits as Prim>::parse(arg(a, 0)));
    T::from(x).bits_str()
}
fn xf_flossy<S: Fixed>(op: &str, a: &[&str]) -> String where S::Bits: Prim, f32: LossyFrom<S>, f64: LossyFrom<S>, f16: LossyFrom<S>, bf16: LossyFrom<S> {
    let x = S::from_bits(<S::Bits as Prim>::parse(arg(a, 0)));
    match (op, arg(a, 1)) {
        ("fcvt_lossy", "f32") => f32::lossy_from(x).bits_str(),
        ("fcvt_lossy", "f64") => f64::lossy_from(x).bits_str(),
        ("fcvt_linto", "f32") => LossyInto::<f32>::lossy_into(x).bits_str(),
        ("fcvt_linto", "f64") => LossyInto::<f64>::lossy_into(x).bits_str(),
        ("fcvt_lossy", "f16") => f16::lossy_from(x).bits_str(),
        ("fcvt_lossy", "bf16") => bf16::lossy_from(x).bits_str(),
        ("fcvt_linto", "f16") => LossyInto::<f16>::lossy_into(x).bits_str(),
        ("fcvt_linto", "bf16") => LossyInto::<bf16>::lossy_into(x).bits_str(),
        _ => "UNKNOWN".to_string(),
    }
}
fn xf_lossy_into<S: Fixed, D: Fixed + LossyFrom<S>>(a: &[&str]) -> String where S::Bits: Prim, D::Bits: Prim {
    let x = S::from_bits(<S::Bits as Prim>::parse(arg(a, 0)));
    fx::<D>(LossyInto::<D>::lossy_into(x))
}
fn xf_wfrom<F: Fixed>(a: &[&str]) -> String where F::Bits: Prim {
    let x = F::from_bits(<F::Bits as Prim>::parse(arg(a, 0)));
    fx::<F>(substrate_fixed::Wrapping::<F>::from(x).0)
}

// ---- primitive -> primitive `LossyFrom` rows (`lossy!`, `int_to_float_lossy_lossless!`, `LossyFrom<f64> for f32`)
trait XfPrim: Copy { fn xparse(s: &str) -> Self; fn xshow(self) -> String; }
macro_rules! xf_prim_int { ($($T:ty),*) => { $(
    impl XfPrim for $T { fn xparse(s: &str) -> $T { s.parse::<$T>().unwrap_or_else(|_| bad()) } fn xshow(self) -> String { format!("{}", self) } }
)* }; }
xf_prim_int! { i8, i16, i32, i64, i128, isize, u8, u16, u32, u64, u128, usize }
impl XfPrim for bool { fn xparse(s: &str) -> bool { match s { "0" => false, "1" => true, _ => bad() } } fn xshow(self) -> String { b01(self).to_string() } }
impl XfPrim for f32 { fn xparse(s: &str) -> f32 { f32::from_bits(s.parse::<u32>().unwrap_or_else(|_| bad())) } fn xshow(self) -> String { self.bits_str() } }
impl XfPrim for f64 { fn xparse(s: &str) -> f64 { f64::from_bits(s.parse::<u64>().unwrap_or_else(|_| bad())) } fn xshow(self) -> String { self.bits_str() } }
impl XfPrim for f16 { fn xparse(s: &str) -> f16 { f16::from_bits(s.parse::<u16>().unwrap_or_else(|_| bad())) } fn xshow(self) -> String { self.bits_str() } }
impl XfPrim for bf16 { fn xparse(s: &str) -> bf16 { bf16::from_bits(s.parse::<u16>().unwrap_or_else(|_| bad())) } fn xshow(self) -> String { self.bits_str() } }
fn xf_prim<S: XfPrim, D: XfPrim + LossyFrom<S>>(op: &str, k: &str) -> String {
    let k = S::xparse(k);
    if op == "pcvt_linto" { LossyInto::<D>::lossy_into(k).xshow() } else { D::lossy_from(k).xshow() }
}
macro_rules! xf_prim_rows {
    ($op:expr, $src:expr, $k:expr, $dst:expr; $($S:ident -> $($D:ident)*;)*) => {
        $( $( if $src == stringify!($S) && $dst == stringify!($D) { return xf_prim::<$S, $D>($op, $k); } )* )*
        "SKIP".to_string()
    };
}
fn xf_prim_dispatch(op: &str, src: &str, k: &str, dst: &str) -> String {
    // the rows of convert.rs (lines 688-849), cfg(feature = "f16") rows excluded
    xf_prim_rows! { op, src, k, dst;
        bool -> bool i8 i16 i32 i64 i128 isize u8 u16 u32 u64 u128 usize;
        i8 -> i8 i16 i32 i64 i128 isize f32 f64;
        i16 -> i16 i32 i64 i128 isize f32 f64;
        i32 -> i32 i64 i128 f32 f64;
        i64 -> i64 i128 f32 f64;
        i128 -> i128 f32 f64;
        isize -> isize f32 f64;
        u8 -> u8 i16 i32 i64 i128 isize u16 u32 u64 u128 usize f32 f64;
        u16 -> u16 i32 i64 i128 u32 u64 u128 usize f32 f64;
        u32 -> u32 i64 i128 u64 u128 f32 f64;
        u64 -> u64 i128 u128 f32 f64;
        u128 -> u128 f32 f64;
        usize -> usize f32 f64;
        f32 -> f32 f64;
        f64 -> f64 f32;
        // the cfg(feature = "f16") rows of convert.rs (688-835)
        i8 -> bf16 f16; i16 -> bf16 f16; i32 -> bf16 f16; i64 -> bf16 f16; i128 -> bf16 f16; isize -> bf16 f16;
        u8 -> bf16 f16; u16 -> bf16 f16; u32 -> bf16 f16; u64 -> bf16 f16; u128 -> bf16 f16; usize -> bf16 f16;
        f16 -> f16 bf16 f32 f64;
        bf16 -> bf16 f16 f32 f64;
        f32 -> f16 bf16;
        f64 -> f16 bf16;
    }
}

/// `Some(answer)` when `op` belongs to this family
fn ext_from_op(op: &str, s: bool, n: u32, f: u32, a: &[&str]) -> Option<String> {
    Some(match op {
        "icvt_from" | "icvt_from_lossy" | "icvt_from_linto" => {
            if arg(a, 0) == "bool" { sfx_dispatch_bfrom!(s, n, f, xf_bfrom(op, a)) } else { sfx_dispatch_ifrom!(arg(a, 0), s, n, f, xf_ifrom(op, a)) }
        }
        "icvt_into" => if f == 0 { sfx_dispatch_into!(s, n, arg(a, 1), xf_into(a)) } else { "SKIP".to_string() },
        "icvt_lossy" | "icvt_linto" => sfx_dispatch_ilossy!(s, n, f, arg(a, 1), xf_ilossy(op, a)),
        "fcvt_from" => sfx_dispatch_ffrom!(arg(a, 1), s, n, f, xf_ffrom(a)),
        "fcvt_lossy" | "fcvt_linto" => sfx_dispatch!(s, n, f, xf_flossy(op, a)),
        "cvt_lossy_into" => { let s2 = arg(a, 1) == "1"; let n2 = arg_u32(a, 2); let f2 = arg_u32(a, 3); sfx_dispatch_lossy!(s, n, f, s2, n2, f2, xf_lossy_into(a)) }
        "w_from" => sfx_dispatch!(s, n, f, xf_wfrom(a)),
        "pcvt_lossy" | "pcvt_linto" => xf_prim_dispatch(op, arg(a, 0), arg(a, 1), arg(a, 2)),
        _ => return None,
    })
}
