//! Common parts of the correspondence harness: request parsing, canonical answers, panic capture.
use std::io::{self, BufRead, Write};
use std::panic::{catch_unwind, AssertUnwindSafe};

/// A primitive integer used as `Fixed::Bits`.
pub trait Prim: Copy + std::fmt::Display + PartialEq + 'static {
    const SIGNED: bool;
    const NBITS: u32;
    fn from_pat(p: u128) -> Self;
    fn to_pat(self) -> u128;
    fn parse(s: &str) -> Self;
}
macro_rules! prim {
    ($($T:ty, $signed:expr, $n:expr);*) => { $(
        impl Prim for $T {
            const SIGNED: bool = $signed;
            const NBITS: u32 = $n;
            #[inline] fn from_pat(p: u128) -> $T { p as $T }
            #[inline] fn to_pat(self) -> u128 { self as u128 }
            #[inline] fn parse(s: &str) -> $T { s.parse::<$T>().unwrap_or_else(|_| bad()) }
        }
    )* };
}
prim! { i8, true, 8; i16, true, 16; i32, true, 32; i64, true, 64; i128, true, 128; isize, true, 64;
        u8, false, 8; u16, false, 16; u32, false, 32; u64, false, 64; u128, false, 128; usize, false, 64 }

/// canonical decimal of an `nbits` two's-complement pattern
pub fn canon(signed: bool, nbits: u32, pat: u128) -> String {
    let pat = if nbits == 128 { pat } else { pat & ((1u128 << nbits) - 1) };
    if signed && nbits < 128 && (pat >> (nbits - 1)) & 1 == 1 {
        format!("{}", (pat as i128) - (1i128 << nbits))
    } else if signed {
        format!("{}", pat as i128)
    } else {
        format!("{}", pat)
    }
}
/// parse a canonical decimal (possibly negative, possibly ≥ 2^127) into a pattern
pub fn pat(s: &str) -> u128 {
    if let Some(r) = s.strip_prefix('-') {
        (r.parse::<u128>().unwrap_or_else(|_| bad())).wrapping_neg()
    } else {
        s.parse::<u128>().unwrap_or_else(|_| bad())
    }
}
pub fn b01(b: bool) -> &'static str { if b { "1" } else { "0" } }
pub fn hex(bytes: &[u8]) -> String { bytes.iter().map(|b| format!("{:02x}", b)).collect() }
pub fn unhex(s: &str) -> Vec<u8> {
    if s == "-" { return Vec::new(); }
    (0..s.len() / 2).map(|i| u8::from_str_radix(&s[2 * i..2 * i + 2], 16).expect("bad hex")).collect()
}

/// payload of a panic raised by the harness itself for a malformed request (never by the library)
pub struct BadReq;
pub fn bad() -> ! { std::panic::panic_any(BadReq) }
/// `i`-th argument of the request
pub fn arg<'a>(a: &[&'a str], i: usize) -> &'a str { match a.get(i) { Some(s) => s, None => bad() } }
pub fn arg_u32(a: &[&str], i: usize) -> u32 { arg(a, i).parse::<u32>().unwrap_or_else(|_| bad()) }
pub fn arg_i32(a: &[&str], i: usize) -> i32 { arg(a, i).parse::<i32>().unwrap_or_else(|_| bad()) }

/// run `f`, mapping a library panic to the answer `P` (and a malformed request to `BAD`)
pub fn guard<F: FnOnce() -> String>(f: F) -> String {
    match catch_unwind(AssertUnwindSafe(f)) {
        Ok(s) => s,
        Err(e) => if e.is::<BadReq>() { "BAD".to_string() } else { "P".to_string() },
    }
}

/// main loop: one request per line on stdin, `request => answer` on stdout
pub fn serve<F: Fn(&str, bool, u32, u32, &[&str]) -> String>(run: F) {
    if std::env::var_os("SFX_SHOW_PANICS").is_none() { std::panic::set_hook(Box::new(|_| {})); }
    let flush_each = std::env::var_os("SFX_FLUSH").is_some();
    let stdin = io::stdin();
    let stdout = io::stdout();
    let mut out = io::BufWriter::with_capacity(1 << 20, stdout.lock());
    for line in stdin.lock().lines() {
        let line = line.expect("read");
        let t = line.trim();
        if t.is_empty() || t.starts_with('#') { continue; }
        let parts: Vec<&str> = t.split(' ').collect();
        if parts.len() < 4 { writeln!(out, "{} => BAD", t).unwrap(); continue; }
        let s = parts[1] == "1";
        let n: u32 = parts[2].parse().expect("n");
        let f: u32 = parts[3].parse().expect("f");
        let a = guard(|| run(parts[0], s, n, f, &parts[4..]));
        writeln!(out, "{} => {}", t, a).unwrap();
        if flush_each { out.flush().unwrap(); }
    }
    out.flush().unwrap();
}
