// Dispatch tables for the type-level (infallible) conversion impls of convert.rs between fixed-point types and primitives
// (`int_to_fixed!`, `bool_to_fixed!`, `fixed_to_int!`, `fixed_to_int_lossy!`, `fixed_to_float!`).  These impls exist only for the
// type pairs that satisfy their where-clauses, so every admissible (primitive, fixed type) pair used by the check is
// instantiated explicitly; a pair that does not satisfy the bounds would not compile.  Included by build.rs.

/// fractional-bit counts instantiated for a destination/source whose admissible range is `lo..=hi`
fn ext_from_fracs(lo: u32, hi: u32, mid: u32) -> Vec<u32> {
    let mut v: Vec<u32> = vec![lo, lo + 1, mid, hi.saturating_sub(1), hi].into_iter().filter(|f| *f >= lo && *f <= hi).collect();
    v.sort();
    v.dedup();
    v
}

fn ext_from_dispatch(table: &[(u32, Vec<u32>)], s: &mut String) {
    let widths = [8u32, 16, 32, 64, 128];
    let tyname = |sg: bool, n: u32, f: u32| format!("substrate_fixed::Fixed{}{}<substrate_fixed::types::extra::U{}>", if sg { "I" } else { "U" }, n, f);
    let iname = |sg: bool, n: u32| format!("{}{}", if sg { "i" } else { "u" }, n);
    let mid = |n: u32| if n == 8 { 3 } else { n / 2 - 1 };
    let signs = [(false, false), (true, true), (false, true)]; // U->U, I->I, U->I; signed -> unsigned is never offered

    // ---- int_to_fixed!: From<int> / LossyFrom<int> for Fixed: `srcBits <= C - FracDst`, C = dstBits (same sign) or dstBits-1 (U->I);
    //      same width: only FracDst = U0 and same signedness
    s.push_str("macro_rules! sfx_dispatch_ifrom {\n    ($ity:expr, $s:expr, $n:expr, $f:expr, $run:ident ( $($arg:expr),* )) => {\n        match ($ity, $s, $n, $f) {\n");
    for &(ss, ds) in &signs { for &sn in &widths { for &dn in &widths {
        if sn > dn { continue; }
        let fr: Vec<u32> = if sn == dn { if ss == ds { vec![0] } else { vec![] } }
                           else { let c = if ss == ds { dn } else { dn - 1 }; ext_from_fracs(0, c - sn, (c - sn) / 2) };
        for f in fr {
            s.push_str(&format!("            (\"{}\", {}, {}, {}) => $run::<{}, {}>($($arg),*),\n", iname(ss, sn), ds, dn, f, iname(ss, sn), tyname(ds, dn, f)));
        }
    } } }
    s.push_str("            _ => \"SKIP\".to_string(),\n        }\n    };\n}\n");

    // ---- bool_to_fixed!: `1 <= C - FracDst`
    s.push_str("macro_rules! sfx_dispatch_bfrom {\n    ($s:expr, $n:expr, $f:expr, $run:ident ( $($arg:expr),* )) => {\n        match ($s, $n, $f) {\n");
    for &ds in &[false, true] { for &dn in &widths {
        let c = if ds { dn - 1 } else { dn };
        for f in ext_from_fracs(0, c - 1, mid(dn)) {
            s.push_str(&format!("            ({}, {}, {}) => $run::<{}>($($arg),*),\n", ds, dn, f, tyname(ds, dn, f)));
        }
    } }
    s.push_str("            _ => \"SKIP\".to_string(),\n        }\n    };\n}\n");

    // ---- fixed_to_int!: From<Fixed<U0>> for int: same sign and dst at least as wide, or U->I strictly wider;
    //      usize/isize: from 8-bit (incl. U8 -> isize) and from 16-bit of the same signedness only
    s.push_str("macro_rules! sfx_dispatch_into {\n    ($s:expr, $n:expr, $ity:expr, $run:ident ( $($arg:expr),* )) => {\n        match ($s, $n, $ity) {\n");
    for &(ss, ds) in &signs { for &sn in &widths {
        for &dn in &widths {
            if (ss == ds && sn <= dn) || (ss != ds && sn < dn) {
                s.push_str(&format!("            ({}, {}, \"{}\") => $run::<{}, {}>($($arg),*),\n", ss, sn, iname(ds, dn), tyname(ss, sn, 0), iname(ds, dn)));
            }
        }
        let size = if ds { "isize" } else { "usize" };
        if (sn == 8) || (sn == 16 && ss == ds) {
            s.push_str(&format!("            ({}, {}, \"{}\") => $run::<{}, {}>($($arg),*),\n", ss, sn, size, tyname(ss, sn, 0), size));
        }
    } }
    s.push_str("            _ => \"SKIP\".to_string(),\n        }\n    };\n}\n");

    // ---- fixed_to_int_lossy!: LossyFrom<Fixed> for int: `srcBits - FracSrc <= C`, C = dstBits (same sign) or dstBits-1 (U->I);
    //      usize/isize are bounded as 16-bit types
    s.push_str("macro_rules! sfx_dispatch_ilossy {\n    ($s:expr, $n:expr, $f:expr, $ity:expr, $run:ident ( $($arg:expr),* )) => {\n        match ($s, $n, $f, $ity) {\n");
    for &(ss, ds) in &signs { for &sn in &widths {
        let mut dsts: Vec<(String, u32)> = widths.iter().map(|&dn| (iname(ds, dn), dn)).collect();
        dsts.push(((if ds { "isize" } else { "usize" }).to_string(), 16));
        for (dname, db) in dsts {
            let c = if ss == ds { db } else { db - 1 };
            let lo = if sn > c { sn - c } else { 0 };
            for f in ext_from_fracs(lo, sn, mid(sn)) {
                s.push_str(&format!("            ({}, {}, {}, \"{}\") => $run::<{}, {}>($($arg),*),\n", ss, sn, f, dname, tyname(ss, sn, f), dname));
            }
        }
    } }
    s.push_str("            _ => \"SKIP\".to_string(),\n        }\n    };\n}\n");

    // ---- fixed_to_float!: From<Fixed> for f32 (8/16-bit sources) and f64 (8/16/32-bit sources), every Frac of the typed table
    s.push_str("macro_rules! sfx_dispatch_ffrom {\n    ($fty:expr, $s:expr, $n:expr, $f:expr, $run:ident ( $($arg:expr),* )) => {\n        match ($fty, $s, $n, $f) {\n");
    for (fty, ftyname, maxn) in [("f32", "f32", 16u32), ("f64", "f64", 32u32), ("f16", "half::f16", 8u32)] {   // the f16 row is cfg(feature = "f16")
        for (n, fs_) in table { if *n <= maxn { for f in fs_ { for sg in [false, true] {
            s.push_str(&format!("            (\"{}\", {}, {}, {}) => $run::<{}, {}>($($arg),*),\n", fty, sg, n, f, tyname(sg, *n, *f), ftyname));
        } } } }
    }
    s.push_str("            _ => \"SKIP\".to_string(),\n        }\n    };\n}\n");
}
