"""Request generator for the crate's `az` feature (`src/cast.rs`): the impls of az::{Cast, CheckedCast, SaturatingCast, WrappingCast,
OverflowingCast, StaticCast} between fixed-point types, fixed <-> primitive integers / bool, fixed <-> f32 / f64.  Bin `cast`; ops and
formats: see harness/src/bin/cast.rs (`az_<form>`, `azi_<form>[_from]`, `azf_<form>[_from]`, <form> = cast checked saturating wrapping
overflowing static).

The layouts enumerated here are exactly the ones the harness instantiates (pair table `sfx_dispatch_pair`, `sfx_dispatch_small` for the integer
directions, the typed table for the float directions), so no request is answered SKIP.  Operands are directed at the decision points of
a conversion: the destination's range ends (and the first value beyond each) mapped back into the source grid +-2, the source's own range
ends / 0 / +-1 ulp / +-ONE, 2^k boundaries and neighbours, values that lose fractional bits (floor toward -inf of negatives), floats
adjacent to grid ties and to the range ends, subnormals, NaN / +-inf.
"""
import random
import sfxgen as G

FORMS = ['cast', 'checked', 'saturating', 'wrapping', 'overflowing', 'static']

def req(op, s, n, f, *args):
    return f"{op} {s} {n} {f} " + ' '.join(str(a) for a in args)

def scale(tier, q, t):
    return q if tier == 'quick' else t

def back(e, f_src, f_dst):
    """the destination-grid integer `e` (value e / 2^f_dst) on the source grid, toward -inf"""
    d = f_src - f_dst
    return e << d if d >= 0 else e >> (-d)

def directed(S, D):
    """source values of layout S whose image decides overflow / saturation / wrapping in layout D"""
    (s1, n1, f1), (s2, n2, f2) = S, D
    lo1, hi1 = G.rng_range(s1, n1)
    lo2, hi2 = G.rng_range(s2, n2)
    out = set(G.crit(s1, n1, f1))
    # the destination's range ends, the first value beyond them, twice the range (wraps to the other end), the sign-bit boundary
    for e in (lo2, lo2 - 1, hi2, hi2 + 1, 2 * (hi2 + 1) - 1, 2 * (hi2 + 1), (hi2 + 1) >> 1, 2 * lo2, 0, -1, 1):
        b = back(e, f1, f2)
        for d in (-2, -1, 0, 1, 2):
            out.add(G.clip(s1, n1, b + d))
        # last source value below the next destination step (all discarded bits set)
        out.add(G.clip(s1, n1, back(e + 1, f1, f2) - 1))
    # 2^k boundaries of the source around the destination's integer-bit count and the discarded-bit count
    ks = {0, 1, n1 - 1, n1 - 2, max(f1 - f2, 0), max(f1 - f2 - 1, 0), min(max(n2 - f2 + f1, 0), n1 - 1), min(max(n2 - f2 + f1 - 1, 0), n1 - 1)}
    for k in ks:
        p = 1 << k
        for v in (p, p - 1, p + 1, -p, -p - 1, -p + 1):
            out.add(G.clip(s1, n1, v))
    return out

def values(rng, S, D, nrel, nrand):
    (s1, n1, f1), (s2, n2, f2) = S, D
    vals = directed(S, D)
    E1 = G.edges(s1, n1, f1)
    E2 = G.edges(s2, n2, f2)
    for _ in range(nrel):
        vals.add(G.related(rng, s2, n2, f2, s1, n1, f1, E2)[1])
    for _ in range(nrand):
        vals.add(G.rand_val(rng, s1, n1, f1, E1))
    return sorted(vals)

def emit_forms(rng, out, tier, vals, mk, nfull):
    """every value in the checked + overflowing form (these two determine the exact result and the overflow flag) and two more forms in rotation;
    `nfull` sampled values (plus the first/last) in all six forms"""
    full = set(rng.sample(vals, min(nfull, len(vals)))) | set(vals[:2]) | set(vals[-2:]) if tier == 'quick' else set(vals)
    rest = ['cast', 'saturating', 'wrapping', 'static']
    for i, x in enumerate(vals):
        if x in full:
            fms = FORMS
        else:
            fms = ['checked', 'overflowing', rest[i % 4], rest[(i + 1 + (i // 4) % 3) % 4]]
        for fm in fms:
            out.append(mk(fm, x))

def float_values(rng, tier, s, n, f, prec):
    """bit patterns for the fixed -> float direction: edges, rounding-boundary magnitudes (prec significant bits followed by 100..0 / 011..1 / 100..01)"""
    lo, hi = G.rng_range(s, n)
    one = 1 << f
    vals = {lo, lo + 1, hi, hi - 1, 0, 1, 2, 3, one, one - 1, one + 1, (1 << (n - 1)) - 1, (1 << (n // 2)), (1 << (n // 2)) - 1}
    if s:
        vals |= {-1, -2, -one, -one - 1, -one + 1}
    E = G.edges(s, n, f)
    vals.update(rng.sample(E, min(scale(tier, 8, 10 ** 6), len(E))))
    for _ in range(scale(tier, 14, 600)):
        k = rng.randint(0, n)
        m = rng.getrandbits(k) if k else 0
        if rng.random() < 0.6 and k > prec + 1:
            top = (m >> (k - prec)) << (k - prec)
            m = top | rng.choice([1 << (k - prec - 1), (1 << (k - prec - 1)) - 1, (1 << (k - prec - 1)) + 1, 0])
            if rng.random() < 0.3:
                m = (((1 << prec) - 1) << (k - prec)) | rng.choice([1 << (k - prec - 1), (1 << (k - prec - 1)) - 1])   # rounds up into the next binade
        vals.add(G.clip(s, n, m if not s or rng.random() < 0.5 else -m))
    return sorted(x for x in vals if lo <= x <= hi)

def gen(tier, seed, unit, nunits):
    out = []
    P = G.pair_layouts()
    items = [('ff', (A, B)) for A in P for B in P]
    items += [('fi', (L, ty)) for L in G.small_layouts() for ty in G.INT_TYPES]
    items += [('if', (L, ty)) for L in G.small_layouts() for ty in G.INT_TYPES]
    items += [('bf', L) for L in G.small_layouts()]
    items += [('tf', (L, fmt)) for L in G.typed_layouts(tier) for fmt in G.FLOATS]
    items += [('ft', (L, fmt)) for L in G.typed_layouts(tier) for fmt in G.FLOATS]
    for i, (kind, p) in enumerate(items):
        if i % nunits != unit:
            continue
        rng = random.Random(f'{seed}/ExtCast/{kind}/{p}')
        if kind == 'ff':
            (s1, n1, f1), (s2, n2, f2) = p
            vals = values(rng, p[0], p[1], scale(tier, 8, 250), scale(tier, 6, 250))
            emit_forms(rng, out, tier, vals, lambda fm, x: req('az_' + fm, s1, n1, f1, x, s2, n2, f2), 6)
        elif kind == 'fi':
            (s, n, f), ty = p
            si, ni = G.INT_TYPES[ty]
            vals = values(rng, (s, n, f), (si, ni, 0), scale(tier, 6, 400), scale(tier, 4, 300))
            emit_forms(rng, out, tier, vals, lambda fm, x: req('azi_' + fm, s, n, f, x, ty), 5)
        elif kind == 'if':
            (s, n, f), ty = p
            si, ni = G.INT_TYPES[ty]
            vals = values(rng, (si, ni, 0), (s, n, f), scale(tier, 6, 400), scale(tier, 4, 300))
            emit_forms(rng, out, tier, vals, lambda fm, k: req('azi_' + fm + '_from', s, n, f, 0, ty, k), 5)
        elif kind == 'bf':
            s, n, f = p
            for fm in FORMS:
                for k in (0, 1):
                    out.append(req('azi_' + fm + '_from', s, n, f, 0, 'bool', k))
        elif kind == 'tf':
            (s, n, f), fmt = p
            nb, prec = G.FLOATS[fmt]
            vals = float_values(rng, tier, s, n, f, prec)
            full = set(rng.sample(vals, min(6, len(vals)))) | {vals[0], vals[-1]} if tier == 'quick' else set(vals)
            for j, x in enumerate(vals):
                for fm in (FORMS if x in full else ['cast', FORMS[1 + j % 5]]):
                    out.append(req('azf_' + fm, s, n, f, x, fmt))
        elif kind == 'ft':
            (s, n, f), fmt = p
            fl = G.float_specials(fmt) + G.layout_floats(rng, fmt, s, n, f, scale(tier, 30, 1000)) + [G.rand_float(rng, fmt) for _ in range(scale(tier, 8, 400))]
            fl = sorted(set(fl))
            full = set(G.float_specials(fmt)) | set(rng.sample(fl, min(6, len(fl)))) if tier == 'quick' else set(fl)
            rest = ['cast', 'saturating', 'wrapping', 'static']
            for j, b in enumerate(fl):
                for fm in (FORMS if b in full else ['checked', 'overflowing', rest[j % 4], rest[(j + 1 + (j // 4) % 3) % 4]]):
                    out.append(req('azf_' + fm + '_from', s, n, f, 0, fmt, b))
    return {'cast': out}
