HOOK_COMMITS = ['bf32749', 'ca41ce7', '513c013']
FIX_COMMITS = ['f0a070f', '9d43084', '8b6f7d6', '44b358d']
NOTES = ('Machine-checked proof in Lean 4 over a hand-written model, tied to /repo on every run by a translator (data) and a '
         'differential correspondence check (code). See DESIGN.md. Repaired defects are listed in known_findings.txt as fixed: lines.')
NOT_YET = {}
COMMON_NOTE = ('Trusted: Lean kernel; axioms propext/Classical.choice/Quot.sound only (audited with #print axioms on every run); the model is tied to the '
               'code by differential execution on generated requests in two build profiles (sampled, exhaustive only where stated) and by the translator; '
               'Rust primitive-integer semantics as documented.')
CLAIMED = {
    'C01': dict(
        text='Theorems (SfxProps.C01) state that the modelled mul_overflow/div_overflow (widening and 128-bit fallback) return the exactly rounded '
             'product/quotient with the exact overflow flag for every layout and operand pair; correspondence ties the model to the code on all 507 '
             'layouts (hooks) and the public forms (typed), in both build profiles. Theorem status (full/partial) is recorded in the evidence.',
        design_ref='7/C01', note=COMMON_NOTE, technique='Lean 4 proof over executable model + differential correspondence'),
    'C02': dict(
        text='Theorems (SfxProps.C02): each checked/saturating/wrapping/overflowing form of the modelled operations equals the documented function of one '
             'exact result and has no debug-only panic; correspondence on the public API in both profiles. '
             'Also proved and exercised (SfxProps/C02Ops.lean, request fprog): the operator trait impls of the plain types in every variant (by value / by reference / assigning, integer right- and left-hand sides, shifts with the 12 amount types, Sum/Product): each program of any length equals the documented run under both profiles (exact result wrapped in release, panic under checks exactly when it does not fit), and the release run is the Wrapping<F> run.',
        design_ref='7/C02', note=COMMON_NOTE, technique='Lean 4 proof over executable model + differential correspondence'),
    'C10': dict(
        text='Theorems (SfxProps.C10): encode has width/8 bytes, equals to_le_bytes and ignores the fractional-bit count; decode(encode a ++ rest) = (a, |rest|); '
             'short input fails; le/be/ne byte views and from_*_bytes are mutually inverse bijections; the struct description regenerated from lib.rs '
             '(fields, repr, derives, no #[codec] attribute, no manual impl) is checked by a theorem over Generated.lean. Correspondence on the public '
             'Encode/Decode/MaxEncodedLen API and byte views (8-bit exhaustive), under both build profiles (a seeded hand-written Encode that only panics under overflow checks showed the need). '
             'SfxProps/C10Serde.lean: the serde representation (crate feature serde, through serde_json and serde_cbor, both offline): ser = exactly {"bits":<canonical decimal>} independent of the layout, '
             'de(ser x) = x, out-of-range integers rejected, Wrapping identical, white space and the sequence form accepted; 0.3 M requests incl. ~120 rejection classes.',
        design_ref='7/C10', note=COMMON_NOTE + ' parity-scale-codec derive semantics (fields in order, PhantomData encodes to nothing) are assumed and cross-checked by the correspondence.',
        technique='Lean 4 proof over executable model + translator-checked struct description + differential correspondence'),
    'C06': dict(
        text='Theorem SfxProps.C06.holds (full strength, all 507 layouts incl. 0 and 1 integer bits): each overflowing_{ceil,floor,round,round_ties_to_even} equals '
             '(exact rounding mod 2^n, exact flag); checked/saturating/wrapping/plain forms follow; round_to_zero = truncation without any check firing; int+frac split. '
             'Mask constants INT_MASK/FRAC_MASK/INT_LSB/FRAC_MSB proved from their bit-operation definitions. Correspondence: all 23 public methods, 8-bit exhaustive on '
             'all 18 layouts, both profiles.',
        design_ref='7/C06', note=COMMON_NOTE, technique='Lean 4 proof over executable model + differential correspondence'),
    'C07': dict(
        text='Theorem SfxProps.C07.holds (full strength, all layouts, all operands): % = truncated remainder, rem_euclid = Euclidean remainder, '
             'div_euclid forms = the four documented functions of the exact Euclidean quotient, likewise for primitive-integer divisors (incl. the divisor '
             'whose fixed-point image does not fit and the unsigned-arithmetic tail of rem_euclid_int); zero divisor: None / documented panic; no check fires. '
             'The div_euclid family was repaired in /repo (fix 44b358d) after the check reproduced the defect. Correspondence: 19 public methods, both profiles. '
             'SfxProps/C07Forms.lean adds wrapping_rem_int / overflowing_rem_int (inherent and trait-provided), which the first version had missed (found by the coverage measurement).',
        design_ref='7/C07', note=COMMON_NOTE, technique='Lean 4 proof over executable model + differential correspondence'),
    'C18': dict(
        text='Theorem SfxProps.C18.holds: for every layout, every start value and every well-formed program of Wrapping<F> operations of ANY length, the modelled run '
             'equals the documented run (exact result reduced mod 2^n at each step, shift amounts reduced mod the width, panic only for a zero divisor) and is identical '
             'under both build profiles; built on the C01/C02/C06/C07 theorems. Correspondence: programs of 1..12 steps over every impl variant (by value / by reference / '
             'assigning, 12 shift-amount types, integer right-hand sides, sum/product) in both profiles; Wrapping::from_num (fixed, 12 integer types, bool, f32/f64), Wrapping::to_num and '
             'Wrapping::from_str / from_str_binary/_octal/_hex are exercised through their own entry points and answered by the wrapping forms of the C04/C05/C08 models; '
             'SfxProps/C18Entry.lean (from_num_fixed, from_num_float, from_str) restates what is proved about those forms in C18\'s terms.',
        design_ref='7/C18', note=COMMON_NOTE, technique='Lean 4 proof (induction over programs) over executable model + differential correspondence'),
    'C04': dict(
        text='Theorem SfxProps.C04.holds (full strength): for EVERY ordered pair of valid layouts (integers = zero-fraction layouts) and every source value the '
             'overflowing/checked/wrapping/saturating/plain conversion forms equal the documented functions of the exact result floor(x*2^fd/2^fs); From is '
             'value-preserving and cannot overflow under its type-level bound, LossyFrom loses only fractional bits, and the bound is tight (bound_tight). Built on a '
             'proved specification of to_fixed_helper (neg/dir/bits/overflow, all shift amounts incl. >= 128). Correspondence: helper hook on all primitives, typed '
             'conversions for every family pair x {0, mid, n}^2 fractional bits and all 12 integer types + bool, both profiles. The From/LossyFrom admissibility table of '
             'convert.rs is not yet regenerated by the translator (the predicate is stated in Lean by hand). '
             'SfxProps/C04Prim.lean: the type-level From/LossyFrom impls between fixed-point types and primitives (int, bool, f32/f64; 287 impl rows extracted by the translator into GeneratedConv.lean and proved sound row by row), exact/floor/nearest-even as documented, instantiated per admissible pair by the harness.',
        design_ref='7/C04', note=COMMON_NOTE, technique='Lean 4 proof over executable model + differential correspondence'),
    'C05': dict(
        text='Theorem SfxProps.C05.holds (full strength, f32 and f64, all 507 layouts): float->fixed gives the grid value nearest to the exact float value (ties to even) under '
             'the four policies with overflow decided on the rounded value; NaN/infinity are rejected as documented; fixed->float equals the textbook IEEE-754 '
             'round-to-nearest-even (subnormals, overflow to infinity) and that textbook definition is itself proved nearest/ties-to-even. Four defects found by this check '
             'were repaired in /repo (top binade/NaN classification, subnormal scale, -0.0). Correspondence: both helper hooks on all layouts + the public API, both profiles.',
        design_ref='7/C05', note=COMMON_NOTE, technique='Lean 4 proof over executable model + differential correspondence'),
    'C17': dict(
        text='Theorem SfxProps.C17.holds: for ALL layouts and operands the iteration count recorded by the model of sqrt/log2/ln/exp/pow/sin/cos/tan is at most 4*width+64 '
             '(sharper per-function bounds in `sharp`). The model gives the two data-dependent loops fuel (halving: width+1; range reduction: 2 after the repaired remainder step) and '
             'turns fuel exhaustion into a panic; that this panic is unreachable is part of C12 and is exercised by the correspondence, which compares the hook counter of the real '
             '(fuel-less) loops with the model count on every request incl. MIN/MAX/1ulp. The unbounded range-reduction loops were repaired in /repo (fix c0749e7).',
        design_ref='7/C17', note=COMMON_NOTE + ' Hook: thread-local counter incremented in each loop body of transcendental.rs under the guard.',
        technique='Lean 4 proof (structural tick bounds) over executable model + hook-counter correspondence'),
    'C03': dict(
        text='Theorems SfxProps.C03.fixed_holds / float_holds (full strength): for EVERY ordered pair of valid layouts (integers = zero-fraction layouts, both operand orders) '
             'partial_cmp and the six operators equal the comparison of the exact values; for f32/f64 finite floats compare by exact value in both operand orders, NaN is unordered '
             'and unequal, infinities lie outside; same-type Ord/Eq (and Hash, derived from the bits) coincide with the value order. Four defects found by this check were repaired '
             'in /repo (sign of converted bits, top binade/NaN, subnormal scale, -0.0). Correspondence: typed operators for every family pair x {0,mid,n}^2, 12 integer types, f32/f64.',
        design_ref='7/C03', note=COMMON_NOTE + ' Hash equality is checked through DefaultHasher in the harness only.', technique='Lean 4 proof over executable model + differential correspondence'),
    'C13': dict(
        text='Theorem SfxProps.C13.holds (full strength over the model): for every supported source/destination pair (same type or a widening admitted by From; >= 4 fractional '
             'bits and three magnitude bits above the point, which covers every type of the quantifier) and EVERY operand: no panic and no debug-only check; Err only for negative operands or '
             'operands in (0,1) whose reciprocal is not representable; otherwise 0 <= r and (r-4)^2 <= X <= (r+4)^2 (exact integer bracket = 4 ulp), exact at 0 and 1; on the direct path the '
             'result is within ONE ulp. Proof: the loop is the integer Newton iteration; halving phase + quadratic phase convergence within int_bits/2+8 steps (the code runs >= int_bits/2+10 '
             'after fix d5514a8, which this check motivated). Correspondence + exact bracket verdict in the driver + mpmath search oracle. '
             'SfxProps/C13Real.lean (holds_real) reads the integer bracket as the property\'s sentence over Mathlib\'s Real.sqrt: |r - sqrt x| <= 4 ulp for every From<S> pair.',
        design_ref='7/C13', note=COMMON_NOTE + ' mpmath is used only to search for failing inputs.', technique='Lean 4 proof (integer Newton convergence) over executable model + differential correspondence'),
    'C11': dict(
        text='Every model function returns ONE Outcome (release value + "a debug-only check fires" flag); theorem profiles_agree: whenever the checking build returns it returns the '
             'release value, for every modelled call; theorem no_debug_only_panic_holds / more_families: the checked/saturating/wrapping/overflowing forms of arithmetic, rounding, remainders, '
             'Euclidean division, float conversions and Wrapping programs never set the flag (corollaries of C02 C05 C06 C07 C18; sqrt: C13). The tie to the code is the point of this check: the '
             'union corpus of the other properties (1.2 M requests in quick) is executed by the harness built WITH and WITHOUT debug assertions/overflow checks and both are compared with the '
             'model projections. Parsing/formatting requests join the corpus once their models are merged. Defects D4, D5, D8 (profile-dependent) were found this way and repaired. '
             'SfxProps/C11Bits.lean: shift forms (checked/wrapping/overflowing/plain, 12 amount types), rotations, bit counting, signum, next_power_of_two, type constants: model = bit-pattern specification as Outcomes, so the only debug-only panics are the documented ones (shift amount outside 0..n-1, next_power_of_two overflow, signum when +-1 is not representable). The union corpus now also contains the codec family, the plain-operator programs, the primitive From impls and this family.',
        design_ref='7/C11', note=COMMON_NOTE + ' Both profiles use opt-level 1; code generation differences beyond the two flags are outside the model.',
        technique='Lean 4 proof (Outcome discipline) + two-profile differential correspondence'),
    'C12': dict(
        text='FULL. Theorems SfxProps.C12.result_functions_hold (sqrt, log2, ln, exp, pow, powi: for every operand of every supported signed type and EVERY integer exponent no panic and no '
             'debug-only check), sin_cos_total (sin for every angle, cos for |x| <= 200 — stronger than asked), log_err_only_when_undefined, log2_iterations, and '
             'SfxProps.C12.tan_total_holds (SfxProps/C12Tan.lean): tan returns Ok without panic or debug-only check for every |x| <= 100 with |Real.tan x| <= 64 — the non-zero denominator '
             'and representable quotient follow from the proved sin/cos accuracy (C16). tan_partial/tan_panic_example show the condition is sharp (an I9F23 angle 6e-6 below pi/2 panics). '
             'SfxProps/C12Pairs.lean: the same for DIFFERENT source and destination types (D: From<S>, both supported). Correspondence in both profiles incl. i32::MIN exponents; panics observed only outside the property\'s domain.',
        design_ref='7/C12', note=COMMON_NOTE, technique='Lean 4 proof (value invariants through the loops; real analysis for tan) over executable model + two-profile correspondence'),
    'C13': dict(
        text='Theorem SfxProps.C13.holds (full strength over the model): for every supported source/destination pair (same type or a widening admitted by From; >= 4 fractional '
             'bits and three magnitude bits above the point, which covers every type of the quantifier) and EVERY operand: no panic and no debug-only check; Err only for negative operands or '
             'operands in (0,1) whose reciprocal is not representable; otherwise 0 <= r and (r-4)^2 <= X <= (r+4)^2 (exact integer bracket = 4 ulp), exact at 0 and 1; on the direct path the '
             'result is within ONE ulp. Proof: the loop is the integer Newton iteration; halving phase + quadratic phase convergence within int_bits/2+8 steps (the code runs >= int_bits/2+10 '
             'after fix d5514a8, which this check motivated). Correspondence + exact bracket verdict in the driver + mpmath search oracle.',
        design_ref='7/C13', note=COMMON_NOTE + ' mpmath is used only to search for failing inputs.', technique='Lean 4 proof (integer Newton convergence) over executable model + differential correspondence'),
    'C11': dict(
        text='Every model function returns ONE Outcome (release value + "a debug-only check fires" flag); theorem profiles_agree: whenever the checking build returns it returns the '
             'release value, for every modelled call; theorem no_debug_only_panic_holds / more_families: the checked/saturating/wrapping/overflowing forms of arithmetic, rounding, remainders, '
             'Euclidean division, float conversions and Wrapping programs never set the flag (corollaries of C02 C05 C06 C07 C18; sqrt: C13). The tie to the code is the point of this check: the '
             'union corpus of the other properties (1.2 M requests in quick) is executed by the harness built WITH and WITHOUT debug assertions/overflow checks and both are compared with the '
             'model projections. Parsing/formatting requests join the corpus once their models are merged. Defects D4, D5, D8 (profile-dependent) were found this way and repaired.',
        design_ref='7/C11', note=COMMON_NOTE + ' Both profiles use opt-level 1; code generation differences beyond the two flags are outside the model.',
        technique='Lean 4 proof (Outcome discipline) + two-profile differential correspondence'),
    'C12': dict(
        text='Theorems SfxProps.C12.result_functions_hold (sqrt, log2, ln, exp, pow, powi: for every operand of every supported signed type and EVERY integer exponent no panic and no '
             'debug-only check — full), sin_cos_total (sin for every angle, cos for |x| <= 200 — full, stronger than asked), log_err_only_when_undefined, log2_iterations. '
             'tan: PARTIAL (tan_partial): the two inner calls are total and tan panics/flags exactly when the computed denominator is zero / the quotient does not fit; that this cannot '
             'happen where |tan x| <= 64 needs the unproved accuracy of cos (C16). Correspondence in both profiles incl. i32::MIN exponents; panics observed only outside the property\'s domain.',
        design_ref='7/C12', note=COMMON_NOTE, technique='Lean 4 proof (value invariants through the loops) over executable model + two-profile correspondence'),
    'C14': dict(
        text='FULL. Theorem SfxProps.C14.holds proves C14_statement over Mathlib\'s reals (Real.logb 2, Real.log) for every source layout S and supported destination D with D: From<S> '
             '(S = D included) and every operand: |r - log2 x| <= 8 ulp (the proof gives 4.5), |r - ln x| <= 2^-23 |ln x| + 8 ulp (the proof gives 4.2; the relative term is the truncated '
             'LOG2_E constant, bounded with Real.log_two_gt_d9/lt_d9), the sign claims, exactness on every power of two, the exact Err condition, no panic. '
             'The mpmath oracle still judges the implementation\'s answers on every run (worst observed 0.43 of the bound) as the search for failing inputs when the correspondence breaks.',
        design_ref='7/C14', note=COMMON_NOTE, technique='Lean 4 proof (integer trace + potential-function argument over the reals) + differential correspondence + mpmath search oracle'),
    'C15': dict(
        text='PARTIAL + TWO KNOWN FINDINGS, each side proved. SfxProps/C15Acc.lean over the reals: (exp) statement_false: NOT C15_statement by a formal counterexample exp::<I32F32>(20.0) (kernel-evaluated '
             'result 481239358.98, e^20 > 485165190) = finding D10 (truncated series, ids D10-exp/D10-pow, predicate: omitted tail > 2^-24 e^x); exp_holds_wide: the exp clause word for word for every supported '
             'type and |x| <= f/4 (every non-overflowing I9F23 operand; 8 of ~11.8 for I32F32; 22 of ~27 for I40F88). (pow) pow_holds_small: the pow clause for |y ln x| <= 7/2 and |y| <= 2^f/32 (every '
             'exponent of types with intBits + 4 <= f); pow_clause_false: the pow clause fails independently of exp at pow::<I41F23>(1+2^-23, -2^26) = 1.0 (true value < 1/1000) = NEW finding D16 '
             '(ln\'s absolute 8-ulp error times |y|; id D16-pow-ln-abs, predicate 8|y| ulp > 1), confirmed on the implementation and replayed on every run. SfxProps/C15.lean: C15_partial proves the whole powi '
             'clause and the conventions 0^y, x^0, x^1. NOT proved: the thin bands f/4 < |x| < D10 threshold and 7/2 < |y ln x|; any oracle-judged failure outside the findings\' regions is a VIOLATION. '
             'SfxProps/C15Pairs.lean: all of this for DIFFERENT source and destination types (exp/pow/powi::<S,D> proved equal as computations to the same-type functions on the widened operands), and the powi clause over the reals word for word (powi_real, pairs_partial).',
        design_ref='7/C15', note=COMMON_NOTE + ' The bands between the proved regions and the findings\' regions rest on sampled oracle judgements.',
        technique='Lean 4 proof (partial; formal counterexamples for both findings) + differential correspondence + mpmath search oracle + known-findings file'),
    'C16': dict(
        text='FULL. Theorem SfxProps.C16.holds (= C16_statement, SfxProps/C16Acc.lean) over Mathlib\'s reals for every supported signed type and operand: sin/cos within 2^-16 for |x| <= 200 (proved budget '
             '104.65/105.29 of 128 units of 2^-23) and within [-1-2^-16, 1+2^-16]; tan within (1+tan^2 x)/2^14 for |x| <= 100, |tan x| <= 64. Nothing assumed: each arctan table entry (regenerated from the '
             'source) within 2^-53 of Real.arctan 2^-i, pi enclosures for the 23-bit constants, rotation invariant with truncation, angle-/vector-error separation for tan. The tan clause is closed by real '
             'analysis alone for f >= 24; for f = 23 (three widths, computation proved width-independent) and 30 < |tan x| <= 64 the kernel evaluates the inner cos call\'s 24 CORDIC steps on all 299 000 '
             'grid points of the near-pole window (decide +kernel over a Nat encoding proved equal to the model; 16 generated files, tools/gen_tan3.py; no native_decide) against a certified cosine enclosure. '
             'The mpmath oracle keeps judging the implementation\'s answers on every run (search for failing inputs when the correspondence breaks).',
        design_ref='7/C16', note=COMMON_NOTE,
        technique='Lean 4 proof (integer CORDIC trace + real analysis + kernel enumeration of one window) + differential correspondence + mpmath search oracle'),
    'C17': dict(
        text='Theorem SfxProps.C17.holds: for ALL layouts and operands the iteration count recorded by the model of sqrt/log2/ln/exp/pow/sin/cos/tan is at most 4*width+64 '
             '(sharper per-function bounds in `sharp`). The model gives the two data-dependent loops fuel (halving: width+1; range reduction: 2 after the repaired remainder step) and '
             'turns fuel exhaustion into a panic; that this panic is unreachable is part of C12 and is exercised by the correspondence, which compares the hook counter of the real '
             '(fuel-less) loops with the model count on every request incl. MIN/MAX/1ulp. The unbounded range-reduction loops were repaired in /repo (fix c0749e7).',
        design_ref='7/C17', note=COMMON_NOTE + ' Hook: thread-local counter incremented in each loop body of transcendental.rs under the guard.',
        technique='Lean 4 proof (structural tick bounds) over executable model + hook-counter correspondence'),
    'C03': dict(
        text='Theorems SfxProps.C03.fixed_holds / float_holds (full strength): for EVERY ordered pair of valid layouts (integers = zero-fraction layouts, both operand orders) '
             'partial_cmp and the six operators equal the comparison of the exact values; for f32/f64 finite floats compare by exact value in both operand orders, NaN is unordered '
             'and unequal, infinities lie outside; same-type Ord/Eq (and Hash, derived from the bits) coincide with the value order. Four defects found by this check were repaired '
             'in /repo (sign of converted bits, top binade/NaN, subnormal scale, -0.0). Correspondence: typed operators for every family pair x {0,mid,n}^2, 12 integer types, f32/f64.',
        design_ref='7/C03', note=COMMON_NOTE + ' Hash equality is checked through DefaultHasher in the harness only.', technique='Lean 4 proof over executable model + differential correspondence'),
    'C13': dict(
        text='Theorem SfxProps.C13.holds (full strength over the model): for every supported source/destination pair (same type or a widening admitted by From; >= 4 fractional '
             'bits and three magnitude bits above the point, which covers every type of the quantifier) and EVERY operand: no panic and no debug-only check; Err only for negative operands or '
             'operands in (0,1) whose reciprocal is not representable; otherwise 0 <= r and (r-4)^2 <= X <= (r+4)^2 (exact integer bracket = 4 ulp), exact at 0 and 1; on the direct path the '
             'result is within ONE ulp. Proof: the loop is the integer Newton iteration; halving phase + quadratic phase convergence within int_bits/2+8 steps (the code runs >= int_bits/2+10 '
             'after fix d5514a8, which this check motivated). Correspondence + exact bracket verdict in the driver + mpmath search oracle.',
        design_ref='7/C13', note=COMMON_NOTE + ' mpmath is used only to search for failing inputs.', technique='Lean 4 proof (integer Newton convergence) over executable model + differential correspondence'),
    'C11': dict(
        text='Every model function returns ONE Outcome (release value + "a debug-only check fires" flag); theorem profiles_agree: whenever the checking build returns it returns the '
             'release value, for every modelled call; theorem no_debug_only_panic_holds / more_families: the checked/saturating/wrapping/overflowing forms of arithmetic, rounding, remainders, '
             'Euclidean division, float conversions and Wrapping programs never set the flag (corollaries of C02 C05 C06 C07 C18; sqrt: C13). The tie to the code is the point of this check: the '
             'union corpus of the other properties (1.2 M requests in quick) is executed by the harness built WITH and WITHOUT debug assertions/overflow checks and both are compared with the '
             'model projections. Parsing/formatting requests join the corpus once their models are merged. Defects D4, D5, D8 (profile-dependent) were found this way and repaired.',
        design_ref='7/C11', note=COMMON_NOTE + ' Both profiles use opt-level 1; code generation differences beyond the two flags are outside the model.',
        technique='Lean 4 proof (Outcome discipline) + two-profile differential correspondence'),
    'C12': dict(
        text='FULL. Theorems SfxProps.C12.result_functions_hold (sqrt, log2, ln, exp, pow, powi: for every operand of every supported signed type and EVERY integer exponent no panic and no '
             'debug-only check), sin_cos_total (sin for every angle, cos for |x| <= 200 — stronger than asked), log_err_only_when_undefined, log2_iterations, and '
             'SfxProps.C12.tan_total_holds (SfxProps/C12Tan.lean): tan returns Ok without panic or debug-only check for every |x| <= 100 with |Real.tan x| <= 64 — the non-zero denominator '
             'and representable quotient follow from the proved sin/cos accuracy (C16). tan_partial/tan_panic_example show the condition is sharp (an I9F23 angle 6e-6 below pi/2 panics). '
             'SfxProps/C12Pairs.lean: the same for DIFFERENT source and destination types (D: From<S>, both supported). Correspondence in both profiles incl. i32::MIN exponents; panics observed only outside the property\'s domain.',
        design_ref='7/C12', note=COMMON_NOTE, technique='Lean 4 proof (value invariants through the loops; real analysis for tan) over executable model + two-profile correspondence'),
    'C13': dict(
        text='Theorem SfxProps.C13.holds (full strength over the model): for every supported source/destination pair (same type or a widening admitted by From; >= 4 fractional '
             'bits and three magnitude bits above the point, which covers every type of the quantifier) and EVERY operand: no panic and no debug-only check; Err only for negative operands or '
             'operands in (0,1) whose reciprocal is not representable; otherwise 0 <= r and (r-4)^2 <= X <= (r+4)^2 (exact integer bracket = 4 ulp), exact at 0 and 1; on the direct path the '
             'result is within ONE ulp. Proof: the loop is the integer Newton iteration; halving phase + quadratic phase convergence within int_bits/2+8 steps (the code runs >= int_bits/2+10 '
             'after fix d5514a8, which this check motivated). Correspondence + exact bracket verdict in the driver + mpmath search oracle.',
        design_ref='7/C13', note=COMMON_NOTE + ' mpmath is used only to search for failing inputs.', technique='Lean 4 proof (integer Newton convergence) over executable model + differential correspondence'),
    'C11': dict(
        text='Every model function returns ONE Outcome (release value + "a debug-only check fires" flag); theorem profiles_agree: whenever the checking build returns it returns the '
             'release value, for every modelled call; theorem no_debug_only_panic_holds / more_families: the checked/saturating/wrapping/overflowing forms of arithmetic, rounding, remainders, '
             'Euclidean division, float conversions and Wrapping programs never set the flag (corollaries of C02 C05 C06 C07 C18; sqrt: C13). The tie to the code is the point of this check: the '
             'union corpus of the other properties (1.2 M requests in quick) is executed by the harness built WITH and WITHOUT debug assertions/overflow checks and both are compared with the '
             'model projections. Parsing/formatting requests join the corpus once their models are merged. Defects D4, D5, D8 (profile-dependent) were found this way and repaired.',
        design_ref='7/C11', note=COMMON_NOTE + ' Both profiles use opt-level 1; code generation differences beyond the two flags are outside the model.',
        technique='Lean 4 proof (Outcome discipline) + two-profile differential correspondence'),
    'C12': dict(
        text='Theorems SfxProps.C12.result_functions_hold (sqrt, log2, ln, exp, pow, powi: for every operand of every supported signed type and EVERY integer exponent no panic and no '
             'debug-only check — full), sin_cos_total (sin for every angle, cos for |x| <= 200 — full, stronger than asked), log_err_only_when_undefined, log2_iterations. '
             'tan: PARTIAL (tan_partial): the two inner calls are total and tan panics/flags exactly when the computed denominator is zero / the quotient does not fit; that this cannot '
             'happen where |tan x| <= 64 needs the unproved accuracy of cos (C16). Correspondence in both profiles incl. i32::MIN exponents; panics observed only outside the property\'s domain.',
        design_ref='7/C12', note=COMMON_NOTE, technique='Lean 4 proof (value invariants through the loops) over executable model + two-profile correspondence'),
    'C14': dict(
        text='FULL. Theorem SfxProps.C14.holds proves C14_statement over Mathlib\'s reals (Real.logb 2, Real.log) for every source layout S and supported destination D with D: From<S> '
             '(S = D included) and every operand: |r - log2 x| <= 8 ulp (the proof gives 4.5), |r - ln x| <= 2^-23 |ln x| + 8 ulp (the proof gives 4.2; the relative term is the truncated '
             'LOG2_E constant, bounded with Real.log_two_gt_d9/lt_d9), the sign claims, exactness on every power of two, the exact Err condition, no panic. '
             'The mpmath oracle still judges the implementation\'s answers on every run (worst observed 0.43 of the bound) as the search for failing inputs when the correspondence breaks.',
        design_ref='7/C14', note=COMMON_NOTE, technique='Lean 4 proof (integer trace + potential-function argument over the reals) + differential correspondence + mpmath search oracle'),
    'C15': dict(
        text='PARTIAL + KNOWN FINDING, with both sides proved. SfxProps/C15Acc.lean: statement_false proves NOT C15_statement by a formal counterexample (exp::<I32F32>(20.0): the model returns '
             '481239358.98 by kernel evaluation while e^20 > 485165190 from Real.exp_one_gt_d9; allowed error ~463) — this is known finding D10 (ids D10-exp, D10-pow; predicate: omitted series tail '
             '> 2^-24 e^x), replayed against the implementation on every run; exp_holds_le_four proves the exp clause word for word for every supported type and |x| <= 4. '
             'SfxProps/C15.lean: C15_partial proves the whole powi clause (exact rational bound (n-1) ulp * max(1,|x|)^(n-1) for n >= 2, truncated reciprocal for n < 0) and the conventions 0^y, x^0, x^1 '
             'of pow and powi; totality is C12. NOT proved: the pow error bound, exp for 4 < |x| inside the validity region; any oracle-judged failure outside the finding\'s region is a VIOLATION.',
        design_ref='7/C15', note=COMMON_NOTE + ' exp for 4 < |x| < ~11.8 and pow rest on sampled oracle judgements.',
        technique='Lean 4 proof (partial; formal counterexample for the finding) + differential correspondence + mpmath search oracle + known-findings file'),
    'C16': dict(
        text='sin/cos FULL; tan FULL for every type with >= 24 fractional bits, PARTIAL for the three layouts with exactly 23. SfxProps/C16Acc.lean over Mathlib\'s reals: sin_cos_holds (every supported type, '
             'every |x| <= 200: error <= 2^-16, proved budget 104.65/105.29 of 128 units of 2^-23; result within [-1-2^-16, 1+2^-16]); tan_holds (|tan x| <= tanT f, tanT = 64 for f >= 24, 30 for f = 23); '
             'holds_f24 (whole statement for f >= 24); C16_statement_partial (whole statement with tanT); statement_of_f23 (C16_statement follows from the one open case f = 23, 30 < |tan x| <= 64). '
             'Nothing assumed: each arctan table entry (regenerated from the source) within 2^-53 of Real.arctan 2^-i, pi enclosures, rotation invariant with truncation, angle-/vector-error separation. '
             'The open case is beyond worst-case bounds (needs <= 12 ulp vector error, provable 22-26, measured 10.8); an exhaustive evaluation of all 1.68e9 I9F23 operands found worst ratio 0.484 '
             '(search support); the mpmath oracle judges that region on every run.',
        design_ref='7/C16', note=COMMON_NOTE + ' f = 23 with 30 < |tan x| <= 64 rests on sampled oracle judgements (and one exhaustive off-line scan).',
        technique='Lean 4 proof (integer CORDIC trace + real analysis) + differential correspondence + mpmath search oracle'),
    'C17': dict(
        text='Theorem SfxProps.C17.holds: for ALL layouts and operands the iteration count recorded by the model of sqrt/log2/ln/exp/pow/sin/cos/tan is at most 4*width+64 '
             '(sharper per-function bounds in `sharp`). The model gives the two data-dependent loops fuel (halving: width+1; range reduction: 2 after the repaired remainder step) and '
             'turns fuel exhaustion into a panic; that this panic is unreachable is part of C12 and is exercised by the correspondence, which compares the hook counter of the real '
             '(fuel-less) loops with the model count on every request incl. MIN/MAX/1ulp. The unbounded range-reduction loops were repaired in /repo (fix c0749e7).',
        design_ref='7/C17', note=COMMON_NOTE + ' Hook: thread-local counter incremented in each loop body of transcendental.rs under the guard.',
        technique='Lean 4 proof (structural tick bounds) over executable model + hook-counter correspondence'),
    'C03': dict(
        text='Theorems SfxProps.C03.fixed_holds / float_holds (full strength): for EVERY ordered pair of valid layouts (integers = zero-fraction layouts, both operand orders) '
             'partial_cmp and the six operators equal the comparison of the exact values; for f32/f64 finite floats compare by exact value in both operand orders, NaN is unordered '
             'and unequal, infinities lie outside; same-type Ord/Eq (and Hash, derived from the bits) coincide with the value order. Four defects found by this check were repaired '
             'in /repo (sign of converted bits, top binade/NaN, subnormal scale, -0.0). Correspondence: typed operators for every family pair x {0,mid,n}^2, 12 integer types, f32/f64.',
        design_ref='7/C03', note=COMMON_NOTE + ' Hash equality is checked through DefaultHasher in the harness only.', technique='Lean 4 proof over executable model + differential correspondence'),
    'C13': dict(
        text='Theorem SfxProps.C13.holds (full strength over the model): for every supported source/destination pair (same type or a widening admitted by From; >= 4 fractional '
             'bits and three magnitude bits above the point, which covers every type of the quantifier) and EVERY operand: no panic and no debug-only check; Err only for negative operands or '
             'operands in (0,1) whose reciprocal is not representable; otherwise 0 <= r and (r-4)^2 <= X <= (r+4)^2 (exact integer bracket = 4 ulp), exact at 0 and 1; on the direct path the '
             'result is within ONE ulp. Proof: the loop is the integer Newton iteration; halving phase + quadratic phase convergence within int_bits/2+8 steps (the code runs >= int_bits/2+10 '
             'after fix d5514a8, which this check motivated). Correspondence + exact bracket verdict in the driver + mpmath search oracle.',
        design_ref='7/C13', note=COMMON_NOTE + ' mpmath is used only to search for failing inputs.', technique='Lean 4 proof (integer Newton convergence) over executable model + differential correspondence'),
    'C11': dict(
        text='Every model function returns ONE Outcome (release value + "a debug-only check fires" flag); theorem profiles_agree: whenever the checking build returns it returns the '
             'release value, for every modelled call; theorem no_debug_only_panic_holds / more_families: the checked/saturating/wrapping/overflowing forms of arithmetic, rounding, remainders, '
             'Euclidean division, float conversions and Wrapping programs never set the flag (corollaries of C02 C05 C06 C07 C18; sqrt: C13). The tie to the code is the point of this check: the '
             'union corpus of the other properties (1.2 M requests in quick) is executed by the harness built WITH and WITHOUT debug assertions/overflow checks and both are compared with the '
             'model projections. Parsing/formatting requests join the corpus once their models are merged. Defects D4, D5, D8 (profile-dependent) were found this way and repaired.',
        design_ref='7/C11', note=COMMON_NOTE + ' Both profiles use opt-level 1; code generation differences beyond the two flags are outside the model.',
        technique='Lean 4 proof (Outcome discipline) + two-profile differential correspondence'),
    'C12': dict(
        text='FULL. Theorems SfxProps.C12.result_functions_hold (sqrt, log2, ln, exp, pow, powi: for every operand of every supported signed type and EVERY integer exponent no panic and no '
             'debug-only check), sin_cos_total (sin for every angle, cos for |x| <= 200 — stronger than asked), log_err_only_when_undefined, log2_iterations, and '
             'SfxProps.C12.tan_total_holds (SfxProps/C12Tan.lean): tan returns Ok without panic or debug-only check for every |x| <= 100 with |Real.tan x| <= 64 — the non-zero denominator '
             'and representable quotient follow from the proved sin/cos accuracy (C16). tan_partial/tan_panic_example show the condition is sharp (an I9F23 angle 6e-6 below pi/2 panics). '
             'SfxProps/C12Pairs.lean: the same for DIFFERENT source and destination types (D: From<S>, both supported). Correspondence in both profiles incl. i32::MIN exponents; panics observed only outside the property\'s domain.',
        design_ref='7/C12', note=COMMON_NOTE, technique='Lean 4 proof (value invariants through the loops; real analysis for tan) over executable model + two-profile correspondence'),
    'C13': dict(
        text='Theorem SfxProps.C13.holds (full strength over the model): for every supported source/destination pair (same type or a widening admitted by From; >= 4 fractional '
             'bits and three magnitude bits above the point, which covers every type of the quantifier) and EVERY operand: no panic and no debug-only check; Err only for negative operands or '
             'operands in (0,1) whose reciprocal is not representable; otherwise 0 <= r and (r-4)^2 <= X <= (r+4)^2 (exact integer bracket = 4 ulp), exact at 0 and 1; on the direct path the '
             'result is within ONE ulp. Proof: the loop is the integer Newton iteration; halving phase + quadratic phase convergence within int_bits/2+8 steps (the code runs >= int_bits/2+10 '
             'after fix d5514a8, which this check motivated). Correspondence + exact bracket verdict in the driver + mpmath search oracle.',
        design_ref='7/C13', note=COMMON_NOTE + ' mpmath is used only to search for failing inputs.', technique='Lean 4 proof (integer Newton convergence) over executable model + differential correspondence'),
    'C11': dict(
        text='Every model function returns ONE Outcome (release value + "a debug-only check fires" flag); theorem profiles_agree: whenever the checking build returns it returns the '
             'release value, for every modelled call; theorem no_debug_only_panic_holds / more_families: the checked/saturating/wrapping/overflowing forms of arithmetic, rounding, remainders, '
             'Euclidean division, float conversions and Wrapping programs never set the flag (corollaries of C02 C05 C06 C07 C18; sqrt: C13). The tie to the code is the point of this check: the '
             'union corpus of the other properties (1.2 M requests in quick) is executed by the harness built WITH and WITHOUT debug assertions/overflow checks and both are compared with the '
             'model projections. Parsing/formatting requests join the corpus once their models are merged. Defects D4, D5, D8 (profile-dependent) were found this way and repaired.',
        design_ref='7/C11', note=COMMON_NOTE + ' Both profiles use opt-level 1; code generation differences beyond the two flags are outside the model.',
        technique='Lean 4 proof (Outcome discipline) + two-profile differential correspondence'),
    'C12': dict(
        text='Theorems SfxProps.C12.result_functions_hold (sqrt, log2, ln, exp, pow, powi: for every operand of every supported signed type and EVERY integer exponent no panic and no '
             'debug-only check — full), sin_cos_total (sin for every angle, cos for |x| <= 200 — full, stronger than asked), log_err_only_when_undefined, log2_iterations. '
             'tan: PARTIAL (tan_partial): the two inner calls are total and tan panics/flags exactly when the computed denominator is zero / the quotient does not fit; that this cannot '
             'happen where |tan x| <= 64 needs the unproved accuracy of cos (C16). Correspondence in both profiles incl. i32::MIN exponents; panics observed only outside the property\'s domain.',
        design_ref='7/C12', note=COMMON_NOTE, technique='Lean 4 proof (value invariants through the loops) over executable model + two-profile correspondence'),
    'C14': dict(
        text='FULL. Theorem SfxProps.C14.holds proves C14_statement over Mathlib\'s reals (Real.logb 2, Real.log) for every source layout S and supported destination D with D: From<S> '
             '(S = D included) and every operand: |r - log2 x| <= 8 ulp (the proof gives 4.5), |r - ln x| <= 2^-23 |ln x| + 8 ulp (the proof gives 4.2; the relative term is the truncated '
             'LOG2_E constant, bounded with Real.log_two_gt_d9/lt_d9), the sign claims, exactness on every power of two, the exact Err condition, no panic. '
             'The mpmath oracle still judges the implementation\'s answers on every run (worst observed 0.43 of the bound) as the search for failing inputs when the correspondence breaks.',
        design_ref='7/C14', note=COMMON_NOTE, technique='Lean 4 proof (integer trace + potential-function argument over the reals) + differential correspondence + mpmath search oracle'),
    'C15': dict(
        text='PARTIAL + KNOWN FINDING, with both sides proved. SfxProps/C15Acc.lean: statement_false proves NOT C15_statement by a formal counterexample (exp::<I32F32>(20.0): the model returns '
             '481239358.98 by kernel evaluation while e^20 > 485165190 from Real.exp_one_gt_d9; allowed error ~463) — this is known finding D10 (ids D10-exp, D10-pow; predicate: omitted series tail '
             '> 2^-24 e^x), replayed against the implementation on every run; exp_holds_le_four proves the exp clause word for word for every supported type and |x| <= 4. '
             'SfxProps/C15.lean: C15_partial proves the whole powi clause (exact rational bound (n-1) ulp * max(1,|x|)^(n-1) for n >= 2, truncated reciprocal for n < 0) and the conventions 0^y, x^0, x^1 '
             'of pow and powi; totality is C12. NOT proved: the pow error bound, exp for 4 < |x| inside the validity region; any oracle-judged failure outside the finding\'s region is a VIOLATION.',
        design_ref='7/C15', note=COMMON_NOTE + ' exp for 4 < |x| < ~11.8 and pow rest on sampled oracle judgements.',
        technique='Lean 4 proof (partial; formal counterexample for the finding) + differential correspondence + mpmath search oracle + known-findings file'),
    'C16': dict(
        text='sin/cos FULL, tan PARTIAL. SfxProps.C16.sin_cos_holds (SfxProps/C16Acc.lean) proves over Mathlib\'s reals, for every supported type and every angle |x| <= 200: '
             '|sin_impl - Real.sin x| <= 2^-16, same for cos, results within [-1-2^-16, 1+2^-16] (proved budget 104.65/105.29 of the 128 units of 2^-23: range reduction 17.3, mirror 1.3, '
             'CORDIC 86.1). Ingredients proved, none assumed: each of the 24 arctan table entries (regenerated from the source) within 2^-53 of Real.arctan 2^-i, pi enclosures for the 23-bit '
             'constants, the rotation invariant with truncation, exact range reduction. tan: tan_holds_8 proves the clause for |tan x| <= 8; C16_statement_partial is the whole statement with '
             'that one weakening; for 8 < |tan x| <= 64 worst-case bounds on the inner calls do not suffice (open), that region is judged by the mpmath search oracle on every run '
             '(worst observed 2^-15.1 of the allowed 2^-14). table_facts/C16_partial (exact integer facts) are kept.',
        design_ref='7/C16', note=COMMON_NOTE + ' The tan bound for 8 < |tan x| <= 64 rests on sampled oracle judgements only.',
        technique='Lean 4 proof (integer CORDIC trace + real analysis) + differential correspondence + mpmath search oracle'),
    'C17': dict(
        text='Theorem SfxProps.C17.holds: for ALL layouts and operands the iteration count recorded by the model of sqrt/log2/ln/exp/pow/sin/cos/tan is at most 4*width+64 '
             '(sharper per-function bounds in `sharp`). The model gives the two data-dependent loops fuel (halving: width+1; range reduction: 2 after the repaired remainder step) and '
             'turns fuel exhaustion into a panic; that this panic is unreachable is part of C12 and is exercised by the correspondence, which compares the hook counter of the real '
             '(fuel-less) loops with the model count on every request incl. MIN/MAX/1ulp. The unbounded range-reduction loops were repaired in /repo (fix c0749e7).',
        design_ref='7/C17', note=COMMON_NOTE + ' Hook: thread-local counter incremented in each loop body of transcendental.rs under the guard.',
        technique='Lean 4 proof (structural tick bounds) over executable model + hook-counter correspondence'),
    'C03': dict(
        text='Theorems SfxProps.C03.fixed_holds / float_holds (full strength): for EVERY ordered pair of valid layouts (integers = zero-fraction layouts, both operand orders) '
             'partial_cmp and the six operators equal the comparison of the exact values; for f32/f64 finite floats compare by exact value in both operand orders, NaN is unordered '
             'and unequal, infinities lie outside; same-type Ord/Eq (and Hash, derived from the bits) coincide with the value order. Four defects found by this check were repaired '
             'in /repo (sign of converted bits, top binade/NaN, subnormal scale, -0.0). Correspondence: typed operators for every family pair x {0,mid,n}^2, 12 integer types, f32/f64.',
        design_ref='7/C03', note=COMMON_NOTE + ' Hash equality is checked through DefaultHasher in the harness only.', technique='Lean 4 proof over executable model + differential correspondence'),
    'C13': dict(
        text='Theorem SfxProps.C13.holds (full strength over the model): for every supported source/destination pair (same type or a widening admitted by From; >= 4 fractional '
             'bits and three magnitude bits above the point, which covers every type of the quantifier) and EVERY operand: no panic and no debug-only check; Err only for negative operands or '
             'operands in (0,1) whose reciprocal is not representable; otherwise 0 <= r and (r-4)^2 <= X <= (r+4)^2 (exact integer bracket = 4 ulp), exact at 0 and 1; on the direct path the '
             'result is within ONE ulp. Proof: the loop is the integer Newton iteration; halving phase + quadratic phase convergence within int_bits/2+8 steps (the code runs >= int_bits/2+10 '
             'after fix d5514a8, which this check motivated). Correspondence + exact bracket verdict in the driver + mpmath search oracle.',
        design_ref='7/C13', note=COMMON_NOTE + ' mpmath is used only to search for failing inputs.', technique='Lean 4 proof (integer Newton convergence) over executable model + differential correspondence'),
    'C11': dict(
        text='Every model function returns ONE Outcome (release value + "a debug-only check fires" flag); theorem profiles_agree: whenever the checking build returns it returns the '
             'release value, for every modelled call; theorem no_debug_only_panic_holds / more_families: the checked/saturating/wrapping/overflowing forms of arithmetic, rounding, remainders, '
             'Euclidean division, float conversions and Wrapping programs never set the flag (corollaries of C02 C05 C06 C07 C18; sqrt: C13). The tie to the code is the point of this check: the '
             'union corpus of the other properties (1.2 M requests in quick) is executed by the harness built WITH and WITHOUT debug assertions/overflow checks and both are compared with the '
             'model projections. Parsing/formatting requests join the corpus once their models are merged. Defects D4, D5, D8 (profile-dependent) were found this way and repaired.',
        design_ref='7/C11', note=COMMON_NOTE + ' Both profiles use opt-level 1; code generation differences beyond the two flags are outside the model.',
        technique='Lean 4 proof (Outcome discipline) + two-profile differential correspondence'),
    'C12': dict(
        text='FULL. Theorems SfxProps.C12.result_functions_hold (sqrt, log2, ln, exp, pow, powi: for every operand of every supported signed type and EVERY integer exponent no panic and no '
             'debug-only check), sin_cos_total (sin for every angle, cos for |x| <= 200 — stronger than asked), log_err_only_when_undefined, log2_iterations, and '
             'SfxProps.C12.tan_total_holds (SfxProps/C12Tan.lean): tan returns Ok without panic or debug-only check for every |x| <= 100 with |Real.tan x| <= 64 — the non-zero denominator '
             'and representable quotient follow from the proved sin/cos accuracy (C16). tan_partial/tan_panic_example show the condition is sharp (an I9F23 angle 6e-6 below pi/2 panics). '
             'SfxProps/C12Pairs.lean: the same for DIFFERENT source and destination types (D: From<S>, both supported). Correspondence in both profiles incl. i32::MIN exponents; panics observed only outside the property\'s domain.',
        design_ref='7/C12', note=COMMON_NOTE, technique='Lean 4 proof (value invariants through the loops; real analysis for tan) over executable model + two-profile correspondence'),
    'C13': dict(
        text='Theorem SfxProps.C13.holds (full strength over the model): for every supported source/destination pair (same type or a widening admitted by From; >= 4 fractional '
             'bits and three magnitude bits above the point, which covers every type of the quantifier) and EVERY operand: no panic and no debug-only check; Err only for negative operands or '
             'operands in (0,1) whose reciprocal is not representable; otherwise 0 <= r and (r-4)^2 <= X <= (r+4)^2 (exact integer bracket = 4 ulp), exact at 0 and 1; on the direct path the '
             'result is within ONE ulp. Proof: the loop is the integer Newton iteration; halving phase + quadratic phase convergence within int_bits/2+8 steps (the code runs >= int_bits/2+10 '
             'after fix d5514a8, which this check motivated). Correspondence + exact bracket verdict in the driver + mpmath search oracle.',
        design_ref='7/C13', note=COMMON_NOTE + ' mpmath is used only to search for failing inputs.', technique='Lean 4 proof (integer Newton convergence) over executable model + differential correspondence'),
    'C11': dict(
        text='Every model function returns ONE Outcome (release value + "a debug-only check fires" flag); theorem profiles_agree: whenever the checking build returns it returns the '
             'release value, for every modelled call; theorem no_debug_only_panic_holds / more_families: the checked/saturating/wrapping/overflowing forms of arithmetic, rounding, remainders, '
             'Euclidean division, float conversions and Wrapping programs never set the flag (corollaries of C02 C05 C06 C07 C18; sqrt: C13). The tie to the code is the point of this check: the '
             'union corpus of the other properties (1.2 M requests in quick) is executed by the harness built WITH and WITHOUT debug assertions/overflow checks and both are compared with the '
             'model projections. Parsing/formatting requests join the corpus once their models are merged. Defects D4, D5, D8 (profile-dependent) were found this way and repaired.',
        design_ref='7/C11', note=COMMON_NOTE + ' Both profiles use opt-level 1; code generation differences beyond the two flags are outside the model.',
        technique='Lean 4 proof (Outcome discipline) + two-profile differential correspondence'),
    'C12': dict(
        text='Theorems SfxProps.C12.result_functions_hold (sqrt, log2, ln, exp, pow, powi: for every operand of every supported signed type and EVERY integer exponent no panic and no '
             'debug-only check — full), sin_cos_total (sin for every angle, cos for |x| <= 200 — full, stronger than asked), log_err_only_when_undefined, log2_iterations. '
             'tan: PARTIAL (tan_partial): the two inner calls are total and tan panics/flags exactly when the computed denominator is zero / the quotient does not fit; that this cannot '
             'happen where |tan x| <= 64 needs the unproved accuracy of cos (C16). Correspondence in both profiles incl. i32::MIN exponents; panics observed only outside the property\'s domain.',
        design_ref='7/C12', note=COMMON_NOTE, technique='Lean 4 proof (value invariants through the loops) over executable model + two-profile correspondence'),
    'C14': dict(
        text='FULL. Theorem SfxProps.C14.holds proves C14_statement over Mathlib\'s reals (Real.logb 2, Real.log) for every source layout S and supported destination D with D: From<S> '
             '(S = D included) and every operand: |r - log2 x| <= 8 ulp (the proof gives 4.5), |r - ln x| <= 2^-23 |ln x| + 8 ulp (the proof gives 4.2; the relative term is the truncated '
             'LOG2_E constant, bounded with Real.log_two_gt_d9/lt_d9), the sign claims, exactness on every power of two, the exact Err condition, no panic. '
             'The mpmath oracle still judges the implementation\'s answers on every run (worst observed 0.43 of the bound) as the search for failing inputs when the correspondence breaks.',
        design_ref='7/C14', note=COMMON_NOTE, technique='Lean 4 proof (integer trace + potential-function argument over the reals) + differential correspondence + mpmath search oracle'),
    'C15': dict(
        text='PARTIAL + KNOWN FINDING. Full statement C15_statement in SfxProps/C15.lean; theorem C15_partial proves the whole powi clause (exact rational error bound (n-1) ulp * max(1,|x|)^(n-1) '
             'for n >= 2, truncated reciprocal for n < 0), the conventions 0^y, x^0, x^1 of pow and powi, totality (C12). NOT proved: error bounds of exp and pow. exp violates the property '
             'for large operands (truncated series, no argument reduction): recorded as known finding D10 (ids D10-exp, D10-pow) with a predicate on (layout, operand); any oracle-judged failure '
             'outside that region is reported as a violation.',
        design_ref='7/C15', note=COMMON_NOTE + ' exp/pow accuracy outside the finding region rests on sampled oracle judgements only.', technique='Lean 4 proof (partial) + differential correspondence + mpmath search oracle + known-findings file'),
    'C16': dict(
        text='PARTIAL. Full statement C16_statement in SfxProps/C16.lean; proved: C16_partial (exact range reduction modulo the 23-bit 2pi constant into [-pi,pi] and mirror into [-pi/2,pi/2] for '
             'EVERY angle; the model CORDIC equals the plain-integer iteration, profile-independent, bounded by 3) and table_facts over the regenerated constants (24 arctan entries within 2^-54-i '
             'of Gregory series, convergence condition, coverage of pi/2, entry 0 = truncated consts::PI, gain^2 * prod(1+4^-i) in [1, 1+2^-31)). NOT proved: the real-analysis step to the 2^-16 / '
             '2^-14 bounds; judged on every run by the mpmath search oracle (worst observed 0.22 of the bound).',
        design_ref='7/C16', note=COMMON_NOTE + ' The numeric error bounds rest on sampled oracle judgements only.', technique='Lean 4 proof (partial) + translator-checked tables + differential correspondence + mpmath search oracle'),
    'C08': dict(
        text='FULL. Theorems SfxProps.C08.holds (= C08_statement: for every byte string, radix 2/8/10/16 and valid layout the model of from_str_{i,u}N returns, without panic or debug-only check, '
             'the half-even rounding E of the literal\'s exact rational value modulo 2^n with the flag "E out of range", or a non-overflow error for a malformed string) and forms_hold (the four public '
             'forms FromStr.parse: plain = E or the overflow error exactly when E is out of range, saturating = E clamped to the bound on the literal\'s side, wrapping/overflowing = E mod 2^n [+ flag]). '
             'Proof covers the tokeniser, integer folds with the half-width delegation chain, binary/octal/hex fractions, the decimal fast path dec_to_bin (four widening widths and the two-limb u128 '
             'version over the proved wide division) and the slow-path boundary loop. Tie: the 580-line function-by-function model agrees with the code on every request (hook on all 507 layouts x 4 radices '
             '+ 16 public entry points, grammar-/tie-directed literals up to 200 digits, malformed and non-UTF-8 input, both profiles); every implementation answer is also judged against the exact '
             'specification. Two defects found this way were repaired (292489c, 8a5b41d).',
        design_ref='7/C08', note=COMMON_NOTE, technique='Lean 4 proof (model = exact rational specification) + differential correspondence'),
    'C09': dict(
        text='FULL. Theorems SfxProps.C09.holds (= C09_statement, for every valid layout, value, formatting trait and format spec with any sign/width/fill/alignment/+/#/0 and any precision < 2^16: '
             'no panic, no debug-only check; the output is exactly assemble(sign, prefix, padding) around a digit string digitsOf(kind, precision, |x|) that does not depend on sign or flags; digits '
             'canonical and in range; Binary/Octal/Hex digits denote the value exactly, Display/Debug digits are the half-even rounding at the digits shown and strictly within half an ulp of the type; '
             'with precision p the digits are the half-even rounding at p digits in every radix), flags_only_pad, debug_eq_display, and round_trip (the default output parses back through the modelled '
             'from_str, using C08, to exactly the same bits without overflow). Tie: the function-by-function model of display.rs agrees with the code on every request (all 507 layouts, 2112 format '
             'specs incl. multi-byte fill, both profiles); every printed string is also judged by the exact-rational verdict and parsed back by the implementation. Defect found this way repaired (fcf22ad). '
             'SfxProps/C09Verdict.lean: the checker\'s own exact-rational verdict on printed strings is proved to accept everything the model prints (no false alarm possible from it when implementation = model).',
        design_ref='7/C09', note=COMMON_NOTE + ' Not proved (not asked): minimality of the library-chosen digit count.', technique='Lean 4 proof (model = exact rational specification) + differential correspondence'),
    'C10': dict(
        text='Theorems (SfxProps.C10): encode has width/8 bytes, equals to_le_bytes and ignores the fractional-bit count; decode(encode a ++ rest) = (a, |rest|); '
             'short input fails; le/be/ne byte views and from_*_bytes are mutually inverse bijections; the struct description regenerated from lib.rs '
             '(fields, repr, derives, no #[codec] attribute, no manual impl) is checked by a theorem over Generated.lean. Correspondence on the public '
             'Encode/Decode/MaxEncodedLen API and byte views (8-bit exhaustive), under both build profiles (a seeded hand-written Encode that only panics under overflow checks showed the need). '
             'SfxProps/C10Serde.lean: the serde representation (crate feature serde, through serde_json and serde_cbor, both offline): ser = exactly {"bits":<canonical decimal>} independent of the layout, '
             'de(ser x) = x, out-of-range integers rejected, Wrapping identical, white space and the sequence form accepted; 0.3 M requests incl. ~120 rejection classes.',
        design_ref='7/C10', note=COMMON_NOTE + ' parity-scale-codec derive semantics (fields in order, PhantomData encodes to nothing) are assumed and cross-checked by the correspondence.',
        technique='Lean 4 proof over executable model + translator-checked struct description + differential correspondence'),
    'C06': dict(
        text='Theorem SfxProps.C06.holds (full strength, all 507 layouts incl. 0 and 1 integer bits): each overflowing_{ceil,floor,round,round_ties_to_even} equals '
             '(exact rounding mod 2^n, exact flag); checked/saturating/wrapping/plain forms follow; round_to_zero = truncation without any check firing; int+frac split. '
             'Mask constants INT_MASK/FRAC_MASK/INT_LSB/FRAC_MSB proved from their bit-operation definitions. Correspondence: all 23 public methods, 8-bit exhaustive on '
             'all 18 layouts, both profiles.',
        design_ref='7/C06', note=COMMON_NOTE, technique='Lean 4 proof over executable model + differential correspondence'),
    'C07': dict(
        text='Theorem SfxProps.C07.holds (full strength, all layouts, all operands): % = truncated remainder, rem_euclid = Euclidean remainder, '
             'div_euclid forms = the four documented functions of the exact Euclidean quotient, likewise for primitive-integer divisors (incl. the divisor '
             'whose fixed-point image does not fit and the unsigned-arithmetic tail of rem_euclid_int); zero divisor: None / documented panic; no check fires. '
             'The div_euclid family was repaired in /repo (fix 44b358d) after the check reproduced the defect. Correspondence: 19 public methods, both profiles.',
        design_ref='7/C07', note=COMMON_NOTE, technique='Lean 4 proof over executable model + differential correspondence'),
    'C18': dict(
        text='Theorem SfxProps.C18.holds: for every layout, every start value and every well-formed program of Wrapping<F> operations of ANY length, the modelled run '
             'equals the documented run (exact result reduced mod 2^n at each step, shift amounts reduced mod the width, panic only for a zero divisor) and is identical '
             'under both build profiles; built on the C01/C02/C06/C07 theorems. Correspondence: programs of 1..12 steps over every impl variant (by value / by reference / '
             'assigning, 12 shift-amount types, integer right-hand sides, sum/product) in both profiles; Wrapping::from_num (fixed, 12 integer types, bool, f32/f64), Wrapping::to_num and '
             'Wrapping::from_str / from_str_binary/_octal/_hex are exercised through their own entry points and answered by the wrapping forms of the C04/C05/C08 models; '
             'SfxProps/C18Entry.lean (from_num_fixed, from_num_float, from_str) restates what is proved about those forms in C18\'s terms.',
        design_ref='7/C18', note=COMMON_NOTE, technique='Lean 4 proof (induction over programs) over executable model + differential correspondence'),
    'C04': dict(
        text='Theorem SfxProps.C04.holds (full strength): for EVERY ordered pair of valid layouts (integers = zero-fraction layouts) and every source value the '
             'overflowing/checked/wrapping/saturating/plain conversion forms equal the documented functions of the exact result floor(x*2^fd/2^fs); From is '
             'value-preserving and cannot overflow under its type-level bound, LossyFrom loses only fractional bits, and the bound is tight (bound_tight). Built on a '
             'proved specification of to_fixed_helper (neg/dir/bits/overflow, all shift amounts incl. >= 128). Correspondence: helper hook on all primitives, typed '
             'conversions for every family pair x {0, mid, n}^2 fractional bits and all 12 integer types + bool, both profiles. The From/LossyFrom admissibility table of '
             'convert.rs is not yet regenerated by the translator (the predicate is stated in Lean by hand).',
        design_ref='7/C04', note=COMMON_NOTE, technique='Lean 4 proof over executable model + differential correspondence'),
    'C05': dict(
        text='Theorem SfxProps.C05.holds (full strength, f32 and f64, all 507 layouts): float->fixed gives the grid value nearest to the exact float value (ties to even) under '
             'the four policies with overflow decided on the rounded value; NaN/infinity are rejected as documented; fixed->float equals the textbook IEEE-754 '
             'round-to-nearest-even (subnormals, overflow to infinity) and that textbook definition is itself proved nearest/ties-to-even. Four defects found by this check '
             'were repaired in /repo (top binade/NaN classification, subnormal scale, -0.0). Correspondence: both helper hooks on all layouts + the public API, both profiles.',
        design_ref='7/C05', note=COMMON_NOTE, technique='Lean 4 proof over executable model + differential correspondence'),
    'C17': dict(
        text='Theorem SfxProps.C17.holds: for ALL layouts and operands the iteration count recorded by the model of sqrt/log2/ln/exp/pow/sin/cos/tan is at most 4*width+64 '
             '(sharper per-function bounds in `sharp`). The model gives the two data-dependent loops fuel (halving: width+1; range reduction: 2 after the repaired remainder step) and '
             'turns fuel exhaustion into a panic; that this panic is unreachable is part of C12 and is exercised by the correspondence, which compares the hook counter of the real '
             '(fuel-less) loops with the model count on every request incl. MIN/MAX/1ulp. The unbounded range-reduction loops were repaired in /repo (fix c0749e7).',
        design_ref='7/C17', note=COMMON_NOTE + ' Hook: thread-local counter incremented in each loop body of transcendental.rs under the guard.',
        technique='Lean 4 proof (structural tick bounds) over executable model + hook-counter correspondence'),
    'C03': dict(
        text='Theorems SfxProps.C03.fixed_holds / float_holds (full strength): for EVERY ordered pair of valid layouts (integers = zero-fraction layouts, both operand orders) '
             'partial_cmp and the six operators equal the comparison of the exact values; for f32/f64 finite floats compare by exact value in both operand orders, NaN is unordered '
             'and unequal, infinities lie outside; same-type Ord/Eq (and Hash, derived from the bits) coincide with the value order. Four defects found by this check were repaired '
             'in /repo (sign of converted bits, top binade/NaN, subnormal scale, -0.0). Correspondence: typed operators for every family pair x {0,mid,n}^2, 12 integer types, f32/f64.',
        design_ref='7/C03', note=COMMON_NOTE + ' Hash equality is checked through DefaultHasher in the harness only.', technique='Lean 4 proof over executable model + differential correspondence'),
    'C13': dict(
        text='Theorem SfxProps.C13.holds (full strength over the model): for every supported source/destination pair (same type or a widening admitted by From; >= 4 fractional '
             'bits and three magnitude bits above the point, which covers every type of the quantifier) and EVERY operand: no panic and no debug-only check; Err only for negative operands or '
             'operands in (0,1) whose reciprocal is not representable; otherwise 0 <= r and (r-4)^2 <= X <= (r+4)^2 (exact integer bracket = 4 ulp), exact at 0 and 1; on the direct path the '
             'result is within ONE ulp. Proof: the loop is the integer Newton iteration; halving phase + quadratic phase convergence within int_bits/2+8 steps (the code runs >= int_bits/2+10 '
             'after fix d5514a8, which this check motivated). Correspondence + exact bracket verdict in the driver + mpmath search oracle.',
        design_ref='7/C13', note=COMMON_NOTE + ' mpmath is used only to search for failing inputs.', technique='Lean 4 proof (integer Newton convergence) over executable model + differential correspondence'),
    'C11': dict(
        text='Every model function returns ONE Outcome (release value + "a debug-only check fires" flag); theorem profiles_agree: whenever the checking build returns it returns the '
             'release value, for every modelled call; theorem no_debug_only_panic_holds / more_families: the checked/saturating/wrapping/overflowing forms of arithmetic, rounding, remainders, '
             'Euclidean division, float conversions and Wrapping programs never set the flag (corollaries of C02 C05 C06 C07 C18; sqrt: C13). The tie to the code is the point of this check: the '
             'union corpus of the other properties (1.2 M requests in quick) is executed by the harness built WITH and WITHOUT debug assertions/overflow checks and both are compared with the '
             'model projections. Parsing/formatting requests join the corpus once their models are merged. Defects D4, D5, D8 (profile-dependent) were found this way and repaired.',
        design_ref='7/C11', note=COMMON_NOTE + ' Both profiles use opt-level 1; code generation differences beyond the two flags are outside the model.',
        technique='Lean 4 proof (Outcome discipline) + two-profile differential correspondence'),
    'C12': dict(
        text='FULL. Theorems SfxProps.C12.result_functions_hold (sqrt, log2, ln, exp, pow, powi: for every operand of every supported signed type and EVERY integer exponent no panic and no '
             'debug-only check), sin_cos_total (sin for every angle, cos for |x| <= 200 — stronger than asked), log_err_only_when_undefined, log2_iterations, and '
             'SfxProps.C12.tan_total_holds (SfxProps/C12Tan.lean): tan returns Ok without panic or debug-only check for every |x| <= 100 with |Real.tan x| <= 64 — the non-zero denominator '
             'and representable quotient follow from the proved sin/cos accuracy (C16). tan_partial/tan_panic_example show the condition is sharp (an I9F23 angle 6e-6 below pi/2 panics). '
             'SfxProps/C12Pairs.lean: the same for DIFFERENT source and destination types (D: From<S>, both supported). Correspondence in both profiles incl. i32::MIN exponents; panics observed only outside the property\'s domain.',
        design_ref='7/C12', note=COMMON_NOTE, technique='Lean 4 proof (value invariants through the loops; real analysis for tan) over executable model + two-profile correspondence'),
    'C13': dict(
        text='Theorem SfxProps.C13.holds (full strength over the model): for every supported source/destination pair (same type or a widening admitted by From; >= 4 fractional '
             'bits and three magnitude bits above the point, which covers every type of the quantifier) and EVERY operand: no panic and no debug-only check; Err only for negative operands or '
             'operands in (0,1) whose reciprocal is not representable; otherwise 0 <= r and (r-4)^2 <= X <= (r+4)^2 (exact integer bracket = 4 ulp), exact at 0 and 1; on the direct path the '
             'result is within ONE ulp. Proof: the loop is the integer Newton iteration; halving phase + quadratic phase convergence within int_bits/2+8 steps (the code runs >= int_bits/2+10 '
             'after fix d5514a8, which this check motivated). Correspondence + exact bracket verdict in the driver + mpmath search oracle.',
        design_ref='7/C13', note=COMMON_NOTE + ' mpmath is used only to search for failing inputs.', technique='Lean 4 proof (integer Newton convergence) over executable model + differential correspondence'),
    'C11': dict(
        text='Every model function returns ONE Outcome (release value + "a debug-only check fires" flag); theorem profiles_agree: whenever the checking build returns it returns the '
             'release value, for every modelled call; theorem no_debug_only_panic_holds / more_families: the checked/saturating/wrapping/overflowing forms of arithmetic, rounding, remainders, '
             'Euclidean division, float conversions and Wrapping programs never set the flag (corollaries of C02 C05 C06 C07 C18; sqrt: C13). The tie to the code is the point of this check: the '
             'union corpus of the other properties (1.2 M requests in quick) is executed by the harness built WITH and WITHOUT debug assertions/overflow checks and both are compared with the '
             'model projections. Parsing/formatting requests join the corpus once their models are merged. Defects D4, D5, D8 (profile-dependent) were found this way and repaired.',
        design_ref='7/C11', note=COMMON_NOTE + ' Both profiles use opt-level 1; code generation differences beyond the two flags are outside the model.',
        technique='Lean 4 proof (Outcome discipline) + two-profile differential correspondence'),
    'C12': dict(
        text='Theorems SfxProps.C12.result_functions_hold (sqrt, log2, ln, exp, pow, powi: for every operand of every supported signed type and EVERY integer exponent no panic and no '
             'debug-only check — full), sin_cos_total (sin for every angle, cos for |x| <= 200 — full, stronger than asked), log_err_only_when_undefined, log2_iterations. '
             'tan: PARTIAL (tan_partial): the two inner calls are total and tan panics/flags exactly when the computed denominator is zero / the quotient does not fit; that this cannot '
             'happen where |tan x| <= 64 needs the unproved accuracy of cos (C16). Correspondence in both profiles incl. i32::MIN exponents; panics observed only outside the property\'s domain.',
        design_ref='7/C12', note=COMMON_NOTE, technique='Lean 4 proof (value invariants through the loops) over executable model + two-profile correspondence'),
    'C14': dict(
        text='FULL. Theorem SfxProps.C14.holds proves C14_statement over Mathlib\'s reals (Real.logb 2, Real.log) for every source layout S and supported destination D with D: From<S> '
             '(S = D included) and every operand: |r - log2 x| <= 8 ulp (the proof gives 4.5), |r - ln x| <= 2^-23 |ln x| + 8 ulp (the proof gives 4.2; the relative term is the truncated '
             'LOG2_E constant, bounded with Real.log_two_gt_d9/lt_d9), the sign claims, exactness on every power of two, the exact Err condition, no panic. '
             'The mpmath oracle still judges the implementation\'s answers on every run (worst observed 0.43 of the bound) as the search for failing inputs when the correspondence breaks.',
        design_ref='7/C14', note=COMMON_NOTE, technique='Lean 4 proof (integer trace + potential-function argument over the reals) + differential correspondence + mpmath search oracle'),
    'C15': dict(
        text='PARTIAL + KNOWN FINDING. Full statement C15_statement in SfxProps/C15.lean; theorem C15_partial proves the whole powi clause (exact rational error bound (n-1) ulp * max(1,|x|)^(n-1) '
             'for n >= 2, truncated reciprocal for n < 0), the conventions 0^y, x^0, x^1 of pow and powi, totality (C12). NOT proved: error bounds of exp and pow. exp violates the property '
             'for large operands (truncated series, no argument reduction): recorded as known finding D10 (ids D10-exp, D10-pow) with a predicate on (layout, operand); any oracle-judged failure '
             'outside that region is reported as a violation.',
        design_ref='7/C15', note=COMMON_NOTE + ' exp/pow accuracy outside the finding region rests on sampled oracle judgements only.', technique='Lean 4 proof (partial) + differential correspondence + mpmath search oracle + known-findings file'),
    'C16': dict(
        text='sin/cos FULL, tan PARTIAL. SfxProps.C16.sin_cos_holds (SfxProps/C16Acc.lean) proves over Mathlib\'s reals, for every supported type and every angle |x| <= 200: '
             '|sin_impl - Real.sin x| <= 2^-16, same for cos, results within [-1-2^-16, 1+2^-16] (proved budget 104.65/105.29 of the 128 units of 2^-23: range reduction 17.3, mirror 1.3, '
             'CORDIC 86.1). Ingredients proved, none assumed: each of the 24 arctan table entries (regenerated from the source) within 2^-53 of Real.arctan 2^-i, pi enclosures for the 23-bit '
             'constants, the rotation invariant with truncation, exact range reduction. tan: tan_holds_8 proves the clause for |tan x| <= 8; C16_statement_partial is the whole statement with '
             'that one weakening; for 8 < |tan x| <= 64 worst-case bounds on the inner calls do not suffice (open), that region is judged by the mpmath search oracle on every run '
             '(worst observed 2^-15.1 of the allowed 2^-14). table_facts/C16_partial (exact integer facts) are kept.',
        design_ref='7/C16', note=COMMON_NOTE + ' The tan bound for 8 < |tan x| <= 64 rests on sampled oracle judgements only.',
        technique='Lean 4 proof (integer CORDIC trace + real analysis) + differential correspondence + mpmath search oracle'),
    'C17': dict(
        text='Theorem SfxProps.C17.holds: for ALL layouts and operands the iteration count recorded by the model of sqrt/log2/ln/exp/pow/sin/cos/tan is at most 4*width+64 '
             '(sharper per-function bounds in `sharp`). The model gives the two data-dependent loops fuel (halving: width+1; range reduction: 2 after the repaired remainder step) and '
             'turns fuel exhaustion into a panic; that this panic is unreachable is part of C12 and is exercised by the correspondence, which compares the hook counter of the real '
             '(fuel-less) loops with the model count on every request incl. MIN/MAX/1ulp. The unbounded range-reduction loops were repaired in /repo (fix c0749e7).',
        design_ref='7/C17', note=COMMON_NOTE + ' Hook: thread-local counter incremented in each loop body of transcendental.rs under the guard.',
        technique='Lean 4 proof (structural tick bounds) over executable model + hook-counter correspondence'),
    'C03': dict(
        text='Theorems SfxProps.C03.fixed_holds / float_holds (full strength): for EVERY ordered pair of valid layouts (integers = zero-fraction layouts, both operand orders) '
             'partial_cmp and the six operators equal the comparison of the exact values; for f32/f64 finite floats compare by exact value in both operand orders, NaN is unordered '
             'and unequal, infinities lie outside; same-type Ord/Eq (and Hash, derived from the bits) coincide with the value order. Four defects found by this check were repaired '
             'in /repo (sign of converted bits, top binade/NaN, subnormal scale, -0.0). Correspondence: typed operators for every family pair x {0,mid,n}^2, 12 integer types, f32/f64.',
        design_ref='7/C03', note=COMMON_NOTE + ' Hash equality is checked through DefaultHasher in the harness only.', technique='Lean 4 proof over executable model + differential correspondence'),
    'C13': dict(
        text='Theorem SfxProps.C13.holds (full strength over the model): for every supported source/destination pair (same type or a widening admitted by From; >= 4 fractional '
             'bits and three magnitude bits above the point, which covers every type of the quantifier) and EVERY operand: no panic and no debug-only check; Err only for negative operands or '
             'operands in (0,1) whose reciprocal is not representable; otherwise 0 <= r and (r-4)^2 <= X <= (r+4)^2 (exact integer bracket = 4 ulp), exact at 0 and 1; on the direct path the '
             'result is within ONE ulp. Proof: the loop is the integer Newton iteration; halving phase + quadratic phase convergence within int_bits/2+8 steps (the code runs >= int_bits/2+10 '
             'after fix d5514a8, which this check motivated). Correspondence + exact bracket verdict in the driver + mpmath search oracle.',
        design_ref='7/C13', note=COMMON_NOTE + ' mpmath is used only to search for failing inputs.', technique='Lean 4 proof (integer Newton convergence) over executable model + differential correspondence'),
    'C11': dict(
        text='Every model function returns ONE Outcome (release value + "a debug-only check fires" flag); theorem profiles_agree: whenever the checking build returns it returns the '
             'release value, for every modelled call; theorem no_debug_only_panic_holds / more_families: the checked/saturating/wrapping/overflowing forms of arithmetic, rounding, remainders, '
             'Euclidean division, float conversions and Wrapping programs never set the flag (corollaries of C02 C05 C06 C07 C18; sqrt: C13). The tie to the code is the point of this check: the '
             'union corpus of the other properties (1.2 M requests in quick) is executed by the harness built WITH and WITHOUT debug assertions/overflow checks and both are compared with the '
             'model projections. Parsing/formatting requests join the corpus once their models are merged. Defects D4, D5, D8 (profile-dependent) were found this way and repaired.',
        design_ref='7/C11', note=COMMON_NOTE + ' Both profiles use opt-level 1; code generation differences beyond the two flags are outside the model.',
        technique='Lean 4 proof (Outcome discipline) + two-profile differential correspondence'),
    'C12': dict(
        text='FULL. Theorems SfxProps.C12.result_functions_hold (sqrt, log2, ln, exp, pow, powi: for every operand of every supported signed type and EVERY integer exponent no panic and no '
             'debug-only check), sin_cos_total (sin for every angle, cos for |x| <= 200 — stronger than asked), log_err_only_when_undefined, log2_iterations, and '
             'SfxProps.C12.tan_total_holds (SfxProps/C12Tan.lean): tan returns Ok without panic or debug-only check for every |x| <= 100 with |Real.tan x| <= 64 — the non-zero denominator '
             'and representable quotient follow from the proved sin/cos accuracy (C16). tan_partial/tan_panic_example show the condition is sharp (an I9F23 angle 6e-6 below pi/2 panics). '
             'SfxProps/C12Pairs.lean: the same for DIFFERENT source and destination types (D: From<S>, both supported). Correspondence in both profiles incl. i32::MIN exponents; panics observed only outside the property\'s domain.',
        design_ref='7/C12', note=COMMON_NOTE, technique='Lean 4 proof (value invariants through the loops; real analysis for tan) over executable model + two-profile correspondence'),
    'C13': dict(
        text='Theorem SfxProps.C13.holds (full strength over the model): for every supported source/destination pair (same type or a widening admitted by From; >= 4 fractional '
             'bits and three magnitude bits above the point, which covers every type of the quantifier) and EVERY operand: no panic and no debug-only check; Err only for negative operands or '
             'operands in (0,1) whose reciprocal is not representable; otherwise 0 <= r and (r-4)^2 <= X <= (r+4)^2 (exact integer bracket = 4 ulp), exact at 0 and 1; on the direct path the '
             'result is within ONE ulp. Proof: the loop is the integer Newton iteration; halving phase + quadratic phase convergence within int_bits/2+8 steps (the code runs >= int_bits/2+10 '
             'after fix d5514a8, which this check motivated). Correspondence + exact bracket verdict in the driver + mpmath search oracle.',
        design_ref='7/C13', note=COMMON_NOTE + ' mpmath is used only to search for failing inputs.', technique='Lean 4 proof (integer Newton convergence) over executable model + differential correspondence'),
    'C11': dict(
        text='Every model function returns ONE Outcome (release value + "a debug-only check fires" flag); theorem profiles_agree: whenever the checking build returns it returns the '
             'release value, for every modelled call; theorem no_debug_only_panic_holds / more_families: the checked/saturating/wrapping/overflowing forms of arithmetic, rounding, remainders, '
             'Euclidean division, float conversions and Wrapping programs never set the flag (corollaries of C02 C05 C06 C07 C18; sqrt: C13). The tie to the code is the point of this check: the '
             'union corpus of the other properties (1.2 M requests in quick) is executed by the harness built WITH and WITHOUT debug assertions/overflow checks and both are compared with the '
             'model projections. Parsing/formatting requests join the corpus once their models are merged. Defects D4, D5, D8 (profile-dependent) were found this way and repaired.',
        design_ref='7/C11', note=COMMON_NOTE + ' Both profiles use opt-level 1; code generation differences beyond the two flags are outside the model.',
        technique='Lean 4 proof (Outcome discipline) + two-profile differential correspondence'),
    'C12': dict(
        text='Theorems SfxProps.C12.result_functions_hold (sqrt, log2, ln, exp, pow, powi: for every operand of every supported signed type and EVERY integer exponent no panic and no '
             'debug-only check — full), sin_cos_total (sin for every angle, cos for |x| <= 200 — full, stronger than asked), log_err_only_when_undefined, log2_iterations. '
             'tan: PARTIAL (tan_partial): the two inner calls are total and tan panics/flags exactly when the computed denominator is zero / the quotient does not fit; that this cannot '
             'happen where |tan x| <= 64 needs the unproved accuracy of cos (C16). Correspondence in both profiles incl. i32::MIN exponents; panics observed only outside the property\'s domain.',
        design_ref='7/C12', note=COMMON_NOTE, technique='Lean 4 proof (value invariants through the loops) over executable model + two-profile correspondence'),
    'C14': dict(
        text='FULL. Theorem SfxProps.C14.holds proves C14_statement over Mathlib\'s reals (Real.logb 2, Real.log) for every source layout S and supported destination D with D: From<S> '
             '(S = D included) and every operand: |r - log2 x| <= 8 ulp (the proof gives 4.5), |r - ln x| <= 2^-23 |ln x| + 8 ulp (the proof gives 4.2; the relative term is the truncated '
             'LOG2_E constant, bounded with Real.log_two_gt_d9/lt_d9), the sign claims, exactness on every power of two, the exact Err condition, no panic. '
             'The mpmath oracle still judges the implementation\'s answers on every run (worst observed 0.43 of the bound) as the search for failing inputs when the correspondence breaks.',
        design_ref='7/C14', note=COMMON_NOTE, technique='Lean 4 proof (integer trace + potential-function argument over the reals) + differential correspondence + mpmath search oracle'),
    'C15': dict(
        text='PARTIAL + KNOWN FINDING. Full statement C15_statement in SfxProps/C15.lean; theorem C15_partial proves the whole powi clause (exact rational error bound (n-1) ulp * max(1,|x|)^(n-1) '
             'for n >= 2, truncated reciprocal for n < 0), the conventions 0^y, x^0, x^1 of pow and powi, totality (C12). NOT proved: error bounds of exp and pow. exp violates the property '
             'for large operands (truncated series, no argument reduction): recorded as known finding D10 (ids D10-exp, D10-pow) with a predicate on (layout, operand); any oracle-judged failure '
             'outside that region is reported as a violation.',
        design_ref='7/C15', note=COMMON_NOTE + ' exp/pow accuracy outside the finding region rests on sampled oracle judgements only.', technique='Lean 4 proof (partial) + differential correspondence + mpmath search oracle + known-findings file'),
    'C16': dict(
        text='PARTIAL. Full statement C16_statement in SfxProps/C16.lean; proved: C16_partial (exact range reduction modulo the 23-bit 2pi constant into [-pi,pi] and mirror into [-pi/2,pi/2] for '
             'EVERY angle; the model CORDIC equals the plain-integer iteration, profile-independent, bounded by 3) and table_facts over the regenerated constants (24 arctan entries within 2^-54-i '
             'of Gregory series, convergence condition, coverage of pi/2, entry 0 = truncated consts::PI, gain^2 * prod(1+4^-i) in [1, 1+2^-31)). NOT proved: the real-analysis step to the 2^-16 / '
             '2^-14 bounds; judged on every run by the mpmath search oracle (worst observed 0.22 of the bound).',
        design_ref='7/C16', note=COMMON_NOTE + ' The numeric error bounds rest on sampled oracle judgements only.', technique='Lean 4 proof (partial) + translator-checked tables + differential correspondence + mpmath search oracle'),
    'C08': dict(
        text='FULL. Theorems SfxProps.C08.holds (= C08_statement: for every byte string, radix 2/8/10/16 and valid layout the model of from_str_{i,u}N returns, without panic or debug-only check, '
             'the half-even rounding E of the literal\'s exact rational value modulo 2^n with the flag "E out of range", or a non-overflow error for a malformed string) and forms_hold (the four public '
             'forms FromStr.parse: plain = E or the overflow error exactly when E is out of range, saturating = E clamped to the bound on the literal\'s side, wrapping/overflowing = E mod 2^n [+ flag]). '
             'Proof covers the tokeniser, integer folds with the half-width delegation chain, binary/octal/hex fractions, the decimal fast path dec_to_bin (four widening widths and the two-limb u128 '
             'version over the proved wide division) and the slow-path boundary loop. Tie: the 580-line function-by-function model agrees with the code on every request (hook on all 507 layouts x 4 radices '
             '+ 16 public entry points, grammar-/tie-directed literals up to 200 digits, malformed and non-UTF-8 input, both profiles); every implementation answer is also judged against the exact '
             'specification. Two defects found this way were repaired (292489c, 8a5b41d).',
        design_ref='7/C08', note=COMMON_NOTE, technique='Lean 4 proof (model = exact rational specification) + differential correspondence'),
    'C09': dict(
        text='PARTIAL (theorems in progress). The function-by-function model of display.rs agrees with the code on every request (hook fmt_dec/fmt_radix2 on all 507 layouts, 2112 literal format-spec combinations, '
             'precision 0..200, width 0..140, both profiles); every implementation answer is judged by an exact-rational verdict (digits shown = half-even rounding at the requested/shown precision, radix 2^k exact, '
             'length = max(width, core), padding consists of fill/zeros only) and the default output of every 8-bit value and of sampled wider values is parsed back by the implementation. Theorems over the model '
             '(totality + flags-only-pad, radix digits exact, decimal digits correctly rounded) are being proved. One defect found this way was repaired (fcf22ad).',
        design_ref='7/C09', note=COMMON_NOTE + ' Until the theorems are merged the "holds" verdict for C09 rests on sampled exact-verdict judgements.',
        technique='Lean 4 executable model + exact-rational verdict + differential correspondence (proofs in progress)'),
}
