HOOK_COMMITS = ['bf32749', 'ca41ce7', '513c013', '89b92b2']
FIX_COMMITS = ['f0a070f', '9d43084', '8b6f7d6', '44b358d', '6c0952c', 'b384356', '459b89c', '2eade63', '8b28cef', 'c0749e7', 'd5514a8', '292489c', '8a5b41d', 'fcf22ad']
NOTES = ('Machine-checked proof in Lean 4 over a hand-written model, tied to /repo on every run by a translator (data) and a '
         'differential correspondence check (code). See DESIGN.md. Repaired defects are listed in known_findings.txt as fixed: lines.')
NOT_YET = {}
COMMON_NOTE = ('Trusted: Lean kernel; axioms propext/Classical.choice/Quot.sound only (audited with #print axioms on every run); the model is tied to the '
               'code by differential execution on generated requests in two build profiles (sampled, exhaustive only where stated) and by the translator; '
               'Rust primitive-integer semantics as documented.')
CLAIMED = {
    'C01': dict(
        text='Theorems (SfxProps.C01) state that the modelled mul_overflow/div_overflow (widening and 128-bit fallback) return the exactly rounded '
             'product/quotient with the exact overflow flag for every layout and operand pair; correspondence ties the model to the code on all 507 '
             'layouts (hooks) and the public forms (typed), in both build profiles. Theorem status (full/partial) is recorded in the evidence. '
             'SfxProps/C01Spec.lean: "exactly rounded true result" without / and tdiv: mulSpec is the unique grid point m with m <= x*y < m + 1 ulp, divSpec the unique grid point between 0 and x/y '
             'less than one ulp from it (mulSpec_is_floor, floor_product_unique, divSpec_is_trunc, trunc_quotient_unique); holds_by_sentence restates the clauses against those sentences.',
        design_ref='7/C01', note=COMMON_NOTE, technique='Lean 4 proof over executable model + differential correspondence'),
    'C02': dict(
        text='Theorems (SfxProps.C02): each checked/saturating/wrapping/overflowing form of the modelled operations equals the documented function of one '
             'exact result and has no debug-only panic; correspondence on the public API in both profiles. '
             'Also proved and exercised (SfxProps/C02Ops.lean, request fprog): the operator trait impls of the plain types in every variant (by value / by reference / assigning, integer right- and left-hand sides, shifts with the 12 amount types, Sum/Product): each program of any length equals the documented run under both profiles (exact result wrapped in release, panic under checks exactly when it does not fit), and the release run is the Wrapping<F> run. SfxProps/C02Spec.lean: the four overflow treatments every statement is written with are characterised without %: wrap = THE representable value congruent to the exact result modulo 2^n (wrapI_is_wrapped, wrapped_unique), saturate = THE representable value nearest to it (clampI_is_nearest, nearest_unique), checked/overflowing by their sentences (chkI_sentence, ovfI_sentence).',
        design_ref='7/C02', note=COMMON_NOTE, technique='Lean 4 proof over executable model + differential correspondence'),
    'C03': dict(
        text='Theorems SfxProps.C03.fixed_holds / float_holds (full strength): for EVERY ordered pair of valid layouts (integers = zero-fraction layouts, both operand orders) '
             'partial_cmp and the six operators equal the comparison of the exact values; for f32/f64 finite floats compare by exact value in both operand orders, NaN is unordered '
             'and unequal, infinities lie outside; same-type Ord/Eq (and Hash, derived from the bits) coincide with the value order. Four defects found by this check were repaired '
             'in /repo (sign of converted bits, top binade/NaN, subnormal scale, -0.0). Correspondence: typed operators for every family pair x {0,mid,n}^2, 12 integer types, f32/f64.'
             ' SfxProps/C03Half.lean: the float statement for half::f16 / half::bf16 (feature f16); partial_cmp and the six operators on all 65 536 patterns of two types in quick, all typed layouts in thorough. SfxProps/C03Spec.lean: the integer cross-multiplication cmpExact is the three-way order of the exact RATIONAL values a/2^fa and b/2^fb (cmpExact_orders_values, over the rationals of Mathlib); fixed_by_values restates the six operators as the order of those values.',
        design_ref='7/C03', note=COMMON_NOTE + ' Hash equality is checked through DefaultHasher in the harness only.', technique='Lean 4 proof over executable model + differential correspondence'),
    'C04': dict(
        text='Theorem SfxProps.C04.holds (full strength): for EVERY ordered pair of valid layouts (integers = zero-fraction layouts) and every source value the '
             'overflowing/checked/wrapping/saturating/plain conversion forms equal the documented functions of the exact result floor(x*2^fd/2^fs); From is '
             'value-preserving and cannot overflow under its type-level bound, LossyFrom loses only fractional bits, and the bound is tight (bound_tight). Built on a '
             'proved specification of to_fixed_helper (neg/dir/bits/overflow, all shift amounts incl. >= 128). Correspondence: helper hook on all primitives, typed '
             'conversions for every family pair x {0, mid, n}^2 fractional bits and all 12 integer types + bool, both profiles. The From/LossyFrom admissibility table of '
             'convert.rs is not yet regenerated by the translator (the predicate is stated in Lean by hand). '
             'SfxProps/C04Prim.lean: the type-level From/LossyFrom impls between fixed-point types and primitives (int, bool, f32/f64; 287 impl rows extracted by the translator into GeneratedConv.lean and proved sound row by row), exact/floor/nearest-even as documented, instantiated per admissible pair by the harness.'
             ' SfxProps/C04Cast.lean: the az cast traits of src/cast.rs (Cast, CheckedCast, SaturatingCast, WrappingCast, OverflowingCast, StaticCast; feature az) are these conversions under other names (casts_hold, to_integer, from_integer), StaticCast is Some(exact) exactly when every source value converts (static_cast); own harness bin `cast`, 0.39 M requests, both profiles. SfxProps/C04Spec.lean: convExact characterised without /: the unique destination pattern m with m/2^fd <= x/2^fs < (m+1)/2^fd, and equal to the source value whenever a destination pattern has that value (always when fd >= fs): convExact_is_floor, floor_conv_unique, exact_when_representable, exact_when_widening_frac, holds_by_sentence. SfxProps/C05Spec.lean: float to fixed as a sentence with one solution: exact when the float lies on the grid, otherwise THE grid value at distance at most half a unit, the even pattern on a tie (rneShift_is_nearest_even, nearest_even_unique, floatToGrid_is_nearest, nearest_grid_unique; built on C06Spec).',
        design_ref='7/C04', note=COMMON_NOTE, technique='Lean 4 proof over executable model + differential correspondence'),
    'C05': dict(
        text='Theorem SfxProps.C05.holds (full strength, f32 and f64, all 507 layouts): float->fixed gives the grid value nearest to the exact float value (ties to even) under '
             'the four policies with overflow decided on the rounded value; NaN/infinity are rejected as documented; fixed->float equals the textbook IEEE-754 '
             'round-to-nearest-even (subnormals, overflow to infinity) and that textbook definition is itself proved nearest/ties-to-even. Four defects found by this check '
             'were repaired in /repo (top binade/NaN classification, subnormal scale, -0.0). Correspondence: both helper hooks on all layouts + the public API, both profiles.'
             " SfxProps/C05Half.lean: the same statement for the crate's f16 feature (half::f16, half::bf16), incl. f16 subnormal results and overflow to infinity; tied to the code EXHAUSTIVELY: all 65 536 bit patterns of both formats through to_float_kind on 10 (width, frac) pairs in quick and all 253 in thorough, and through the public conversions on two 8/16-bit types (all typed layouts in thorough). SfxProps/C04Cast.lean float_casts_hold: the az cast traits (src/cast.rs) for floats.",
        design_ref='7/C05', note=COMMON_NOTE, technique='Lean 4 proof over executable model + differential correspondence'),
    'C06': dict(
        text='Theorem SfxProps.C06.holds (full strength, all 507 layouts incl. 0 and 1 integer bits): each overflowing_{ceil,floor,round,round_ties_to_even} equals '
             '(exact rounding mod 2^n, exact flag); checked/saturating/wrapping/plain forms follow; round_to_zero = truncation without any check firing; int+frac split. '
             'Mask constants INT_MASK/FRAC_MASK/INT_LSB/FRAC_MSB proved from their bit-operation definitions. Correspondence: all 23 public methods, 8-bit exhaustive on '
             'all 18 layouts, both profiles. SfxProps/C06Spec.lean: the exact roundings the theorem refers to are characterised WITHOUT / and %: each satisfies the order-theoretic sentence of the '
             'documentation (greatest whole number <= a; nearest, ties away from zero; nearest, ties to even; between zero and a) and that sentence has exactly one solution '
             '(exactR_is_rounding, rounding_unique, truncE_is_trunc, trunc_unique); holds_by_sentence restates C06 against the sentence itself.',
        design_ref='7/C06', note=COMMON_NOTE, technique='Lean 4 proof over executable model + differential correspondence'),
    'C07': dict(
        text='Theorem SfxProps.C07.holds (full strength, all layouts, all operands): % = truncated remainder, rem_euclid = Euclidean remainder, '
             'div_euclid forms = the four documented functions of the exact Euclidean quotient, likewise for primitive-integer divisors (incl. the divisor '
             'whose fixed-point image does not fit and the unsigned-arithmetic tail of rem_euclid_int); zero divisor: None / documented panic; no check fires. '
             'The div_euclid family was repaired in /repo (fix 44b358d) after the check reproduced the defect. Correspondence: 19 public methods, both profiles. '
             'SfxProps/C07Forms.lean adds wrapping_rem_int / overflowing_rem_int (inherent and trait-provided), which the first version had missed (found by the coverage measurement). '
             'SfxProps/C07Spec.lean: the numbers the statement is written with (Int.tmod, %, /) are characterised by the sentences of the property text (remainder with the sign of the dividend and |r| < |b|; '
             'the unique r with 0 <= r < |b| and b | a - r; the q with a = q*b + r) and each sentence has exactly one solution (tmod_is_trunc, trunc_rem_unique, emod_is_euclid, euclid_pair_unique); '
             'holds_by_sentence restates the fixed-point-divisor clauses against the sentences.',
        design_ref='7/C07', note=COMMON_NOTE, technique='Lean 4 proof over executable model + differential correspondence'),
    'C08': dict(
        text='FULL. Theorems SfxProps.C08.holds (= C08_statement: for every byte string, radix 2/8/10/16 and valid layout the model of from_str_{i,u}N returns, without panic or debug-only check, '
             'the half-even rounding E of the literal\'s exact rational value modulo 2^n with the flag "E out of range", or a non-overflow error for a malformed string) and forms_hold (the four public '
             'forms FromStr.parse: plain = E or the overflow error exactly when E is out of range, saturating = E clamped to the bound on the literal\'s side, wrapping/overflowing = E mod 2^n [+ flag]). '
             'Proof covers the tokeniser, integer folds with the half-width delegation chain, binary/octal/hex fractions, the decimal fast path dec_to_bin (four widening widths and the two-limb u128 '
             'version over the proved wide division) and the slow-path boundary loop. Tie: the 580-line function-by-function model agrees with the code on every request (hook on all 507 layouts x 4 radices '
             '+ 16 public entry points, grammar-/tie-directed literals up to 200 digits, malformed and non-UTF-8 input, both profiles); every implementation answer is also judged against the exact '
             'specification. Two defects found this way were repaired (292489c, 8a5b41d). SfxProps/C08Spec.lean: the round-half-even sentence of rneDiv_spec has exactly one solution (IsNearestEven, nearest_even_unique), so the correctly rounded value of a literal is fixed by the sentence, not by the / and % formula.',
        design_ref='7/C08', note=COMMON_NOTE, technique='Lean 4 proof (model = exact rational specification) + differential correspondence'),
    'C09': dict(
        text='FULL. Theorems SfxProps.C09.holds (= C09_statement, for every valid layout, value, formatting trait and format spec with any sign/width/fill/alignment/+/#/0 and any precision < 2^16: '
             'no panic, no debug-only check; the output is exactly assemble(sign, prefix, padding) around a digit string digitsOf(kind, precision, |x|) that does not depend on sign or flags; digits '
             'canonical and in range; Binary/Octal/Hex digits denote the value exactly, Display/Debug digits are the half-even rounding at the digits shown and strictly within half an ulp of the type; '
             'with precision p the digits are the half-even rounding at p digits in every radix), flags_only_pad, debug_eq_display, and round_trip (the default output parses back through the modelled '
             'from_str, using C08, to exactly the same bits without overflow). Tie: the function-by-function model of display.rs agrees with the code on every request (all 507 layouts, 2112 format '
             'specs incl. multi-byte fill, both profiles); every printed string is also judged by the exact-rational verdict and parsed back by the implementation. Defect found this way repaired (fcf22ad). '
             'SfxProps/C09Verdict.lean: the checker\'s own exact-rational verdict on printed strings is proved to accept everything the model prints (no false alarm possible from it when implementation = model).',
        design_ref='7/C09', note=COMMON_NOTE + ' Not proved (not asked): minimality of the library-chosen digit count.', technique='Lean 4 proof (model = exact rational specification) + differential correspondence'),
    'C10': dict(
        text='Theorems (SfxProps.C10): encode has width/8 bytes, equals to_le_bytes and ignores the fractional-bit count; decode(encode a ++ rest) = (a, |rest|); '
             'short input fails; le/be/ne byte views and from_*_bytes are mutually inverse bijections; the struct description regenerated from lib.rs '
             '(fields, repr, derives, no #[codec] attribute, no manual impl) is checked by a theorem over Generated.lean. Correspondence on the public '
             'Encode/Decode/MaxEncodedLen API and byte views (8-bit exhaustive), under both build profiles (a seeded hand-written Encode that only panics under overflow checks showed the need). '
             'SfxProps/C10Serde.lean: the serde representation (crate feature serde, through serde_json and serde_cbor, both offline): ser = exactly {"bits":<canonical decimal>} independent of the layout, '
             'de(ser x) = x, out-of-range integers rejected, Wrapping identical, white space and the sequence form accepted; 0.3 M requests incl. ~120 rejection classes. SfxProps/C10Spec.lean: little-endian as a sentence with one solution: n/8 entries, each a byte, sum b_i*256^i = the n-bit pattern (leBytes_is_le, le_unique, fromLe_lt, encode_by_sentence).',
        design_ref='7/C10', note=COMMON_NOTE + ' parity-scale-codec derive semantics (fields in order, PhantomData encodes to nothing) are assumed and cross-checked by the correspondence.',
        technique='Lean 4 proof over executable model + translator-checked struct description + differential correspondence'),
    'C11': dict(
        text='Every model function returns ONE Outcome (release value + "a debug-only check fires" flag); theorem profiles_agree: whenever the checking build returns it returns the '
             'release value, for every modelled call; theorem no_debug_only_panic_holds / more_families: the checked/saturating/wrapping/overflowing forms of arithmetic, rounding, remainders, '
             'Euclidean division, float conversions and Wrapping programs never set the flag (corollaries of C02 C05 C06 C07 C18; sqrt: C13). The tie to the code is the point of this check: the '
             'union corpus of the other properties (1.2 M requests in quick) is executed by the harness built WITH and WITHOUT debug assertions/overflow checks and both are compared with the '
             'model projections. Parsing/formatting requests join the corpus once their models are merged. Defects D4, D5, D8 (profile-dependent) were found this way and repaired. '
             'SfxProps/C11Bits.lean: shift forms (checked/wrapping/overflowing/plain, 12 amount types), rotations, bit counting, signum, next_power_of_two, type constants: model = bit-pattern specification as Outcomes, so the only debug-only panics are the documented ones (shift amount outside 0..n-1, next_power_of_two overflow, signum when +-1 is not representable). The union corpus now also contains the codec family, the plain-operator programs, the primitive From impls and this family.',
        design_ref='7/C11', note=COMMON_NOTE + ' Both profiles use opt-level 1; code generation differences beyond the two flags are outside the model.',
        technique='Lean 4 proof (Outcome discipline) + two-profile differential correspondence'),
    'C12': dict(
        text='FULL. Theorems SfxProps.C12.result_functions_hold (sqrt, log2, ln, exp, pow, powi: for every operand of every supported signed type and EVERY integer exponent no panic and no '
             'debug-only check), sin_cos_total (sin for every angle, cos for |x| <= 200 — stronger than asked), log_err_only_when_undefined, log2_iterations, and '
             'SfxProps.C12.tan_total_holds (SfxProps/C12Tan.lean): tan returns Ok without panic or debug-only check for every |x| <= 100 with |Real.tan x| <= 64 — the non-zero denominator '
             'and representable quotient follow from the proved sin/cos accuracy (C16). tan_partial/tan_panic_example show the condition is sharp (an I9F23 angle 6e-6 below pi/2 panics). '
             'SfxProps/C12Pairs.lean: the same for DIFFERENT source and destination types (D: From<S>, both supported). Correspondence in both profiles incl. i32::MIN exponents; panics observed only outside the property\'s domain.'
             " The correspondence verdict also states the clause 'results that do not fit yield Err' where it is decidable in integers (powi: |x|^n >= 2*2^ib; exp: x > ib*ln 2, exp negative); on the unchanged tree this shows known finding D10 (exp's truncated series) under C12 as well: exp::<I96F32>(65.9) = Ok(5.4e22) although e^65.9 > 2^95 (KNOWN-FINDING line, id D10-exp).",
        design_ref='7/C12', note=COMMON_NOTE, technique='Lean 4 proof (value invariants through the loops; real analysis for tan) over executable model + two-profile correspondence'),
    'C13': dict(
        text='Theorem SfxProps.C13.holds (full strength over the model): for every supported source/destination pair (same type or a widening admitted by From; >= 4 fractional '
             'bits and three magnitude bits above the point, which covers every type of the quantifier) and EVERY operand: no panic and no debug-only check; Err only for negative operands or '
             'operands in (0,1) whose reciprocal is not representable; otherwise 0 <= r and (r-4)^2 <= X <= (r+4)^2 (exact integer bracket = 4 ulp), exact at 0 and 1; on the direct path the '
             'result is within ONE ulp. Proof: the loop is the integer Newton iteration; halving phase + quadratic phase convergence within int_bits/2+8 steps (the code runs >= int_bits/2+10 '
             'after fix d5514a8, which this check motivated). Correspondence + exact bracket verdict in the driver + mpmath search oracle. '
             'SfxProps/C13Real.lean (holds_real) reads the integer bracket as the property\'s sentence over Mathlib\'s Real.sqrt: |r - sqrt x| <= 4 ulp for every From<S> pair.',
        design_ref='7/C13', note=COMMON_NOTE + ' mpmath is used only to search for failing inputs.', technique='Lean 4 proof (integer Newton convergence) over executable model + differential correspondence'),
    'C14': dict(
        text='FULL. Theorem SfxProps.C14.holds proves C14_statement over Mathlib\'s reals (Real.logb 2, Real.log) for every source layout S and supported destination D with D: From<S> '
             '(S = D included) and every operand: |r - log2 x| <= 8 ulp (the proof gives 4.5), |r - ln x| <= 2^-23 |ln x| + 8 ulp (the proof gives 4.2; the relative term is the truncated '
             'LOG2_E constant, bounded with Real.log_two_gt_d9/lt_d9), the sign claims, exactness on every power of two, the exact Err condition, no panic. '
             'The mpmath oracle still judges the implementation\'s answers on every run (worst observed 0.43 of the bound) as the search for failing inputs when the correspondence breaks.',
        design_ref='7/C14', note=COMMON_NOTE, technique='Lean 4 proof (integer trace + potential-function argument over the reals) + differential correspondence + mpmath search oracle'),
    'C15': dict(
        text='PARTIAL + TWO KNOWN FINDINGS, each side proved. SfxProps/C15Acc.lean over the reals: (exp) statement_false: NOT C15_statement by a formal counterexample exp::<I32F32>(20.0) (kernel-evaluated '
             'result 481239358.98, e^20 > 485165190) = finding D10 (truncated series, ids D10-exp/D10-pow, predicate: omitted tail > 2^-24 e^x); exp_holds_outside_D10: the exp clause word for word for every supported type and EVERY operand outside the finding (hypothesis = negation of the finding\'s predicate: omitted series tail <= 2^-24 e^|x|), '
             'so the exp clause is decided everywhere (exp_holds_wide, |x| <= f/4, is the part that needs no tail hypothesis). (pow) pow_holds_small: the pow clause for |y ln x| <= 7/2 and |y| <= 2^f/32 (every '
             'exponent of types with intBits + 4 <= f); pow_clause_false: the pow clause fails independently of exp at pow::<I41F23>(1+2^-23, -2^26) = 1.0 (true value < 1/1000) = NEW finding D16 '
             '(ln\'s absolute 8-ulp error times |y|; id D16-pow-ln-abs, predicate 8|y| ulp > 1), confirmed on the implementation and replayed on every run. SfxProps/C15.lean: C15_partial proves the whole powi '
             'clause and the conventions 0^y, x^0, x^1. pow_holds_outside_findings: the pow clause word for word for 8|y| ulp <= 1 (negation of D16\'s predicate) and the series tail at |y ln x| + 1 at most 2^-24 e^(|y ln x| + 1) (negation of D10\'s predicate one unit further out; tail_mono, ln_accuracy_sharp). NOT proved: the strip of width 1 in |y ln x| next to D10\'s region; any oracle-judged failure outside the findings\' regions is a VIOLATION. '
             'SfxProps/C15Pairs.lean: all of this for DIFFERENT source and destination types (exp/pow/powi::<S,D> proved equal as computations to the same-type functions on the widened operands), and the powi clause over the reals word for word (powi_real, pairs_partial).',
        design_ref='7/C15', note=COMMON_NOTE + ' The bands between the proved regions and the findings\' regions rest on sampled oracle judgements.',
        technique='Lean 4 proof (partial by necessity: theorems outside the two findings, formal counterexamples inside) + differential correspondence + mpmath search oracle + known-findings file'),
    'C16': dict(
        text='FULL. Theorem SfxProps.C16.holds (= C16_statement, SfxProps/C16Acc.lean) over Mathlib\'s reals for every supported signed type and operand: sin/cos within 2^-16 for |x| <= 200 (proved budget '
             '104.65/105.29 of 128 units of 2^-23) and within [-1-2^-16, 1+2^-16]; tan within (1+tan^2 x)/2^14 for |x| <= 100, |tan x| <= 64. Nothing assumed: each arctan table entry (regenerated from the '
             'source) within 2^-53 of Real.arctan 2^-i, pi enclosures for the 23-bit constants, rotation invariant with truncation, angle-/vector-error separation for tan. The tan clause is closed by real '
             'analysis alone for f >= 24; for f = 23 (three widths, computation proved width-independent) and 30 < |tan x| <= 64 the kernel evaluates the inner cos call\'s 24 CORDIC steps on all 299 000 '
             'grid points of the near-pole window (decide +kernel over a Nat encoding proved equal to the model; 16 generated files, tools/gen_tan3.py; no native_decide) against a certified cosine enclosure. '
             'The mpmath oracle keeps judging the implementation\'s answers on every run (search for failing inputs when the correspondence breaks).',
        design_ref='7/C16', note=COMMON_NOTE,
        technique='Lean 4 proof (integer CORDIC trace + real analysis + kernel enumeration of one window) + differential correspondence + mpmath search oracle'),
    'C17': dict(
        text='Theorem SfxProps.C17.holds: for ALL layouts and operands the iteration count recorded by the model of sqrt/log2/ln/exp/pow/sin/cos/tan is at most 4*width+64 '
             '(sharper per-function bounds in `sharp`). The model gives the two data-dependent loops fuel (halving: width+1; range reduction: 2 after the repaired remainder step) and '
             'turns fuel exhaustion into a panic; that this panic is unreachable is part of C12 and is exercised by the correspondence, which compares the hook counter of the real '
             '(fuel-less) loops with the model count on every request incl. MIN/MAX/1ulp. The unbounded range-reduction loops were repaired in /repo (fix c0749e7).',
        design_ref='7/C17', note=COMMON_NOTE + ' Hook: thread-local counter incremented in each loop body of transcendental.rs under the guard.',
        technique='Lean 4 proof (structural tick bounds) over executable model + hook-counter correspondence'),
    'C18': dict(
        text='Theorem SfxProps.C18.holds: for every layout, every start value and every well-formed program of Wrapping<F> operations of ANY length, the modelled run '
             'equals the documented run (exact result reduced mod 2^n at each step, shift amounts reduced mod the width, panic only for a zero divisor) and is identical '
             'under both build profiles; built on the C01/C02/C06/C07 theorems. Correspondence: programs of 1..12 steps over every impl variant (by value / by reference / '
             'assigning, 12 shift-amount types, integer right-hand sides, sum/product) in both profiles; Wrapping::from_num (fixed, 12 integer types, bool, f32/f64), Wrapping::to_num and '
             'Wrapping::from_str / from_str_binary/_octal/_hex are exercised through their own entry points and answered by the wrapping forms of the C04/C05/C08 models; '
             'SfxProps/C18Entry.lean (from_num_fixed, from_num_float, from_str) restates what is proved about those forms in C18\'s terms. SfxProps/C02Spec.lean: the four overflow treatments every statement is written with are characterised without %: wrap = THE representable value congruent to the exact result modulo 2^n (wrapI_is_wrapped, wrapped_unique), saturate = THE representable value nearest to it (clampI_is_nearest, nearest_unique), checked/overflowing by their sentences (chkI_sentence, ovfI_sentence).',
        design_ref='7/C18', note=COMMON_NOTE, technique='Lean 4 proof (induction over programs) over executable model + differential correspondence'),
}
