#!/bin/bash
# usage: seed_eval.sh <seed id> <worktree> <subdir with patch.diff demo.rs README.md> <checks to run, e.g. "C02 C11">
# 1. confirms in the scratch worktree: 66 tests pass with the change, demo fails with it and passes without it
# 2. stores the seed under /verif/seeded/<id>/, applies the patch to /repo, runs the named quick checks, restores /repo
set -u
ID="$1"; WT="$2"; SUB="$3"; CHECKS="$4"
export CARGO_NET_OFFLINE=true
DST=/verif/seeded/$ID; mkdir -p $DST
cp "$WT/$SUB/patch.diff" "$WT/$SUB/demo.rs" $DST/ 2>/dev/null; cp "$WT/$SUB/README.md" $DST/README.md 2>/dev/null
cd "$WT" && git checkout -q -- src && rm -f tests/seed_demo.rs
mkdir -p tests && cp $DST/demo.rs tests/seed_demo.rs
echo "== demo WITHOUT the change (must pass)"; cargo test --offline ${SEED_FEATURES:-} --test seed_demo 2>&1 | grep -E "^test result|error\[" | head -3; R_CLEAN=${PIPESTATUS[0]}
git apply $DST/patch.diff || { echo "PATCH DOES NOT APPLY"; exit 2; }
echo "== 66 unit tests WITH the change (must pass)"; cargo test --offline --lib 2>&1 | grep -E "^test result" | head -2
echo "== demo WITH the change (must fail)"; cargo test --offline ${SEED_FEATURES:-} --test seed_demo 2>&1 | grep -E "^test result|panicked" | sort -r | head -4
git checkout -q -- src; rm -f tests/seed_demo.rs
echo "== checks on /repo with the change applied"
cd /repo && git diff --quiet || { echo "/repo is dirty, abort"; exit 3; }
git -C /repo apply $DST/patch.diff || { echo "PATCH DOES NOT APPLY TO /repo"; exit 2; }
cd /verif
# evidence/ is rewritten by every run: keep the clean-tree record aside and put it back afterwards
EVBAK=$(mktemp -d /root/work/evbak.XXXXXX); cp -a /verif/evidence/. $EVBAK/
: > $DST/check_output.txt
for c in $CHECKS; do
  timeout 1500 ./check.sh $c quick > /tmp/seed_eval.$$ 2>&1; rc=$?
  echo "--- $c rc=$rc" | tee -a $DST/check_output.txt
  grep -E "VIOLATION|KNOWN-FINDING|^C[0-9]+ quick" /tmp/seed_eval.$$ | cut -c1-300 | tee -a $DST/check_output.txt
  rp=$(grep -oE "replay=[^ ]+" /tmp/seed_eval.$$ | head -1 | cut -d= -f2)
  if [ -n "$rp" ] && [ -f "$rp" ]; then head -8 "$rp" | cut -c1-220 | tee -a $DST/check_output.txt; fi
done
rm -f /tmp/seed_eval.$$
git -C /repo checkout -- .
cp -a $EVBAK/. /verif/evidence/; rm -rf $EVBAK
python3 /verif/tools/gen_from_source.py > /dev/null   # Generated.lean back to the unchanged tree's data
git -C /repo status --short | head -3
