"""Request generators for the correspondence check (structured, seeded, edge-biased).

Every random choice derives from one `random.Random(seed)` per work unit, so a run replays exactly.
A request is one text line: `<op> <signed 0|1> <nbits> <frac> <args...>`.
"""
import random, os
VERIF = os.environ.get('SFX_VERIF') or os.path.dirname(os.path.dirname(os.path.realpath(__file__)))

WIDTHS = [8, 16, 32, 64, 128]

def quick_fracs():
    out = {}
    for line in open(VERIF + '/harness/fracs_quick.txt'):
        line = line.strip()
        if not line or line.startswith('#'):
            continue
        n, rest = line.split(':')
        out[int(n)] = [int(x) for x in rest.split()]
    return out

def all_layouts():
    return [(s, n, f) for s in (0, 1) for n in WIDTHS for f in range(n + 1)]

def typed_layouts(tier):
    if tier == 'thorough_all':
        return all_layouts()
    q = quick_fracs()
    return [(s, n, f) for s in (0, 1) for n in WIDTHS for f in q[n]]

def rng_range(s, n):
    return (-(1 << (n - 1)), (1 << (n - 1)) - 1) if s else (0, (1 << n) - 1)

def clip(s, n, x):
    lo, hi = rng_range(s, n)
    return min(max(x, lo), hi)

def wrap(s, n, x):
    x &= (1 << n) - 1
    if s and x >> (n - 1):
        x -= 1 << n
    return x

def edges(s, n, f):
    lo, hi = rng_range(s, n)
    one = 1 << f
    half = one >> 1
    c = {0, 1, 2, 3, lo, lo + 1, lo + 2, hi, hi - 1, hi - 2, one, one + 1, one - 1, half, half + 1, half - 1,
         2 * one, 3 * one, one + half}
    for k in range(n + 1):
        p = 1 << k
        c.update((p, p - 1, p + 1))
    h = 1 << (n // 2)
    # all-ones low limb / high limb MIN patterns (negative carry in the 128-bit product)
    c.update((h - 1, lo + h - 1, lo | (h - 1), hi - (h - 1), (h - 1) << (n // 2) if not s else ((h >> 1) - 1) << (n // 2)))
    c |= {-x for x in c}
    return sorted({x for x in c if lo <= x <= hi})

def rand_val(rng, s, n, f, E):
    """mixture: edge / uniform / log-uniform length / sparse bits / runs of ones / near ONE multiples"""
    lo, hi = rng_range(s, n)
    r = rng.random()
    if r < 0.25:
        return rng.choice(E)
    if r < 0.45:
        return rng.randint(lo, hi)
    if r < 0.70:
        k = rng.randint(0, n)
        v = rng.getrandbits(k) if k else 0
        if s and rng.random() < 0.5:
            v = -v
        return clip(s, n, v)
    if r < 0.80:
        v = 0
        for _ in range(rng.randint(1, 4)):
            v |= 1 << rng.randrange(n)
        return wrap(s, n, v)
    if r < 0.90:
        a = rng.randrange(n); b = rng.randrange(n)
        a, b = min(a, b), max(a, b)
        v = ((1 << (b - a + 1)) - 1) << a
        if rng.random() < 0.5:
            v = ~v
        return wrap(s, n, v)
    k = rng.randint(-4, 4) * (1 << f) + rng.randint(-2, 2)
    return clip(s, n, k)

def isqrt(x):
    import math
    return math.isqrt(x)

def limb_carry_pair(rng, s, n):
    """operands of a four-limb schoolbook product built at a carry boundary: the sum of the cross terms lh*rl + ll*rh (plus the
    high half of ll*rl) lands within a few units of a multiple of 2^n, where a lost or doubled carry shows"""
    h = n // 2
    H = 1 << h
    lo, hi = rng_range(s, n)
    lh = rng.randrange(1, H >> (1 if s else 0))
    rl = rng.randrange(1, H)
    rh = rng.randrange(1, H >> (1 if s else 0))
    target = (1 << n) * rng.choice([1, 1, 2]) - rng.choice([0, 1, 2, H, rng.randrange(H)])
    ll = (target - lh * rl) // rh + rng.randint(-1, 1)
    ll = min(max(ll, 0), H - 1)
    a = lh * H + ll
    b = rh * H + rl
    if s and rng.random() < 0.5:
        # the cancelling negative-then-positive wrap: a small negative times a value near MIN
        a = -rng.choice([1, 2, 3, H - 1, H, H + 1])
        b = lo + rng.randrange(0, 2 * H)
    if s and rng.random() < 0.3:
        a = -a
    return clip(s, n, a), clip(s, n, b)

def limb_carry_square(rng, s, n):
    """one operand x = hi * 2^(n/2) + lo whose SQUARE sits at the carry boundary of the four-limb product: the doubled cross term
    2 * hi * lo lands within the high half of lo^2 below 2^(n-1) (signed) / 2^n (unsigned): reached by powi / x * x on 128-bit types"""
    h = n // 2
    H = 1 << h
    top = 1 << (n - 1 if s else n)
    hi_ = rng.randrange(top >> (h + 1), top >> h) if rng.random() < 0.7 else (top >> (h + 1))
    lo_ = min(H - 1, (top - 1 - rng.choice([0, 0, 1, H >> 1, rng.randrange(H)])) // (2 * hi_))
    lo_ = max(0, lo_ + rng.choice([0, 0, 0, -1, 1]))
    x = hi_ * H + min(lo_, H - 1)
    if s and rng.random() < 0.4:
        x = -x
    return clip(s, n, x)

def mul_pairs(rng, s, n, f, E, count):
    """operand pairs whose exact product is near the representable boundary, plus generic ones"""
    lo, hi = rng_range(s, n)
    out = []
    for _ in range(count):
        r = rng.random()
        if n == 128 and r < 0.2:
            out.append(limb_carry_pair(rng, s, n))
        elif n == 128 and r < 0.24:
            x = limb_carry_square(rng, s, n)
            out.append((x, x))
        elif r < 0.35:
            # product within a few ulps of (MAX+1)*2^f or MIN*2^f
            target = rng.choice([(hi + 1) << f, lo << f, (hi << f), ((hi + 1) << f) - 1])
            a = rand_val(rng, s, n, f, E)
            if a == 0:
                a = 1
            b = target // a + rng.randint(-2, 2)
            out.append((a, clip(s, n, b)))
        elif r < 0.5:
            out.append((rng.choice(E), rng.choice(E)))
        else:
            out.append((rand_val(rng, s, n, f, E), rand_val(rng, s, n, f, E)))
    return out

def div_pairs(rng, s, n, f, E, count):
    """a = trunc-quotient q at chosen places: q near the range ends, tiny divisors, a close to b"""
    lo, hi = rng_range(s, n)
    out = []
    for _ in range(count):
        r = rng.random()
        if r < 0.3:
            b = rand_val(rng, s, n, f, E)
            if b == 0:
                b = rng.choice([1, -1] if s else [1])
            q = rng.choice([hi, lo, hi + 1, lo - 1, hi - 1, lo + 1, 0, 1, -1]) + rng.randint(-2, 2)
            # a*2^f / b ~ q  =>  a ~ q*b / 2^f
            a = (q * b) >> f
            a += rng.randint(-1, 1)
            out.append((clip(s, n, a), b))
        elif r < 0.45:
            a = rand_val(rng, s, n, f, E)
            out.append((a, clip(s, n, a + rng.randint(-3, 3))))
        elif r < 0.6:
            out.append((rng.choice(E), rng.choice(E)))
        elif r < 0.7:
            out.append((rand_val(rng, s, n, f, E), rng.choice([0, 1, -1, 2, -2, 3]) if s else rng.choice([0, 1, 2, 3])))
        else:
            out.append((rand_val(rng, s, n, f, E), rand_val(rng, s, n, f, E)))
    return out

def wide_div_triples(rng, s, n, count):
    """(d, n1, n0) for div_rem_from: remainder invariant r < d holds when |n1| < |d| but the code is total;
    cover both, normalised and unnormalised divisors, divisors with zero low half, max limbs"""
    lo, hi = rng_range(s, n)
    E = edges(s, n, 0)
    EU = edges(0, n, 0)
    out = []
    for _ in range(count):
        d = rand_val(rng, s, n, 0, E)
        r = rng.random()
        if r < 0.4:
            # quotient fits one limb: |n1| < |d|
            n1 = rand_val(rng, s, n, 0, E)
            if d != 0:
                n1 = n1 % abs(d) if n1 >= 0 else -((-n1) % abs(d))
        elif r < 0.6:
            n1 = rng.choice(E)
        else:
            n1 = rand_val(rng, s, n, 0, E)
        n0 = rand_val(rng, 0, n, 0, EU)
        out.append((d, n1, n0))
    return out

def crit(s, n, f):
    """small set that is always crossed with itself: range ends, +-1 ulp, +-one, zero"""
    lo, hi = rng_range(s, n)
    one = 1 << f
    c = {0, 1, -1, 2, lo, lo + 1, hi, hi - 1, one, -one, one >> 1, -(one >> 1)}
    return sorted({x for x in c if lo <= x <= hi})

def corpus(prop):
    """minimised past failures / known-finding witnesses; always run first"""
    import os
    p = f'{VERIF}/corpus/{prop}.req'
    if not os.path.exists(p):
        return []
    return [l.strip() for l in open(p) if l.strip() and not l.startswith('#')]

# ---------------------------------------------------------------- conversions / comparisons / floats
import struct
from fractions import Fraction

FAMILIES = [(s, n) for s in (0, 1) for n in WIDTHS]
def three(n):
    return [0, 3 if n == 8 else n // 2 - 1, n]
def pair_layouts():
    return [(s, n, f) for (s, n) in FAMILIES for f in three(n)]
def small_layouts():
    return [(s, n, f) for (s, n) in FAMILIES for f in sorted({0, 1, 3 if n == 8 else n // 2 - 1, n - 1, n})]
INT_TYPES = {'i8': (1, 8), 'i16': (1, 16), 'i32': (1, 32), 'i64': (1, 64), 'i128': (1, 128), 'isize': (1, 64),
             'u8': (0, 8), 'u16': (0, 16), 'u32': (0, 32), 'u64': (0, 64), 'u128': (0, 128), 'usize': (0, 64)}
FLOATS = {'f32': (32, 24), 'f64': (64, 53)}

def related(rng, s1, n1, f1, s2, n2, f2, E1, a=None):
    """a value b of layout 2 derived from a value a of layout 1: same value shifted to the other grid +- small deltas,
    or range ends of layout 1 mapped into grid 2, or a value just beyond layout 1's range"""
    if a is None:
        a = rand_val(rng, s1, n1, f1, E1)
    lo1, hi1 = rng_range(s1, n1)
    r = rng.random()
    d = f2 - f1
    def sh(x):
        return x << d if d >= 0 else x >> (-d)
    if r < 0.5:
        b = sh(a) + rng.choice([0, 0, 1, -1, 2, -2, rng.randint(0, max(0, (1 << max(0, d)) - 1))])
    elif r < 0.7:
        b = sh(rng.choice([lo1, hi1, hi1 + 1, lo1 - 1, 2 * hi1, 2 * hi1 + 1, hi1 + rng.randint(1, max(1, hi1))])) + rng.randint(-2, 2)
    elif r < 0.8:
        b = rng.choice(edges(s2, n2, f2))
    else:
        b = rand_val(rng, s2, n2, f2, edges(s2, n2, f2))
    return a, clip(s2, n2, b)

def float_bits_of(fmt, q):
    """nearest float (bit pattern) of an exact Fraction, or None when out of range"""
    try:
        x = float(q)
        if fmt == 'f32':
            return struct.unpack('<I', struct.pack('<f', x))[0]
        return struct.unpack('<Q', struct.pack('<d', x))[0]
    except (OverflowError, struct.error):
        return None

def float_specials(fmt):
    nbits, prec = FLOATS[fmt]
    mant_bits = prec - 1
    emax = (1 << (nbits - prec)) - 1
    sign = 1 << (nbits - 1)
    out = []
    for sg in (0, sign):
        out += [sg, sg | 1, sg | ((1 << mant_bits) - 1), sg | (1 << mant_bits), sg | (1 << (mant_bits - 1)),   # zero, subnormals, min normal
                sg | (emax << mant_bits),                                   # inf
                sg | (emax << mant_bits) | 1, sg | (emax << mant_bits) | (1 << (mant_bits - 1)),  # NaNs
                sg | (emax << mant_bits) | ((1 << mant_bits) - 1),
                sg | ((emax - 1) << mant_bits), sg | ((emax - 1) << mant_bits) | ((1 << mant_bits) - 1),  # top binade
                sg | ((emax - 1) << mant_bits) | 1]
    return out

def rand_float(rng, fmt):
    nbits, prec = FLOATS[fmt]
    mant_bits = prec - 1
    emax = (1 << (nbits - prec)) - 1
    bias = emax >> 1
    r = rng.random()
    if r < 0.08:
        return rng.choice(float_specials(fmt))
    sg = rng.getrandbits(1) << (nbits - 1)
    if r < 0.55:
        # exponents near the fixed-point ranges: value in 2^-140 .. 2^140
        e = bias + rng.randint(-140, 140)
        e = min(max(e, 0), emax)
    else:
        e = rng.randint(0, emax)
    m = rng.choice([0, 1, (1 << mant_bits) - 1, 1 << rng.randrange(mant_bits), (1 << rng.randrange(mant_bits)) - 1,
                    rng.getrandbits(mant_bits), rng.getrandbits(mant_bits) & ~((1 << rng.randrange(mant_bits)) - 1)])
    return sg | (e << mant_bits) | (m & ((1 << mant_bits) - 1))

def layout_floats(rng, fmt, s, n, f, count):
    """floats adjacent to the layout's grid ties and range ends, +-1/2 float ulps"""
    nbits, prec = FLOATS[fmt]
    lo, hi = rng_range(s, n)
    out = []
    E = edges(s, n, f)
    for _ in range(count):
        r = rng.random()
        if r < 0.35:
            k = rand_val(rng, s, n, f, E)
            q = Fraction(2 * k + 1, 1 << (f + 1))                    # exact tie between k and k+1
            if rng.random() < 0.3:
                q += Fraction(rng.choice([-1, 1]), 1 << (f + rng.randint(2, 60)))
        elif r < 0.6:
            k = rng.choice([lo, hi, hi + 1, lo - 1, hi + 2, lo - 2])
            q = Fraction(2 * k + rng.choice([-1, 0, 1]), 1 << (f + 1))
        elif r < 0.85:
            q = Fraction(rand_val(rng, s, n, f, E), 1 << f)
        else:
            q = Fraction(rand_val(rng, s, n, f, E) * 4 + rng.randint(-3, 3), 1 << (f + 2))
        b = float_bits_of(fmt, q)
        if b is None:
            continue
        b += rng.choice([0, 0, 0, 1, -1, 2, -2])
        out.append(b % (1 << nbits))
    return out

# ---------------------------------------------------------------- transcendental
MATH_ANY = [((1, 32, 23), (1, 32, 23)), ((1, 64, 32), (1, 64, 32)), ((1, 128, 64), (1, 128, 64)), ((1, 128, 88), (1, 128, 88)),
            ((1, 64, 48), (1, 64, 48)), ((1, 128, 32), (1, 128, 32)), ((1, 64, 23), (1, 64, 23)), ((1, 32, 23), (1, 64, 32)),
            ((1, 64, 32), (1, 128, 64)), ((1, 64, 48), (1, 128, 64)), ((0, 64, 32), (1, 128, 64)), ((0, 32, 23), (1, 64, 32))]
MATH_UNSIGNED_D = [((0, 64, 32), (0, 64, 32)), ((0, 128, 64), (0, 128, 64)), ((0, 32, 23), (0, 32, 23)), ((0, 128, 32), (0, 128, 32)),
                   ((0, 32, 23), (0, 64, 32))]
MATH_SIGNED = MATH_ANY[:10]
TRIG = [(1, 32, 23), (1, 64, 32), (1, 128, 64), (1, 128, 88), (1, 64, 48), (1, 128, 32), (1, 64, 23)]

def math_vals(rng, s, n, f, count, positive=False):
    """operands for the math functions: extremes, 1 ulp, around 1 and 2, powers of two and neighbours, log-uniform sweep"""
    lo, hi = rng_range(s, n)
    one = 1 << f
    c = {0, 1, 2, 3, hi, hi - 1, lo, lo + 1, one, one + 1, one - 1, 2 * one, 2 * one - 1, 2 * one + 1, 3 * one, one >> 1, (one >> 1) + 1,
         4 * one, 4 * one - 1, -1, -one, -(one >> 1), 10 * one, 100 * one}
    for k in range(0, n):
        p = 1 << k
        c.update((p, p + 1, p - 1))
    # 2^k-th roots of powers of two and their neighbours: operands on which the squaring loop of log2 reaches exactly 1.0 or 2.0 after k steps
    # (a state the loop treats specially); both sides of 1, at several binades.  Exact integer roots (isqrt applied k times).
    import math as _m
    for kk in range(1, 7):
        for j in range(1, 1 << kk, 2):
            r = 1 << (j + f * (1 << kk))
            for _ in range(kk):
                r = _m.isqrt(r)
            for d in (-1, 0, 1, 2):
                for sh in (0, 1, rng.randint(2, max(2, n - f - 2))):
                    c.add((r + d) << sh)
                c.add(((r + d) >> 1) + (d & 1))          # 2^(j/2^k - 1): below one, reciprocal path
                c.add((r + d) >> rng.randint(2, max(2, f // 2)))
    for _ in range(count):
        k = rng.randint(1, n)
        v = rng.getrandbits(k)
        r = rng.random()
        if r < 0.3:
            v = one + rng.randint(-(one >> rng.randint(1, max(1, f))), one >> rng.randint(0, max(1, f - 1)))     # near 1
        elif r < 0.4:
            q = rng.randint(0, min(1 << ((n - f) // 2), 1 << 20)); v = q * q * one + rng.randint(-2, 2)               # perfect squares +-
        if s and rng.random() < (0.0 if positive else 0.3):
            v = -v
        c.add(v)
    return sorted({x for x in c if lo <= x <= hi and (not positive or x >= 0)})

# ---------------------------------------------------------------- parsing / formatting
DIG = '0123456789abcdef'
def to_radix(x, radix, upper=False):
    assert x >= 0
    if x == 0:
        return '0'
    s = ''
    while x:
        s = DIG[x % radix] + s
        x //= radix
    return s.upper() if upper else s

def expand(num, j, radix):
    """exact expansion of num / 2^j in the radix: (int digits, frac digits) — finite for every radix in {2, 8, 10, 16}"""
    ip = num >> j
    fr = num & ((1 << j) - 1)
    if radix == 10:
        d = j
        digits = str(fr * 5 ** j).rjust(j, '0') if j else ''
    else:
        bits = {2: 1, 8: 3, 16: 4}[radix]
        d = (j + bits - 1) // bits
        digits = to_radix((fr << (d * bits)) >> j, radix).rjust(d, '0') if d else ''
    return to_radix(ip, radix), digits

def long_run(rng, typical):
    """length of a run of zeros / nines after a tie: usually short, with a heavy tail around and beyond every power of two up to ~1100 (a defect that caps the number
    of digits looked at shows only beyond its cap)"""
    if rng.random() < 0.8:
        return rng.randint(0, typical)
    return rng.choice([41, 47, 63, 64, 65, 66, 70, 100, 127, 128, 129, 130, 200, 255, 256, 257, 300, 511, 512, 513, 700, 1023, 1024, 1025, 1100]) + rng.choice([0, 0, 1, -1, rng.randint(0, 9)])

def literal_for(rng, s, n, f, radix):
    """one literal (str) that is interesting for layout (s, n, f) in the radix"""
    lo, hi = rng_range(s, n)
    r = rng.random()
    neg = s and rng.random() < 0.4
    sign = '-' if neg else rng.choice(['', '', '', '+'])
    if radix == 10 and n == 128 and rng.random() < 0.10:
        # limb-carry directed (128-bit decimal path): the 54 leading fractional digits are read as two 27-digit halves (hi, lo) and joined as
        # hi * 10^27 + lo in two 128-bit limbs; choose hi with hi * 10^27 = m * 2^128 - r (0 < r < 10^27) and lo on both sides of r, so that the low-limb
        # addition carries (a 2^-38 event for random digits)
        P27 = 10 ** 27
        m = rng.randrange(1, (10 ** 54) >> 128)
        hi_ = (m << 128) // P27
        r_ = (m << 128) - hi_ * P27
        lo_ = min(P27 - 1, max(0, rng.choice([r_, r_ - 1, r_ + 1, P27 - 1, rng.randrange(r_, P27) if r_ < P27 else P27 - 1])))
        fp = '%027d%027d' % (hi_, lo_)
        if rng.random() < 0.15:
            fp = '9' * rng.choice([27, 28, 38, 39, 40, 53, 54, 55, 60]) + rng.choice(['', '4', '5', '6', '9'])     # rounds up to 1.0 in the two-limb path
        if rng.random() < 0.4:
            fp += ''.join(rng.choice(DIG[:10]) for _ in range(rng.randint(1, 30)))
        ip = '' if f == n else rng.choice(['', '0', '1', str(rng.randrange(0, 1 << max(0, min(n - f, 40))))])
        return sign + ip + '.' + fp
    if r < 0.40:
        # tie-directed: (k + 1/2) * 2^-f exactly, and its neighbourhood
        k = abs(rand_val(rng, s, n, f, edges(s, n, f)))
        if rng.random() < 0.2:
            k = max(0, rng.choice([hi, hi - 1, -lo, -lo - 1, 0, 1, (1 << f) - 1]))
        elif radix == 10 and f >= 3 and rng.random() < 0.15:
            # slow-path boundary directed: fractions whose floor sits in the ulp containing .2 / .4 / .7 / .9 make the `boundary + 5` of the tie comparison
            # wrap its word (a 5/2^N event otherwise); with a random integer part
            num, den = rng.choice([(1, 5), (2, 5), (7, 10), (9, 10)])
            kf = ((1 << f) * num) // den + rng.choice([-1, 0, 0, 0, 1])
            ki = rng.randrange(0, 1 << min(n - f, 20)) if n > f else 0
            k = min(max(hi, -lo), (ki << f) + max(0, min((1 << f) - 1, kf)))
        ip, fp = expand(2 * k + 1, f + 1, radix)
        v = rng.random()
        if v < 0.25:
            pass                                               # the exact tie
        elif v < 0.45 and len(fp) > 1:
            fp = fp[:rng.randint(1, len(fp) - 1)]              # proper prefix of the tie
        elif v < 0.60 and fp:
            cut = rng.randint(1, len(fp))
            d = int(fp[:cut], radix) + rng.choice([-1, 1])
            if 0 <= d < radix ** cut:
                fp = to_radix(d, radix).rjust(cut, '0')        # prefix +- one unit in the last place
        elif v < 0.80:
            fp = fp + '0' * long_run(rng, 40) + rng.choice(['1', '0', DIG[radix - 1]])   # a hair above / trailing zeros
        else:
            if fp:
                fp = fp[:-1] + DIG[max(0, int(fp[-1], radix) - 1)] + DIG[radix - 1] * max(1, long_run(rng, 60))   # a hair below
        lit = ip + '.' + fp
    elif r < 0.55:
        # on the grid, with redundant zeros
        k = abs(rand_val(rng, s, n, f, edges(s, n, f)))
        ip, fp = expand(k, f, radix)
        lit = '0' * rng.randint(0, 3) + ip + ('.' + fp + '0' * rng.randint(0, 5) if fp or rng.random() < 0.3 else '')
    elif r < 0.70:
        # around the range ends (value hi/2^f, -lo/2^f) +- fractions of an ulp
        k = max(0, rng.choice([hi, hi + 1, -lo, -lo + 1, -lo - 1, hi - 1, 2 * hi, (hi + 1) << 1]))
        extra = rng.choice([0, 1, 2, 3])      # quarter-ulps
        ip, fp = expand(4 * k + extra, f + 2, radix)
        lit = ip + '.' + fp
        if rng.random() < 0.3:
            lit += DIG[rng.randrange(radix)] * rng.randint(1, 30)
    elif r < 0.85:
        # random digits, controlled lengths
        li = rng.choice([0, 1, 2, 5, rng.randint(0, 45), rng.randint(0, 200)])
        lf = rng.choice([0, 1, 2, 5, rng.randint(0, 45), rng.randint(0, 200)])
        ip = ''.join(rng.choice(DIG[:radix]) for _ in range(li))
        fp = ''.join(rng.choice(DIG[:radix]) for _ in range(lf))
        if radix == 16 and rng.random() < 0.5:
            ip = ip.upper(); fp = fp.upper()
        lit = ip + (('.' + fp) if lf or rng.random() < 0.3 else '')
    else:
        # small values: many leading fractional zeros
        z = rng.randint(0, f // 3 + 40)
        lit = rng.choice(['0', '']) + '.' + '0' * z + ''.join(rng.choice(DIG[:radix]) for _ in range(rng.randint(1, 50)))
    return sign + lit

MALFORMED = ['', '.', '-', '+', '+-1', '-+1', '--1', '1.2.3', '..', '1..', '1-', '1+2', '1.-2', ' 1', '1 ', '1_0', '0x10', '1e5', 'abc', '12a',
             '1.2a', '１', 'é', '1é', '\x001', '1\x00', '-.', '+.', '.-1', 'NaN', 'inf', '1,5', '-', '0b1', '９', '1\n', '\t1']
def malformed(rng, radix):
    r = rng.random()
    if r < 0.6:
        return rng.choice(MALFORMED).encode('utf-8')
    if r < 0.8:
        # radix-foreign digit inside a valid literal
        base = ''.join(rng.choice(DIG[:radix]) for _ in range(rng.randint(1, 10)))
        bad = rng.choice(DIG[radix:] + 'gxz/:@G`') if radix < 16 else rng.choice('gxz/:@G`')
        i = rng.randint(0, len(base))
        return (base[:i] + bad + base[i:]).encode()
    # raw bytes incl. invalid UTF-8
    return bytes(rng.getrandbits(8) for _ in range(rng.randint(1, 6)))

FA = ['n', 's<', 's^', 's>', '*<', '*^', '*>', 'e<', 'e^', 'e>', '0>']
def fmt_spec(rng, kinds):
    kind = rng.choice(kinds)
    fa = rng.choice(FA) if rng.random() < 0.5 else 'n'
    plus, alt, zero = (int(rng.random() < 0.3) for _ in range(3))
    width = rng.choice(['-', '-', '0', '1', '5', '12', '40', str(rng.randint(0, 140))])
    prec = rng.choice(['-', '-', '-', '0', '1', '2', '3', '5', '10', '17', '40', str(rng.randint(0, 200))])
    if rng.random() < 0.02:      # beyond every plausible internal cap (buffer sizes 128/130, u8 counters): heavy tail, kept rare because the verdict is slow there
        # width 1000 costs the (cubic) padding verdict ~9 s per request: 65 CPU-minutes of a quick C09 run were spent on 0.3 % of its requests; 400 costs 0.6 s
        width = str(rng.choice([141, 200, 255, 256, 257, 300, 400]) if rng.random() < 0.97 else 1000)
    if rng.random() < 0.02:
        prec = str(rng.choice([126, 127, 128, 129, 130, 131, 201, 255, 256, 257, 300, 1000]))
    return [kind, fa, plus, alt, zero, width, prec]

def fmt_vals(rng, s, n, f, count):
    lo, hi = rng_range(s, n)
    E = edges(s, n, f)
    vals = set(E[:: max(1, len(E) // 40)]) | {0, 1, hi, lo, 1 << f if (1 << f) <= hi else 0}
    if n == 128 and f > 64:
        # limb-carry directed (two-limb `mul10` of the 128-bit decimal formatter): fraction words W = hi * 2^64 + lo with hi * 10 = d * 2^64 - t (t = 6 d mod 10),
        # so that the low limb's spill lo * 10 >> 64 >= t wraps the high limb in this step (a 2^-62 event per digit for random values), moved k digits to the right
        M = 1 << 128
        for _ in range(max(4, count // 6)):
            d = rng.choice([1, 2, 3, 4, 6, 7, 8, 9]); t = (6 * d) % 10
            hi_ = (d * (1 << 64) - t) // 10
            lo_ = rng.randrange((t << 64) // 10 + 1, 1 << 64) if rng.random() < 0.7 else rng.choice([(t << 64) // 10, (t << 64) // 10 + 1, (1 << 64) - 1])
            W = ((hi_ << 64) | lo_) >> (128 - f) << (128 - f)          # only the top f bits are fraction
            for _k in range(rng.choice([0, 0, 1, 2, 5, 17])):
                W &= ~1 if (128 - f) == 0 else ~0
                j = next((j for j in range(10) if (W + j * M) % 10 == 0), None)
                if j is None:
                    break
                W = (W + j * M) // 10
                W = W >> (128 - f) << (128 - f)
            frac = W >> (128 - f)
            ip = rng.randrange(0, 1 << min(n - f - (1 if s else 0), 30)) if n - f - (1 if s else 0) > 0 else 0
            v = (ip << f) | frac
            if s and rng.random() < 0.4:
                v = -v
            vals.add(clip(s, n, v))
    if n == 128 and f > 64:
        # values whose DEFAULT OUTPUT is a literal at the limb-carry boundary of the 128-bit decimal PARSER (its two 27-digit halves join as hi * 10^27 + lo with
        # hi * 10^27 = m * 2^128 - r and lo > r): a dropped carry there shows under C09 only through format-then-parse (seed s68a; 2^-38 for random values)
        P27 = 10 ** 27
        for _ in range(max(4, count // 6)):
            m = rng.randrange(1, (10 ** 54) >> 128)
            hi_ = (m << 128) // P27
            r_ = (m << 128) - hi_ * P27
            lo_ = (r_ + P27) // 2 if rng.random() < 0.7 else rng.randrange(r_, P27)
            frac = ((hi_ * P27 + lo_) << f) // (10 ** 54)
            ip = rng.randrange(0, 1 << min(n - f - (1 if s else 0), 20)) if n - f - (1 if s else 0) > 0 else 0
            v = (ip << f) | (frac & ((1 << f) - 1))
            if s and rng.random() < 0.4:
                v = -v
            vals.add(clip(s, n, v))
    for _ in range(count):
        r = rng.random()
        if r < 0.3:
            # decimal ties: k / 2^j shown with j-1 digits ends in 5
            j = rng.randint(1, min(f, 20)) if f else 0
            v = rng.randint(0, 1 << min(n - 1, j + 8)) << (f - j) if f else rng.randint(0, hi)
        elif r < 0.5:
            # very small / scaled remainder near 0 or 2^n (the near-zero cut-off)
            v = rng.randint(0, 300)
        elif r < 0.6:
            v = hi - rng.randint(0, 300)
        else:
            v = rand_val(rng, s, n, f, E)
        if s and rng.random() < 0.4:
            v = -v
        vals.add(clip(s, n, v))
    return sorted(vals)
