"""Request generators for the correspondence check (structured, seeded, edge-biased).

Every random choice derives from one `random.Random(seed)` per work unit, so a run replays exactly.
A request is one text line: `<op> <signed 0|1> <nbits> <frac> <args...>`.
"""
import random

WIDTHS = [8, 16, 32, 64, 128]

def quick_fracs():
    out = {}
    for line in open('/verif/harness/fracs_quick.txt'):
        line = line.strip()
        if not line or line.startswith('#'):
            continue
        n, rest = line.split(':')
        out[int(n)] = [int(x) for x in rest.split()]
    return out

def all_layouts():
    return [(s, n, f) for s in (0, 1) for n in WIDTHS for f in range(n + 1)]

def typed_layouts(tier):
    if tier == 'thorough_all':
        return all_layouts()
    q = quick_fracs()
    return [(s, n, f) for s in (0, 1) for n in WIDTHS for f in q[n]]

def rng_range(s, n):
    return (-(1 << (n - 1)), (1 << (n - 1)) - 1) if s else (0, (1 << n) - 1)

def clip(s, n, x):
    lo, hi = rng_range(s, n)
    return min(max(x, lo), hi)

def wrap(s, n, x):
    x &= (1 << n) - 1
    if s and x >> (n - 1):
        x -= 1 << n
    return x

def edges(s, n, f):
    lo, hi = rng_range(s, n)
    one = 1 << f
    half = one >> 1
    c = {0, 1, 2, 3, lo, lo + 1, lo + 2, hi, hi - 1, hi - 2, one, one + 1, one - 1, half, half + 1, half - 1,
         2 * one, 3 * one, one + half}
    for k in range(n + 1):
        p = 1 << k
        c.update((p, p - 1, p + 1))
    h = 1 << (n // 2)
    # all-ones low limb / high limb MIN patterns (negative carry in the 128-bit product)
    c.update((h - 1, lo + h - 1, lo | (h - 1), hi - (h - 1), (h - 1) << (n // 2) if not s else ((h >> 1) - 1) << (n // 2)))
    c |= {-x for x in c}
    return sorted({x for x in c if lo <= x <= hi})

def rand_val(rng, s, n, f, E):
    """mixture: edge / uniform / log-uniform length / sparse bits / runs of ones / near ONE multiples"""
    lo, hi = rng_range(s, n)
    r = rng.random()
    if r < 0.25:
        return rng.choice(E)
    if r < 0.45:
        return rng.randint(lo, hi)
    if r < 0.70:
        k = rng.randint(0, n)
        v = rng.getrandbits(k) if k else 0
        if s and rng.random() < 0.5:
            v = -v
        return clip(s, n, v)
    if r < 0.80:
        v = 0
        for _ in range(rng.randint(1, 4)):
            v |= 1 << rng.randrange(n)
        return wrap(s, n, v)
    if r < 0.90:
        a = rng.randrange(n); b = rng.randrange(n)
        a, b = min(a, b), max(a, b)
        v = ((1 << (b - a + 1)) - 1) << a
        if rng.random() < 0.5:
            v = ~v
        return wrap(s, n, v)
    k = rng.randint(-4, 4) * (1 << f) + rng.randint(-2, 2)
    return clip(s, n, k)

def isqrt(x):
    import math
    return math.isqrt(x)

def mul_pairs(rng, s, n, f, E, count):
    """operand pairs whose exact product is near the representable boundary, plus generic ones"""
    lo, hi = rng_range(s, n)
    out = []
    for _ in range(count):
        r = rng.random()
        if r < 0.35:
            # product within a few ulps of (MAX+1)*2^f or MIN*2^f
            target = rng.choice([(hi + 1) << f, lo << f, (hi << f), ((hi + 1) << f) - 1])
            a = rand_val(rng, s, n, f, E)
            if a == 0:
                a = 1
            b = target // a + rng.randint(-2, 2)
            out.append((a, clip(s, n, b)))
        elif r < 0.5:
            out.append((rng.choice(E), rng.choice(E)))
        else:
            out.append((rand_val(rng, s, n, f, E), rand_val(rng, s, n, f, E)))
    return out

def div_pairs(rng, s, n, f, E, count):
    """a = trunc-quotient q at chosen places: q near the range ends, tiny divisors, a close to b"""
    lo, hi = rng_range(s, n)
    out = []
    for _ in range(count):
        r = rng.random()
        if r < 0.3:
            b = rand_val(rng, s, n, f, E)
            if b == 0:
                b = rng.choice([1, -1] if s else [1])
            q = rng.choice([hi, lo, hi + 1, lo - 1, hi - 1, lo + 1, 0, 1, -1]) + rng.randint(-2, 2)
            # a*2^f / b ~ q  =>  a ~ q*b / 2^f
            a = (q * b) >> f
            a += rng.randint(-1, 1)
            out.append((clip(s, n, a), b))
        elif r < 0.45:
            a = rand_val(rng, s, n, f, E)
            out.append((a, clip(s, n, a + rng.randint(-3, 3))))
        elif r < 0.6:
            out.append((rng.choice(E), rng.choice(E)))
        elif r < 0.7:
            out.append((rand_val(rng, s, n, f, E), rng.choice([0, 1, -1, 2, -2, 3]) if s else rng.choice([0, 1, 2, 3])))
        else:
            out.append((rand_val(rng, s, n, f, E), rand_val(rng, s, n, f, E)))
    return out

def wide_div_triples(rng, s, n, count):
    """(d, n1, n0) for div_rem_from: remainder invariant r < d holds when |n1| < |d| but the code is total;
    cover both, normalised and unnormalised divisors, divisors with zero low half, max limbs"""
    lo, hi = rng_range(s, n)
    E = edges(s, n, 0)
    EU = edges(0, n, 0)
    out = []
    for _ in range(count):
        d = rand_val(rng, s, n, 0, E)
        r = rng.random()
        if r < 0.4:
            # quotient fits one limb: |n1| < |d|
            n1 = rand_val(rng, s, n, 0, E)
            if d != 0:
                n1 = n1 % abs(d) if n1 >= 0 else -((-n1) % abs(d))
        elif r < 0.6:
            n1 = rng.choice(E)
        else:
            n1 = rand_val(rng, s, n, 0, E)
        n0 = rand_val(rng, 0, n, 0, EU)
        out.append((d, n1, n0))
    return out

def crit(s, n, f):
    """small set that is always crossed with itself: range ends, +-1 ulp, +-one, zero"""
    lo, hi = rng_range(s, n)
    one = 1 << f
    c = {0, 1, -1, 2, lo, lo + 1, hi, hi - 1, one, -one, one >> 1, -(one >> 1)}
    return sorted({x for x in c if lo <= x <= hi})

def corpus(prop):
    """minimised past failures / known-finding witnesses; always run first"""
    import os
    p = f'/verif/corpus/{prop}.req'
    if not os.path.exists(p):
        return []
    return [l.strip() for l in open(p) if l.strip() and not l.startswith('#')]
