#!/bin/bash
# sandbox.sh <dir> [patch.diff]  — a private copy of /verif (with its build output) and of /repo's working tree under <dir>,
# so that seeded changes and mutants can be evaluated without touching /repo or /verif/evidence:
#     SFX_REPO=<dir>/repo <dir>/verif/check.sh C01 quick
# <dir> must be outside /repo and /verif; remove it when done (sandbox.sh --rm <dir>).
set -eu
if [ "$1" = "--rm" ]; then rm -rf "$2"; exit 0; fi
D="$1"; mkdir -p "$D"
rsync -a --delete --exclude .git --exclude work --exclude replays --exclude seeded --exclude '*.profraw' /verif/ "$D/verif/"
rsync -a --delete --exclude .git --exclude target /repo/ "$D/repo/"
sed -i "s#path = \"/repo\"#path = \"$D/repo\"#" "$D/verif/harness/Cargo.toml" "$D/verif/harness/probe/Cargo.toml"
if [ -n "${2:-}" ]; then (cd "$D/repo" && patch -p1 -s < "$2"); fi
echo "sandbox ready: SFX_REPO=$D/repo $D/verif/check.sh <Cxx> quick"
