"""Request generator for the type-level (infallible) conversion traits: `From` / `LossyFrom` / `LossyInto` between fixed-point types and
primitives (convert.rs), `From<F> for Wrapping<F>`.  Bin `conv`; ops and formats: see harness/src/ext_from.rs.

The (primitive, fixed type) pairs enumerated here are exactly the ones instantiated by harness/build_ext_from.rs (same rules), so no
request is answered SKIP.  Operands: the source type's edge values (MIN, MAX, 0, +-1, +-1 ulp, powers of two and neighbours, all-ones),
the destination's range ends mapped back into the source grid, rounding ties of the float formats, random mixtures.
"""
import random
import sfxgen as G

def req(op, s, n, f, *args):
    return f"{op} {s} {n} {f} " + ' '.join(str(a) for a in args)

def scale(tier, q, t):
    return q if tier == 'quick' else t

WIDTHS = [8, 16, 32, 64, 128]
SIGNS = [(0, 0), (1, 1), (0, 1)]          # U->U, I->I, U->I (signed -> unsigned is never offered)

def mid(n):
    return 3 if n == 8 else n // 2 - 1

def fracs(lo, hi, m):
    return sorted({f for f in (lo, lo + 1, m, max(hi, 1) - 1, hi) if lo <= f <= hi})

def iname(s, n):
    return ('i' if s else 'u') + str(n)

# ---- the instantiated pairs (mirrors build_ext_from.rs)
def ifrom_pairs():
    out = []
    for ss, ds in SIGNS:
        for sn in WIDTHS:
            for dn in WIDTHS:
                if sn > dn:
                    continue
                if sn == dn:
                    fr = [0] if ss == ds else []
                else:
                    c = dn if ss == ds else dn - 1
                    fr = fracs(0, c - sn, (c - sn) // 2)
                out += [(ss, sn, ds, dn, f) for f in fr]
    return out

def bfrom_layouts():
    return [(ds, dn, f) for ds in (0, 1) for dn in WIDTHS for f in fracs(0, (dn - 1 if ds else dn) - 1, mid(dn))]

def into_pairs():
    out = []
    for ss, ds in SIGNS:
        for sn in WIDTHS:
            for dn in WIDTHS:
                if (ss == ds and sn <= dn) or (ss != ds and sn < dn):
                    out.append((ss, sn, iname(ds, dn), ds, dn))
            if sn == 8 or (sn == 16 and ss == ds):
                out.append((ss, sn, 'isize' if ds else 'usize', ds, 64))
    return out

def ilossy_pairs():
    out = []
    for ss, ds in SIGNS:
        for sn in WIDTHS:
            dsts = [(iname(ds, dn), dn, dn) for dn in WIDTHS] + [('isize' if ds else 'usize', 16, 64)]
            for dname, db, actual in dsts:
                c = db if ss == ds else db - 1
                lo = sn - c if sn > c else 0
                out += [(ss, sn, f, dname, ds, actual) for f in fracs(lo, sn, mid(sn))]
    return out

def adm_int(s1, n1, f1, s2, n2, f2):
    return (n1 - f1 <= n2 - f2) if s1 == s2 else (s1 == 0 and s2 == 1 and n1 - f1 + 1 <= n2 - f2)

PRIM_ROWS = {
    'bool': 'bool i8 i16 i32 i64 i128 isize u8 u16 u32 u64 u128 usize',
    'i8': 'i8 i16 i32 i64 i128 isize f32 f64', 'i16': 'i16 i32 i64 i128 isize f32 f64', 'i32': 'i32 i64 i128 f32 f64',
    'i64': 'i64 i128 f32 f64', 'i128': 'i128 f32 f64', 'isize': 'isize f32 f64',
    'u8': 'u8 i16 i32 i64 i128 isize u16 u32 u64 u128 usize f32 f64', 'u16': 'u16 i32 i64 i128 u32 u64 u128 usize f32 f64',
    'u32': 'u32 i64 i128 u64 u128 f32 f64', 'u64': 'u64 i128 u128 f32 f64', 'u128': 'u128 f32 f64', 'usize': 'usize f32 f64',
    'f32': 'f32 f64', 'f64': 'f64 f32',
}

# ---- operand sets
def must(s, n, f=0):
    lo, hi = G.rng_range(s, n)
    one = 1 << f
    c = {lo, lo + 1, hi, hi - 1, 0, 1, 2, -1, -2, one, one - 1, one + 1, -one, -one - 1, -one + 1, (1 << (n - 1)) - 1, 1 << (n - 1), (1 << n) - 1,
         (1 << (n // 2)) - 1, 1 << (n // 2), hi >> 1, lo >> 1}
    return sorted(x for x in c if lo <= x <= hi)

def values(rng, s, n, f, nedge, nrand):
    E = G.edges(s, n, f)
    v = set(must(s, n, f))
    v.update(rng.sample(E, min(nedge, len(E))))
    for _ in range(nrand):
        v.add(G.rand_val(rng, s, n, f, E))
    return sorted(v)

def tie_values(rng, s, n, prec, count):
    """bit patterns whose conversion to a `prec`-bit significand is a tie, or one unit next to a tie, or rounds up into the next binade"""
    lo, hi = G.rng_range(s, n)
    out = set()
    if n <= prec:
        return []
    for _ in range(count):
        ln = rng.randint(prec + 1, n)              # bit length of the magnitude
        k = ln - prec                              # bits dropped
        m = rng.choice([(1 << prec) - 1, 1 << (prec - 1), (1 << (prec - 1)) + 1, rng.getrandbits(prec) | (1 << (prec - 1))])
        x = (m << k) + (1 << (k - 1)) + rng.choice([0, 0, 1, -1, 0 if k < 2 else (1 << (k - 2))])
        if s and rng.random() < 0.5:
            x = -x
        out.add(G.clip(s, n, x))
    return sorted(out)

def float_edge_bits(rng, fmt, count):
    """f64 patterns around the f32 range ends / ties (and generic specials) for the float -> float rows"""
    out = set(G.float_specials(fmt))
    for _ in range(count):
        out.add(G.rand_float(rng, fmt))
    if fmt == 'f64':
        import struct
        def bits(x):
            return struct.unpack('<Q', struct.pack('<d', x))[0]
        f32max = (2 - 2.0 ** -23) * 2.0 ** 127
        base = [f32max, f32max + 2.0 ** 102, f32max + 2.0 ** 103, 2.0 ** 128, 2.0 ** -126, 2.0 ** -149, 2.0 ** -150, 2.0 ** -151, 1.5 * 2.0 ** -150,
                1.0 + 2.0 ** -24, 1.0 + 2.0 ** -23 + 2.0 ** -24, 1.0 + 2.0 ** -24 + 2.0 ** -52, 2.0 - 2.0 ** -24, 2.0 ** -126 - 2.0 ** -150]
        for x in base:
            for sg in (1.0, -1.0):
                b = bits(sg * x)
                out.update((b, b + 1, b - 1))
        for _ in range(count):
            # random f32 tie: 24-bit significand followed by 1000...
            e = rng.randint(-160, 130)
            m = rng.getrandbits(23) | (1 << 23)
            x = (2 * m + 1) * 2.0 ** (e - 24)
            b = bits(x if rng.random() < 0.5 else -x)
            out.update((b, b + rng.choice([0, 1, -1])))
    return sorted(out)

def gen(tier, seed, unit, nunits):
    out = []
    items = []
    items += [('ifrom', p) for p in ifrom_pairs()]
    items += [('bfrom', p) for p in bfrom_layouts()]
    items += [('into', p) for p in into_pairs()]
    items += [('ilossy', p) for p in ilossy_pairs()]
    T = G.typed_layouts(tier)
    items += [('ffrom', (fty, s, n, f)) for fty, maxn in (('f32', 16), ('f64', 32)) for (s, n, f) in T if n <= maxn]
    items += [('flossy', L) for L in T]
    P = G.pair_layouts()
    items += [('linto', (A, B)) for A in P for B in P if adm_int(*A, *B)]
    items += [('wfrom', L) for L in T]
    items += [('prim', (src, dst)) for src, dsts in PRIM_ROWS.items() for dst in dsts.split()]
    ne, nr = scale(tier, 10, 10 ** 6), scale(tier, 10, 300)
    for i, (kind, p) in enumerate(items):
        if i % nunits != unit:
            continue
        rng = random.Random(f'{seed}/ExtFrom/{kind}/{p}')
        if kind == 'ifrom':
            ss, sn, ds, dn, f = p
            ty = iname(ss, sn)
            vals = values(rng, ss, sn, 0, ne, nr)
            for k in vals:
                out.append(req('icvt_from', ds, dn, f, ty, k))
                out.append(req('icvt_from_lossy', ds, dn, f, ty, k))
            for k in rng.sample(vals, min(6, len(vals))):
                out.append(req('icvt_from_linto', ds, dn, f, ty, k))
        elif kind == 'bfrom':
            ds, dn, f = p
            for k in (0, 1):
                for op in ('icvt_from', 'icvt_from_lossy', 'icvt_from_linto'):
                    out.append(req(op, ds, dn, f, 'bool', k))
        elif kind == 'into':
            ss, sn, ty, ds, dn = p
            for x in values(rng, ss, sn, 0, ne, nr):
                out.append(req('icvt_into', ss, sn, 0, x, ty))
        elif kind == 'ilossy':
            ss, sn, f, ty, ds, dn = p
            vals = set(values(rng, ss, sn, f, ne, nr))
            # the destination's range ends (the bound of the impl: 16 bits for usize/isize) on the source grid, +- 1 ulp
            for w in {dn, 16 if ty.endswith('size') else dn}:
                lo, hi = G.rng_range(ds, w)
                for e in (lo, hi, lo + 1, hi - 1):
                    for d in (-1, 0, 1, (1 << f) - 1):
                        vals.add(G.clip(ss, sn, (e << f) + d))
            vals = sorted(vals)
            for x in vals:
                out.append(req('icvt_lossy', ss, sn, f, x, ty))
            for x in rng.sample(vals, min(6, len(vals))):
                out.append(req('icvt_linto', ss, sn, f, x, ty))
        elif kind == 'ffrom':
            fty, s, n, f = p
            if n == 8 and tier != 'quick':
                lo, hi = G.rng_range(s, n)
                vals = list(range(lo, hi + 1))
            else:
                vals = values(rng, s, n, f, scale(tier, 20, 10 ** 6), scale(tier, 20, 600))
            for x in vals:
                out.append(req('fcvt_from', s, n, f, x, fty))
        elif kind == 'flossy':
            s, n, f = p
            for fty, (_, prec) in G.FLOATS.items():
                vals = sorted(set(values(rng, s, n, f, ne, nr)) | set(tie_values(rng, s, n, prec, scale(tier, 12, 300))))
                for x in vals:
                    out.append(req('fcvt_lossy', s, n, f, x, fty))
                for x in rng.sample(vals, min(4, len(vals))):
                    out.append(req('fcvt_linto', s, n, f, x, fty))
        elif kind == 'linto':
            (s1, n1, f1), (s2, n2, f2) = p
            E1 = G.edges(s1, n1, f1)
            vals = set(must(s1, n1, f1))
            for _ in range(scale(tier, 6, 100)):
                vals.add(G.related(rng, s2, n2, f2, s1, n1, f1, G.edges(s2, n2, f2))[1])
                vals.add(G.rand_val(rng, s1, n1, f1, E1))
            for x in sorted(vals):
                out.append(req('cvt_lossy_into', s1, n1, f1, x, s2, n2, f2))
        elif kind == 'wfrom':
            s, n, f = p
            for x in values(rng, s, n, f, scale(tier, 4, 10 ** 6), scale(tier, 4, 100)):
                out.append(req('w_from', s, n, f, x))
        elif kind == 'prim':
            src, dst = p
            if src in G.FLOATS:
                nb = G.FLOATS[src][0]
                for b in float_edge_bits(rng, src, scale(tier, 40, 2000)):
                    if 0 <= b < (1 << nb):
                        out.append(req('pcvt_lossy', 0, nb, 0, src, b, dst))
                        if rng.random() < 0.1:
                            out.append(req('pcvt_linto', 0, nb, 0, src, b, dst))
            elif src == 'bool':
                for k in (0, 1):
                    out.append(req('pcvt_lossy', 0, 8, 0, src, k, dst))
                    out.append(req('pcvt_linto', 0, 8, 0, src, k, dst))
            else:
                si, ni = G.INT_TYPES[src]
                vals = set(values(rng, si, ni, 0, scale(tier, 20, 10 ** 6), scale(tier, 20, 600)))
                if dst in G.FLOATS:
                    vals |= set(tie_values(rng, si, ni, G.FLOATS[dst][1], scale(tier, 30, 1000)))
                vals = sorted(vals)
                for k in vals:
                    out.append(req('pcvt_lossy', si, ni, 0, src, k, dst))
                for k in rng.sample(vals, min(4, len(vals))):
                    out.append(req('pcvt_linto', si, ni, 0, src, k, dst))
    return {'conv': out}
