"""ExtOps: request generator for the operator trait impls of the PLAIN fixed-point types (`fprog` requests of the `wrap` bin).

`gen(tier, seed, unit, nunits) -> {'wrap': [request lines]}`.

A request is `fprog s n f <x0> <step> <step> ...`, step = `<op>[.<variant>][:<arg>]`:
  add sub mul div rem bitand bitor bitxor   variants vv rv vr rr (by value / reference) av ar (assigning)   arg = bits of the rhs
  mul_int div_int rem_int                   same variants, arg = integer of type Bits; mul_int also lvv lvr lrv lrr (integer on the LEFT)
  neg[.r] (signed types)  not[.r]
  shl shr                                   variants vv rv vr rr av ar, arg = <amount type>,<amount>
  sum[.r] product[.r]                       arg = comma list (the iterator is [current value] ++ list), .r = iterator of references
  sum0[.r] product0[.r]                     the empty iterator

Three kinds of programs per layout:
  (1) single steps: every (op, variant) pair -- for shifts every (op, amount type, variant) triple -- on edge operands chosen so
      that about half of them overflow (exact result just beyond / just inside the range, amounts 0, n-1, n, n+1, 2n, -1, MIN, MAX);
  (2) "safe" programs of length 2..8 in which NO step overflows (operands are chosen against an exact simulation of the current
      value), so that a checking build runs them to the end;
  (3) programs with a safe prefix, one directed overflow / zero divisor at a random position, and a random tail (a release
      build continues with the wrapped value), and fully random programs.
"""
import random
import sfxgen as G

SHIFT_TYPES = {'i8': (1, 8), 'i16': (1, 16), 'i32': (1, 32), 'i64': (1, 64), 'i128': (1, 128), 'isize': (1, 64),
               'u8': (0, 8), 'u16': (0, 16), 'u32': (0, 32), 'u64': (0, 64), 'u128': (0, 128), 'usize': (0, 64)}
BINVARS = ['vv', 'rv', 'vr', 'rr', 'av', 'ar']
INT_LEFT = ['lvv', 'lvr', 'lrv', 'lrr']
BIN_FIXED = ['add', 'sub', 'mul', 'div', 'rem', 'bitand', 'bitor', 'bitxor']
BIN_INT = ['mul_int', 'div_int', 'rem_int']

def unit_layouts(layouts, unit, nunits):
    return [L for i, L in enumerate(layouts) if i % nunits == unit]

def scale(tier, q, t):
    return q if tier == 'quick' else t

def tdiv(a, b):
    q = abs(a) // abs(b)
    return q if (a < 0) == (b < 0) else -q

def tmod(a, b):
    return a - b * tdiv(a, b)

class Stop(Exception):
    """the step panics in every profile (zero divisor, MIN / -1 by an integer)"""

def exact(s, n, f, x, op, arg):
    """(exact result, overflows) of one step on the current value x; overflow of a shift = amount outside [0, n)"""
    if op == 'add': return x + arg, None
    if op == 'sub': return x - arg, None
    if op == 'mul': return (x * arg) >> f, None
    if op == 'div':
        if arg == 0: raise Stop()
        return tdiv(x << f, arg), None
    if op == 'rem':
        if arg == 0: raise Stop()
        return tmod(x, arg), None
    if op in ('bitand', 'bitor', 'bitxor'):
        m = (1 << n) - 1
        a, b = x & m, arg & m
        r = a & b if op == 'bitand' else a | b if op == 'bitor' else a ^ b
        return G.wrap(s, n, r), None
    if op == 'not': return G.wrap(s, n, ~x), None
    if op == 'neg': return -x, None
    if op == 'mul_int': return x * arg, None
    if op == 'div_int':
        if arg == 0: raise Stop()
        q = tdiv(x, arg)
        lo, hi = G.rng_range(s, n)
        if not lo <= q <= hi: raise Stop()
        return q, None
    if op == 'rem_int':
        if arg == 0: raise Stop()
        return tmod(x, arg << f), None
    if op in ('shl', 'shr'):
        ovf = not 0 <= arg < n
        k = arg % n
        return (G.wrap(s, n, x << k) if op == 'shl' else x >> k), ovf
    if op == 'sum':
        acc, ovf = 0, False
        lo, hi = G.rng_range(s, n)
        for y in [x] + arg:
            acc += y
            if not lo <= acc <= hi: ovf = True
            acc = G.wrap(s, n, acc)
        return acc, ovf
    if op == 'product':
        acc, ovf = x, False
        lo, hi = G.rng_range(s, n)
        for y in arg:
            acc = (acc * y) >> f
            if not lo <= acc <= hi: ovf = True
            acc = G.wrap(s, n, acc)
        return acc, ovf
    if op == 'sum0': return 0, None
    if op == 'product0': return 1 << f, None
    raise ValueError(op)

def advance(s, n, f, x, op, arg):
    """(next value in a release build, overflowed?)"""
    e, ovf = exact(s, n, f, x, op, arg)
    lo, hi = G.rng_range(s, n)
    if ovf is None:
        ovf = not lo <= e <= hi
    return G.wrap(s, n, e), ovf

def fmt_step(rng, op, arg, var=None, ty=None):
    if op in BIN_FIXED or op in BIN_INT:
        v = var or rng.choice(BINVARS + (INT_LEFT if op == 'mul_int' else []))
        return f'{op}.{v}:{arg}'
    if op in ('neg', 'not'):
        v = var if var is not None else rng.choice(['', 'r'])
        return op + ('.r' if v == 'r' else '')
    if op in ('shl', 'shr'):
        v = var or rng.choice(BINVARS)
        return f'{op}.{v}:{ty},{arg}'
    if op in ('sum', 'product'):
        v = var if var is not None else rng.choice(['', 'r'])
        return op + ('.r' if v == 'r' else '') + ':' + ','.join(str(y) for y in arg)
    v = var if var is not None else rng.choice(['', 'r'])
    return op + ('.r' if v == 'r' else '')

def small_ints(s, n):
    lo, hi = G.rng_range(s, n)
    return [0, 1, -1, 2, -2, 3, 7, 10, lo, hi] if s else [0, 1, 2, 3, 7, 10, hi]

def boundary_operand(rng, s, n, f, x, op):
    """an operand for which the exact result of `x op y` lies within one unit of a range end (either side)"""
    lo, hi = G.rng_range(s, n)
    t = rng.choice([hi, lo, hi + 1, lo - 1]) if s else rng.choice([hi, hi + 1, 0, -1])
    d = rng.randint(-1, 1)
    if op == 'add': y = t - x + d
    elif op == 'sub': y = x - t + d
    elif op == 'mul': y = ((t << f) // x if x else 1) + d
    elif op == 'div':
        # x * 2^f / y ~ t
        y = (tdiv(x << f, t) if t else 1) + d
    elif op == 'mul_int': y = (t // x if x else 1) + d
    elif op == 'div_int': y = rng.choice([-1, 1, 0, 2]) if s else rng.choice([1, 0, 2])
    else: y = rng.choice(G.edges(s, n, f))
    return G.clip(s, n, y)

def shift_amounts(n, ts, tn):
    tlo, thi = G.rng_range(ts, tn)
    c = [0, 1, n - 1, n, n + 1, 2 * n, 2 * n + 3, 255, 256, 4294967295, 4294967296, -1, -n, -(n - 1), tlo, thi, thi - 1, tlo + 1, n // 2]
    return sorted({a for a in c if tlo <= a <= thi})

def random_step(rng, s, n, f, E, x, mode):
    """one step as (op, arg, ty).  mode 'safe': no overflow / panic for the current value x; 'edge': directed at the range ends;
    'any': unconstrained mixture"""
    lo, hi = G.rng_range(s, n)
    for _ in range(40):
        k = rng.random()
        ty = None
        if k < 0.40:
            op = rng.choice(BIN_FIXED)
            if mode == 'edge':
                arg = boundary_operand(rng, s, n, f, x, op)
            elif mode == 'safe':
                r = rng.random()
                one = 1 << f
                if op in ('mul', 'div') and r < 0.6:
                    # near one / small multiples when representable, else anything (products of fractions shrink)
                    arg = G.clip(s, n, rng.choice([one, one + 1, one - 1, 2 * one, one >> 1, 3 * one >> 1, -one if s else one, one + rng.randint(-3, 3)]))
                elif r < 0.5:
                    arg = G.clip(s, n, rng.randint(-1000, 1000) if s else rng.randint(0, 1000))
                else:
                    arg = G.rand_val(rng, s, n, f, E)
            else:
                arg = G.rand_val(rng, s, n, f, E) if rng.random() < 0.7 else boundary_operand(rng, s, n, f, x, op)
        elif k < 0.55:
            op = rng.choice(BIN_INT)
            if mode == 'edge':
                arg = boundary_operand(rng, s, n, f, x, op)
            else:
                arg = rng.choice(small_ints(s, n)) if rng.random() < 0.7 else G.rand_val(rng, s, n, 0, E)
        elif k < 0.65:
            op = rng.choice(['neg', 'not'] if s else ['not'])
            arg = None
        elif k < 0.85:
            op = rng.choice(['shl', 'shr'])
            ty = rng.choice(list(SHIFT_TYPES))
            ts, tn = SHIFT_TYPES[ty]
            tlo, thi = G.rng_range(ts, tn)
            if mode == 'safe':
                arg = min(rng.choice([0, 1, 2, n - 1, n // 2, rng.randrange(n)]), thi)
            else:
                arg = rng.choice(shift_amounts(n, ts, tn) + [min(max(rng.randint(-2 * n, 3 * n), tlo), thi), rng.randint(tlo, thi)])
        elif k < 0.95:
            op = rng.choice(['sum', 'product'])
            ln = rng.randint(0, 4)
            if mode == 'safe':
                one = 1 << f
                arg = [G.clip(s, n, rng.choice([0, 1, one, one + 1, one >> 1, -1 if s else 1, rng.randint(0, 50)])) for _ in range(ln)]
            elif mode == 'edge' and ln:
                arg = [G.rand_val(rng, s, n, f, E) for _ in range(ln - 1)]
                arg.insert(rng.randint(0, ln - 1), boundary_operand(rng, s, n, f, x, 'add' if op == 'sum' else 'mul'))
            else:
                arg = [G.rand_val(rng, s, n, f, E) for _ in range(ln)]
        else:
            op = rng.choice(['sum0', 'product0'])
            arg = None
        if mode != 'safe':
            return op, arg, ty
        try:
            _, ovf = advance(s, n, f, x, op, arg)
        except Stop:
            continue
        if not ovf:
            return op, arg, ty
    return 'not', None, None

def program(rng, s, n, f, E, x0, length, kind):
    """kind 'safe' | 'one' (safe prefix, one directed overflow, random tail) | 'any'"""
    x = x0
    steps = []
    hit = rng.randrange(length) if kind == 'one' else None
    alive = True
    for i in range(length):
        mode = 'safe' if kind == 'safe' or (kind == 'one' and i < hit) else 'edge' if (kind == 'one' and i == hit) else 'any'
        if not alive:
            mode = 'any'
        op, arg, ty = random_step(rng, s, n, f, E, x, mode)
        steps.append(fmt_step(rng, op, arg, ty=ty))
        if alive:
            try:
                x, _ = advance(s, n, f, x, op, arg)
            except Stop:
                alive = False
    return f'fprog {s} {n} {f} {x0} ' + ' '.join(steps)

def single_steps(rng, tier, s, n, f, E):
    out = []
    lo, hi = G.rng_range(s, n)
    rep = scale(tier, 3, 12)
    def x0():
        return G.rand_val(rng, s, n, f, E) if rng.random() < 0.5 else rng.choice(E)
    def emit(x, step):
        out.append(f'fprog {s} {n} {f} {x} {step}')
    C = G.crit(s, n, f)
    for op in BIN_FIXED:
        for var in BINVARS:
            for r in range(rep):
                x = x0()
                y = boundary_operand(rng, s, n, f, x, op) if r % 3 == 0 else rng.choice(C) if r % 3 == 1 else G.rand_val(rng, s, n, f, E)
                if r % 3 == 1 and rng.random() < 0.5:
                    x = rng.choice(C)
                emit(x, fmt_step(rng, op, y, var))
    for op in BIN_INT:
        for var in BINVARS + (INT_LEFT if op == 'mul_int' else []):
            for r in range(rep):
                x = x0()
                if r % 3 == 0:
                    k = boundary_operand(rng, s, n, f, x, op)
                elif r % 3 == 1:
                    k = rng.choice(small_ints(s, n)); x = rng.choice(C) if rng.random() < 0.5 else x
                else:
                    # integers whose fixed-point image just fits / just overflows (rem_int), and generic ones
                    ib = n - f
                    c = [G.rand_val(rng, s, n, 0, E)]
                    for sh in (ib - 2, ib - 1, ib):
                        if sh >= 0:
                            c += [(1 << sh) + d for d in (-1, 0, 1)] + [-(1 << sh) + d for d in (-1, 0, 1)]
                    k = G.clip(s, n, rng.choice(c))
                emit(x, fmt_step(rng, op, k, var))
    if s:
        # MIN against -1 (ulp, integer, and the value -1 when representable): `MIN / -1` by an integer panics in every profile,
        # `MIN % -1` must be 0 without a panic (`arith.rs`: "do not pass! { Rem }"), the others overflow
        for var in BINVARS:
            for op in ('div_int', 'rem_int', 'mul_int', 'div', 'rem', 'mul'):
                emit(lo, fmt_step(rng, op, -1, var))
            for op in ('div', 'rem', 'mul'):
                emit(lo, fmt_step(rng, op, G.clip(s, n, -(1 << f)), var))
        for var in INT_LEFT:
            emit(lo, fmt_step(rng, 'mul_int', -1, var))
    for op in (['neg', 'not'] if s else ['not']):
        for var in ('', 'r'):
            for x in [lo, lo + 1, hi, 0, 1, -1 if s else 2] + [x0() for _ in range(rep)]:
                emit(x, fmt_step(rng, op, None, var))
    for op in ('shl', 'shr'):
        for ty, (ts, tn) in SHIFT_TYPES.items():
            amts = shift_amounts(n, ts, tn)
            rng.shuffle(amts)
            i = 0
            for var in BINVARS:
                for _ in range(scale(tier, 2, 6)):
                    emit(x0(), fmt_step(rng, op, amts[i % len(amts)], var, ty))
                    i += 1
    one = 1 << f
    for op in ('sum', 'product'):
        for var in ('', 'r'):
            for r in range(scale(tier, 5, 20)):
                x = x0()
                ln = r % 5
                if r % 2 == 0:
                    ys = [G.rand_val(rng, s, n, f, E) for _ in range(ln)]
                    if ln:
                        ys[rng.randrange(ln)] = boundary_operand(rng, s, n, f, x, 'add' if op == 'sum' else 'mul')
                else:
                    ys = [G.clip(s, n, rng.choice([0, 1, one, one + 1, one >> 1, rng.randint(0, 50)])) for _ in range(ln)]
                emit(x, fmt_step(rng, op, ys, var))
    for op in ('sum0', 'product0'):
        for var in ('', 'r'):
            emit(x0(), fmt_step(rng, op, None, var))
    return out

def gen(tier, seed, unit, nunits):
    out = []
    for (s, n, f) in unit_layouts(G.typed_layouts(tier), unit, nunits):
        rng = random.Random(f'{seed}/ExtOps/{s}/{n}/{f}')
        E = G.edges(s, n, f)
        out += single_steps(rng, tier, s, n, f, E)
        for kind, cnt in (('safe', scale(tier, 60, 1500)), ('one', scale(tier, 60, 1500)), ('any', scale(tier, 40, 1000))):
            for _ in range(cnt):
                x = G.rand_val(rng, s, n, f, E)
                if kind == 'safe' and rng.random() < 0.5:
                    # start from a moderate value so that several arithmetic steps fit
                    x = G.clip(s, n, rng.choice([0, 1, 1 << f, (1 << f) + 1, 3 << max(f - 1, 0), rng.randint(0, 1 << (n // 2))]) * rng.choice([1, -1] if s else [1]))
                out.append(program(rng, s, n, f, E, x, rng.randint(2, 8), kind))
    return {'wrap': out}

if __name__ == '__main__':
    import sys, collections
    tier = sys.argv[1] if len(sys.argv) > 1 else 'quick'
    c = collections.Counter()
    tot = 0
    for u in range(4):
        for b, ls in gen(tier, 1, u, 4).items():
            for l in ls:
                tot += 1
                for st in l.split(' ')[5:]:
                    c[st.split(':')[0]] += 1
    print('requests', tot)
    for k, v in sorted(c.items()):
        print(k, v)
