#!/usr/bin/env python3
"""Orchestration of one property check:  run_check.py <Cxx> <quick|thorough>   |   run_check.py replay <file>

Steps (DESIGN.md §6): translator -> lake build of the property's theorems -> axiom audit -> cargo build of the
harness in both profiles from /repo's working tree -> generated requests through harness and Lean driver ->
verdict + evidence.  No verdict logic lives here beyond counting the driver's DIFF / SPEC lines and matching
them against /verif/known_findings.txt.
"""
import math
import sys, os, subprocess, json, time, hashlib, re, shutil, importlib
from concurrent.futures import ProcessPoolExecutor

VERIF = os.environ.get('SFX_VERIF') or os.path.dirname(os.path.dirname(os.path.realpath(__file__)))   # /verif, or a scratch copy made by tools/sandbox.sh
REPO = os.environ.get('SFX_REPO', '/repo')
LEAN = VERIF + '/lean'
HARNESS = VERIF + '/harness'
DRIVER = LEAN + '/.lake/build/bin/driver'
ALLOWED_AXIOMS = {'propext', 'Classical.choice', 'Quot.sound'}
NSHARDS = 16
sys.path.insert(0, VERIF + '/tools')
import props as P   # per-property configuration (generators, lean modules, bins)

def sh(cmd, cwd=None, env=None, timeout=None):
    e = dict(os.environ)
    e['CARGO_NET_OFFLINE'] = 'true'
    if env:
        e.update(env)
    p = subprocess.run(cmd, cwd=cwd, env=e, shell=isinstance(cmd, str), stdout=subprocess.PIPE,
                       stderr=subprocess.STDOUT, text=True, timeout=timeout)
    return p.returncode, p.stdout

class Ctx:
    def __init__(self, prop, tier, seed):
        self.prop, self.tier, self.seed = prop, tier, seed
        self.t0 = time.time()
        self.broken = []          # names of proof obligations / correspondences that no longer check
        self.failing = []         # concrete failing inputs: (profile, request, impl answer, expected)
        self.known_hits = {}      # finding id -> count
        self.notes = []
        self.stats = {}
        self.samples = []
        self.obligations = 0
        self.discharged = 0
        self.axioms = {}
        self.work = f'{VERIF}/work/{prop}-{tier}'

def step_translator(ctx):
    rc, out = sh(['python3', VERIF + '/tools/gen_from_source.py'])
    ctx.obligations += 1
    if rc != 0:
        ctx.broken.append('translator:Generated.lean-is-current')
        ctx.notes.append('translator failed: ' + out[-2000:])
    else:
        ctx.discharged += 1

def lean_theorems(module):
    """names of the theorems declared in a property module (audited one by one)"""
    path = LEAN + '/' + module.replace('.', '/') + '.lean'
    src = open(path).read()
    ns = []
    names = []
    # scan the comment-free text: a doc comment may contain a line that begins with the word `theorem`
    code = re.sub(r'/-.*?-/', lambda m: '\n' * m.group(0).count('\n'), src, flags=re.S)
    for line in code.splitlines():
        m = re.match(r'\s*namespace\s+(\S+)', line)
        if m:
            ns.append(m.group(1)); continue
        m = re.match(r'\s*end\s+(\S+)', line)
        if m and ns and ns[-1] == m.group(1):
            ns.pop(); continue
        m = re.match(r'\s*(?:private\s+|protected\s+)?theorem\s+([^\s:({\[]+)', line)
        if m:
            names.append('.'.join(ns + [m.group(1)]))
    return names, src

def strip_comments(src):
    src = re.sub(r'/-.*?-/', '', src, flags=re.S)
    src = re.sub(r'--.*', '', src)
    return src

FORBIDDEN = re.compile(r'\b(sorry|admit|native_decide|bv_decide|implemented_by|unsafe)\b|^\s*axiom\s|maxHeartbeats\s+0', re.M)

def step_lean(ctx, cfg):
    mods = cfg['lean_modules']
    rc, out = sh(['lake', 'build'] + mods + ['driver'], cwd=LEAN, timeout=3600)
    ctx.lake_log = out[-4000:]
    names = []
    for m in mods:
        try:
            n, src = lean_theorems(m)
        except FileNotFoundError:
            ctx.broken.append(f'lean:{m}:missing'); continue
        names += n
        bad = FORBIDDEN.findall(strip_comments(src))
        if bad:
            ctx.broken.append(f'lean:{m}:forbidden-construct')
    # forbidden constructs anywhere in the project's proof files
    for root in ('SfxModel', 'SfxProofs', 'SfxProps'):
        for dp, _, fs in os.walk(f'{LEAN}/{root}'):
            for fn in fs:
                if fn.endswith('.lean'):
                    if FORBIDDEN.search(strip_comments(open(os.path.join(dp, fn)).read())):
                        ctx.broken.append(f'lean:{root}/{fn}:forbidden-construct')
    ctx.obligations += len(names)
    ctx.theorems = names
    if rc != 0:
        # which module failed?
        failed = re.findall(r'✖ \[\d+/\d+\] Building (\S+)', out) or re.findall(r'error: (\S+\.lean)', out)
        errs = re.findall(r'error: ([^\n]+)', out)
        ctx.broken.append('lean-build:' + ','.join(sorted(set(failed))) if failed else 'lean-build')
        ctx.notes.append('lake build failed: ' + '; '.join(errs[:5]))
        return False
    # axiom audit
    os.makedirs(ctx.work, exist_ok=True)
    audit = ctx.work + '/Audit.lean'
    with open(audit, 'w') as fh:
        for m in mods:
            fh.write(f'import {m}\n')
        for n in names:
            fh.write(f'#print axioms {n}\n')
    rc, out = sh(['lake', 'env', 'lean', audit], cwd=LEAN, timeout=1800)
    if rc != 0:
        ctx.broken.append('lean-audit')
        ctx.notes.append('audit failed: ' + out[-1500:])
        return False
    out1 = out.replace('\n  ', ' ')
    seen = {}
    for m in re.finditer(r"'(\S+)' depends on axioms: \[([^\]]*)\]", out1):
        seen[m.group(1)] = {a.strip() for a in m.group(2).split(',') if a.strip()}
    for m in re.finditer(r"'(\S+)' does not depend on any axioms", out1):
        seen[m.group(1)] = set()
    for n in names:
        ax = seen.get(n)
        if ax is None:
            ctx.broken.append(f'lean-audit:{n}:not-reported')
        elif not ax <= ALLOWED_AXIOMS:
            ctx.broken.append(f'lean-audit:{n}:axioms:{sorted(ax - ALLOWED_AXIOMS)}')
        else:
            ctx.discharged += 1
            ctx.axioms[n] = sorted(ax)
    if ctx.tier == 'thorough':
        for m in mods:
            rc, out = sh(['lake', 'env', 'leanchecker', m], cwd=LEAN, timeout=3600)
            ctx.notes.append(f'leanchecker {m}: rc={rc}')
            if rc != 0:
                ctx.broken.append(f'leanchecker:{m}')
    return True

def step_cargo(ctx, cfg):
    fr = 'all' if (ctx.tier == 'thorough' and cfg.get('thorough_all_fracs')) else 'quick'
    ok = True
    bins = cfg['bins']
    procs = []
    for prof in cfg['profiles']:
        cmd = ['cargo', 'build', '--offline', '--profile', prof] + sum([['--bin', b] for b in bins], [])
        e = dict(os.environ); e['CARGO_NET_OFFLINE'] = 'true'; e['SFX_FRACS'] = fr
        procs.append((prof, subprocess.Popen(cmd, cwd=HARNESS, env=e, stdout=subprocess.PIPE, stderr=subprocess.STDOUT, text=True)))
    for prof, p in procs:
        out, _ = p.communicate()
        if p.returncode != 0:
            ok = False
            ctx.broken.append(f'cargo-build:{prof}')
            ctx.notes.append(f'cargo build ({prof}) failed: ' + out[-3000:])
    ctx.fracs_mode = fr
    return ok

def gen_unit(args):
    prop, tier, seed, unit, nunits, work = args
    cfg = P.PROPS[prop]
    lines_by_bin = cfg['gen'](tier, seed, unit, nunits)
    counts = {}
    for b, lines in lines_by_bin.items():
        seen = set(); out = []
        for l in lines:
            if l not in seen:
                seen.add(l); out.append(l)
        with open(f'{work}/{b}.{unit}.req', 'w') as fh:
            fh.write('\n'.join(out) + ('\n' if out else ''))
        counts[b] = len(out)
    return counts

def run_shard(args):
    b, unit, prof, work = args
    req = f'{work}/{b}.{unit}.req'
    outp = f'{work}/{b}.{unit}.{prof}.out'
    if not os.path.exists(req) or os.path.getsize(req) == 0:
        return (b, unit, prof, '')
    ans = f'{work}/{b}.{unit}.{prof}.ans'
    # a shard of a quick run takes seconds to a minute; a call that never returns must be reported well inside the time allowed for a quick check
    tmo = int(os.environ.get('SFX_SHARD_TIMEOUT', '300' if os.environ.get('SFX_TIER', 'quick') == 'quick' else '2400'))
    rc = subprocess.call(['bash', '-c', f'timeout {tmo} {HARNESS}/target/{prof}/{b} < {req} > {ans}'])
    hang = ''
    if rc == 124:
        # the implementation did not finish: find the request it hangs on (line-flushed rerun, short timeout)
        subprocess.call(['bash', '-c', f'SFX_FLUSH=1 timeout 120 {HARNESS}/target/{prof}/{b} < {req} > {ans}'])
        done = sum(1 for _ in open(ans))
        reqs = [l for l in open(req).read().splitlines() if l.strip() and not l.startswith('#')]
        if done < len(reqs):
            hang = f'SPEC {reqs[done]} => TIMEOUT spec=call_did_not_return_within_the_time_limit\n'
        # drop a possibly partial last line
        lines = open(ans).read().splitlines()
        open(ans, 'w').write('\n'.join(l for l in lines if ' => ' in l) + '\n')
    elif rc != 0:
        return (b, unit, prof, f'ERROR harness rc={rc}')
    rc = subprocess.call(['bash', '-c', f'{DRIVER} {prof} < {ans} > {outp}'])
    if rc != 0:
        return (b, unit, prof, f'ERROR driver rc={rc}')
    return (b, unit, prof, hang + open(outp).read())

def run_oracle_shard(args):
    b, unit, work = args
    req = f'{work}/{b}.{unit}.req'
    if not os.path.exists(req) or os.path.getsize(req) == 0:
        return ''
    # judge the answers the correspondence step already collected (release profile); running the implementation a second time would hang
    # wherever a call does not return (the correspondence step has a per-shard timeout and reports that call)
    ans = f'{work}/{b}.{unit}.rel.ans'
    if os.path.exists(ans):
        cmd = f'python3-vt {VERIF}/tools/oracle_mp.py < {ans}'
    else:
        cmd = f'timeout 600 {HARNESS}/target/rel/{b} < {req} | python3-vt {VERIF}/tools/oracle_mp.py'
    p = subprocess.run(['bash', '-o', 'pipefail', '-c', cmd], stdout=subprocess.PIPE, stderr=subprocess.STDOUT, text=True)
    if p.returncode != 0:
        return 'ERROR oracle rc=%d %s' % (p.returncode, p.stdout[-500:])
    return p.stdout

def step_oracle(ctx, cfg):
    """C13-C16: judge the implementation's answers against the real-valued functions with the mpmath search oracle"""
    work = ctx.work + '/req'
    with ProcessPoolExecutor(NSHARDS) as ex:
        outs = list(ex.map(run_oracle_shard, [(b, u, work) for u in range(NSHARDS) for b in cfg['bins']]))
    known = load_known()
    n = fails = 0
    worst = {}
    for out in outs:
        if out.startswith('ERROR'):
            ctx.broken.append('oracle:pipeline'); ctx.notes.append(out[:500]); continue
        for line in out.splitlines():
            if line.startswith('ORACLESTATS'):
                kv = dict(x.split('=') for x in line.split()[1:])
                n += int(kv['n']); fails += int(kv['fail'])
            elif line.startswith('ORACLEWORST'):
                parts = line.split(' ', 3)
                r = float(parts[2].split('=')[1])
                if r > worst.get(parts[1], (0, ''))[0]:
                    worst[parts[1]] = (r, parts[3])
            elif line.startswith('ORACLE '):
                l = line[7:]
                req = l.split(' => ')[0]
                hit = None
                for k in known:
                    if finding_matches(k, ctx.prop, req, 'rel'):
                        hit = k; break
                if hit:
                    ctx.known_hits.setdefault(hit['id'], [hit, 0, l])
                    ctx.known_hits[hit['id']][1] += 1
                else:
                    ctx.failing.append(('rel-oracle', l))
    ctx.oracle = dict(answers_judged=n, outside_bound=fails,
                      worst_error_over_bound={k: round(v[0], 4) for k, v in sorted(worst.items(), key=lambda kv: -kv[1][0])[:12]})

def load_known():
    out = []
    path = VERIF + '/known_findings.txt'
    if not os.path.exists(path):
        return out
    for line in open(path):
        line = line.strip()
        if line.startswith('finding:'):
            m = re.match(r'finding:\s+id=(\S+)\s+property=(\S+)\s+op=(\S+)\s+where=\{([^}]*)\}\s*(.*)', line)
            if m:
                out.append(dict(id=m.group(1), prop=m.group(2), op=m.group(3), where=m.group(4), what=m.group(5)))
    return out

def finding_matches(k, prop, request, prof):
    parts = request.split(' ')
    if len(parts) < 4:
        return False
    if not re.fullmatch(k['op'], parts[0]):
        return False
    if prop not in k['prop'].split(','):
        return False
    env = dict(op=parts[0], s=int(parts[1]), n=int(parts[2]), f=int(parts[3]), prof=prof, args=parts[4:])
    ints = []
    for a in parts[4:]:
        try:
            ints.append(int(a))
        except ValueError:
            ints.append(None)
    env['a'] = ints
    try:
        import math
        return bool(eval(k['where'], {'__builtins__': {}, 'abs': abs, 'len': len, 'min': min, 'max': max, 'math': math, 'int': int, 'float': float,
                                      'exptail': exptail}, env))
    except Exception:
        return False

def step_correspondence(ctx, cfg):
    shutil.rmtree(ctx.work + '/req', ignore_errors=True)
    work = ctx.work + '/req'
    os.makedirs(work, exist_ok=True)
    with ProcessPoolExecutor(NSHARDS) as ex:
        counts = list(ex.map(gen_unit, [(ctx.prop, ctx.tier, ctx.seed, u, NSHARDS, work) for u in range(NSHARDS)]))
    total_req = sum(sum(c.values()) for c in counts)
    jobs = [(b, u, prof, work) for u in range(NSHARDS) for b in cfg['bins'] for prof in cfg['profiles']]
    with ProcessPoolExecutor(NSHARDS) as ex:
        results = list(ex.map(run_shard, jobs))
    known = load_known()
    agg = dict(total=0, diff=0, spec=0, nomodel=0, nospec=0, skip=0, bad=0, nontrivial=0, panics=0, special=0)
    ops = {}
    diffs, specs = [], []
    for b, u, prof, out in results:
        if out.startswith('ERROR'):
            ctx.broken.append(f'corr:pipeline:{b}:{prof}')
            ctx.notes.append(out); continue
        for line in out.splitlines():
            if line.startswith('STATS '):
                for kv in line.split()[1:]:
                    k, v = kv.split('=')
                    agg[k] = agg.get(k, 0) + int(v)
            elif line.startswith('OP '):
                _, o, c = line.split()
                ops[o] = ops.get(o, 0) + int(c)
            elif line.startswith('DIFF '):
                diffs.append((prof, line[5:]))
            elif line.startswith('SPEC '):
                specs.append((prof, line[5:]))
            elif line.startswith('NOMODEL ') or line.startswith('BAD '):
                ctx.notes.append(line[:300])
    ctx.stats = agg
    ctx.ops = ops
    ctx.generated = total_req
    ctx.obligations += 1       # the correspondence obligation
    # a few actual cases for the evidence
    for b in cfg['bins']:
        for prof in cfg['profiles']:
            pth = f'{work}/{b}.0.req'
            if os.path.exists(pth):
                with open(pth) as fh:
                    for i, l in enumerate(fh):
                        if i % 997 == 0 and len(ctx.samples) < 12:
                            ctx.samples.append(l.strip())
            break
    if agg['nomodel'] or agg['bad']:
        ctx.broken.append('corr:requests-without-model')
    # classify spec failures: known finding or violation
    for prof, l in specs:
        req = l.split(' => ')[0]
        # a verdict that states ANOTHER property's clause (e.g. C12's "results that do not fit yield Err" on requests replayed by C11 / C17) is not this property's business
        if cfg.get('spec_ignore') and re.search(cfg['spec_ignore'], l):
            ctx.other_property_verdicts = getattr(ctx, 'other_property_verdicts', 0) + 1
            continue
        hit = None
        for k in known:
            if finding_matches(k, ctx.prop, req, prof):
                hit = k; break
        if hit:
            ctx.known_hits.setdefault(hit['id'], [hit, 0, l])
            ctx.known_hits[hit['id']][1] += 1
        else:
            ctx.failing.append((prof, l))
    # model/impl disagreements: correspondence broken; failing input only if the spec verdict also fails
    spec_reqs = {(p, l.split(' spec=')[0]) for p, l in specs}
    unexplained = []
    for prof, l in diffs:
        key = (prof, l.split(' model=')[0])
        if key in spec_reqs:
            continue
        unexplained.append((prof, l))
    ctx.diffs = diffs
    if diffs:
        opsd = sorted({l.split(' ')[0] for _, l in diffs})
        ctx.broken.append('corr:' + ','.join(opsd[:6]))
    else:
        ctx.discharged += 1
    ctx.unexplained_diffs = unexplained

def write_replay(ctx, name, lines):
    os.makedirs(VERIF + '/replays', exist_ok=True)
    h = hashlib.sha1(('\n'.join(lines)).encode()).hexdigest()[:10]
    path = f'{VERIF}/replays/{ctx.prop}-{name}-{h}.req'
    with open(path, 'w') as fh:
        fh.write('\n'.join(lines) + '\n')
    return path

def write_evidence(ctx, cfg, violations):
    os.makedirs(VERIF + '/evidence', exist_ok=True)
    st = ctx.stats or {}
    ev = {
        'property_id': ctx.prop,
        'tier': ctx.tier,
        'seed': ctx.seed,
        'level': 'proof',
        'coverage': {
            'obligations': ctx.obligations,
            'discharged': ctx.discharged,
            'checker_cmd': f"cd /verif/lean && lake build {' '.join(cfg['lean_modules'])} && lake env lean <Audit.lean with #print axioms for every theorem> ; correspondence: harness/target/<profile>/<bin> < requests | lean/.lake/build/bin/driver <profile>",
            'trusted_base': [
                'Lean 4.33 kernel' + (' + leanchecker replay of the property modules' if ctx.tier == 'thorough' else ''),
                'axioms used by the property theorems: ' + (', '.join(sorted({a for v in ctx.axioms.values() for a in v})) or 'none'),
                'hand-written Lean model tied to /repo only by differential execution (this run: see evaluations) and by the translator for data (Generated.lean)',
                'Rust semantics of primitive integers / build profiles as documented; rustc code generation',
            ] + cfg.get('trusted_extra', []),
            'theorems': {n: ctx.axioms.get(n) for n in getattr(ctx, 'theorems', [])},
            'theorem_status': cfg.get('theorem_status', ''),
            'evaluations': st.get('total', 0),
            'distinct_nontrivial': st.get('nontrivial', 0) // max(1, len(cfg['profiles'])),
            'rule': cfg.get('rule', 'requests are de-duplicated per generation unit (units partition the layouts, so requests are globally distinct); '
                     'a request is non-trivial when at least one operand has magnitude > 1; evaluations counts request x profile executions'),
            'samples': ctx.samples[:12],
            'requests_generated': getattr(ctx, 'generated', 0),
            'profiles': cfg['profiles'],
            'per_op_requests': getattr(ctx, 'ops', {}),
            'answers_special_P_None_flag': st.get('special', 0),
            'answers_panic': st.get('panics', 0),
            'typed_requests_skipped_layout_not_instantiated': st.get('skip', 0),
            'answers_compared_with_model_only_no_documented_answer': st.get('nospec', 0),
            'model_vs_impl_disagreements': st.get('diff', 0),
            'spec_vs_impl_failures': st.get('spec', 0),
            'of_which_verdicts_of_another_property_clause_ignored_here': getattr(ctx, 'other_property_verdicts', 0),
            'known_findings_hit': {k: v[1] for k, v in ctx.known_hits.items()},
            'search_oracle_mpmath': getattr(ctx, 'oracle', None),
            'broken_obligations': ctx.broken,
            'typed_layout_set': getattr(ctx, 'fracs_mode', 'quick'),
            'exhaustive': False,
            'exhaustive_parts': cfg.get('exhaustive_parts', []),
        },
        'assumptions': cfg.get('assumptions', []) + ctx.notes[:20],
        'wall_s': round(time.time() - ctx.t0, 2),
        'violations': violations,
    }
    with open(f'{VERIF}/evidence/{ctx.prop}.json', 'w') as fh:
        json.dump(ev, fh, indent=1)

def exptail(x, n):
    """sum_{i >= n} x^i / i!  (x >= 0): what a Maclaurin series of e^x cut after the term of index n-1 leaves out"""
    if x <= 0:
        return 0.0
    tot, i = 0.0, n
    while True:
        t = math.exp(i * math.log(x) - math.lgamma(i + 1))
        tot += t
        if i > x and t <= 1e-18 * tot:      # `<=`: for tiny x the very first term underflows to 0.0 and `<` never became true (the checker itself looped: seed s65a)
            return tot
        i += 1

def check(prop, tier):
    os.environ['SFX_TIER'] = tier
    seed = int(os.environ.get('VERIF_SEED', '1'))
    cfg = P.PROPS[prop]
    ctx = Ctx(prop, tier, seed)
    os.makedirs(ctx.work, exist_ok=True)
    step_translator(ctx)
    lean_ok = step_lean(ctx, cfg)
    cargo_ok = step_cargo(ctx, cfg)
    driver_ok = os.path.exists(DRIVER)
    if cargo_ok and driver_ok:
        step_correspondence(ctx, cfg)
        if cfg.get('oracle'):
            step_oracle(ctx, cfg)
    elif cargo_ok and not driver_ok:
        ctx.notes.append('driver missing; correspondence not run')
    if prop == 'C04' and not lean_ok and driver_ok:
        # the From/LossyFrom table theorem may have broken: probe the newly admitted conversions on the implementation
        rc, out = sh(['python3', VERIF + '/tools/from_probe.py'], timeout=1200)
        if rc == 0 and out.strip():
            p = subprocess.run([DRIVER, 'rel'], input=out, stdout=subprocess.PIPE, text=True)
            for l in p.stdout.splitlines():
                if l.startswith('SPEC '):
                    ctx.failing.append(('rel-probe', l[5:]))
        elif rc != 0:
            ctx.notes.append('from_probe failed: ' + out[-500:])
    violations = 0
    lines = []
    for hid, (k, cnt, ex) in sorted(ctx.known_hits.items()):
        print(f"KNOWN-FINDING: property={prop} id={hid} {k['what']} (hit {cnt}x, e.g. {ex[:160]})")
    if ctx.failing:
        violations = len(ctx.failing)
        ctx.failing.sort(key=lambda x: len(x[1]))
        rp = write_replay(ctx, 'fail', [f'# property {prop}: implementation answer violates the documented result',
                                        f'# profile={ctx.failing[0][0]}'] +
                          [f'# [{p}] {l}' for p, l in ctx.failing[:20]] +
                          sorted({l.split(' => ')[0] for _, l in ctx.failing[:200]}))
        print(f'VIOLATION property={prop} replay={rp}')
    elif ctx.broken:
        violations = 1
        body = [f'# property {prop}: proof obligation / correspondence no longer checks; no failing input found',
                '# broken: ' + '; '.join(ctx.broken)] + ['# ' + n[:400].replace('\n', ' | ') for n in ctx.notes[:10]]
        body += [f'# [{p}] {l}' for p, l in getattr(ctx, 'diffs', [])[:20]]
        body += sorted({l.split(' => ')[0] for _, l in getattr(ctx, 'diffs', [])[:200]})
        rp = write_replay(ctx, 'broken', body)
        print(f'VIOLATION property={prop} replay={rp} no-failing-input-found')
    write_evidence(ctx, cfg, violations)
    st = ctx.stats
    print(f"{prop} {tier}: theorems={len(getattr(ctx, 'theorems', []))} obligations={ctx.obligations} discharged={ctx.discharged} "
          f"requests={getattr(ctx, 'generated', 0)} evaluations={st.get('total', 0)} diff={st.get('diff', 0)} spec={st.get('spec', 0)} "
          f"known={sum(v[1] for v in ctx.known_hits.values())} wall={time.time() - ctx.t0:.1f}s")
    return 1 if violations else 0

def replay(path):
    """re-run the requests of a replay file through harness (both profiles) and driver"""
    m = re.search(r'/(C\d+)[-.]', path)
    prop = m.group(1)
    cfg = P.PROPS[prop]
    ctx = Ctx(prop, 'quick', 0)
    step_cargo(ctx, cfg)
    sh(['lake', 'build', 'driver'], cwd=LEAN)
    reqs = [l for l in open(path).read().splitlines() if l and not l.startswith('#')]
    bad = 0
    for prof in cfg['profiles']:
        for b in cfg['bins']:
            p = subprocess.run(f'{HARNESS}/target/{prof}/{b} | {DRIVER} {prof}', shell=True, input='\n'.join(reqs) + '\n',
                               stdout=subprocess.PIPE, text=True)
            known = load_known()
            for l in p.stdout.splitlines():
                if l.startswith('SPEC ') or l.startswith('DIFF '):
                    if l.startswith('SPEC '):
                        if cfg.get('spec_ignore') and re.search(cfg['spec_ignore'], l):
                            continue
                        hit = next((k for k in known if finding_matches(k, prop, l[5:].split(' => ')[0], prof)), None)
                        if hit:
                            print(f"KNOWN-FINDING: property={prop} id={hit['id']} {l[5:200]}"); continue
                    print(f'[{prof}/{b}] {l}'); bad += 1
            if cfg.get('oracle') and prof == 'rel':
                # the real-valued clauses are judged by the search oracle on the implementation's answers (known findings are reported, not counted)
                h = subprocess.run(f'{HARNESS}/target/{prof}/{b}', shell=True, input='\n'.join(reqs) + '\n', stdout=subprocess.PIPE, text=True)
                o = subprocess.run(['python3-vt', VERIF + '/tools/oracle_mp.py'], input=h.stdout, stdout=subprocess.PIPE, text=True)
                known = load_known()
                for l in o.stdout.splitlines():
                    if l.startswith('ORACLE '):
                        req = l[7:].split(' => ')[0]
                        hit = next((k for k in known if finding_matches(k, prop, req, 'rel')), None)
                        if hit:
                            print(f"KNOWN-FINDING: property={prop} id={hit['id']} {l[7:200]}")
                        else:
                            print(f'[{prof}/{b}/oracle] {l[7:]}'); bad += 1
    print('replay: %d failing/disagreeing lines' % bad)
    return 1 if bad else 0

if __name__ == '__main__':
    if sys.argv[1] == 'replay':
        sys.exit(replay(sys.argv[2]))
    sys.exit(check(sys.argv[1], sys.argv[2]))
