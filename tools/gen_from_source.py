#!/usr/bin/env python3
"""TRANSLATOR: regenerates lean/SfxModel/Generated.lean from /repo/src on every run.

Only *data* is translated (tables, constants, trip-count expressions, macro instantiation rows); code is
modelled by hand and tied by the correspondence check.  Any pattern that no longer matches raises, which the
check treats as the broken obligation `translator:Generated.lean-is-current`.
"""
import re, sys, os
SRC = '/repo/src'
OUT = '/verif/lean/SfxModel/Generated.lean'

def read(fn):
    return open(os.path.join(SRC, fn)).read()

def need(m, what):
    if not m:
        raise SystemExit(f'translator: pattern not found: {what}')
    return m

def gen_arith(out):
    s = read('arith.rs')
    rows = re.findall(r'^mul_div_(widen|fallback)! \{ (\w+), (\w+), (Signed|Unsigned) \}', s, re.M)
    need(len(rows) == 10, 'ten mul_div_widen!/mul_div_fallback! rows in arith.rs')
    out.append('/-- `(primitive, kind, double-or-unsigned type, signedness)` rows of `mul_div_widen!` / `mul_div_fallback!` -/')
    out.append('def mulDivRows : List (String × String × String × Bool) := [')
    out.append(',\n'.join(f'  ("{p}", "{k}", "{d}", {"true" if sg == "Signed" else "false"})' for k, p, d, sg in rows))
    out.append(']')
    fb = sorted({int(p[1:]) for k, p, d, sg in rows if k == 'fallback'})
    out.append('/-- widths whose primitives use the four-limb fallback -/')
    out.append(f'def fallbackWidths : List Nat := {fb}')

def lean_str_list(xs):
    return '[' + ', '.join('"%s"' % x.replace('\\', '\\\\').replace('"', '\\"') for x in xs) + ']'

def gen_codec_struct(out):
    s = read('lib.rs')
    m = need(re.search(r'((?:\s*#\[[^\]]*\]\s*\n)+)\s*pub struct \$Fixed<Frac> \{([^}]*)\}', s), 'struct $Fixed<Frac> in lib.rs')
    attrs = re.findall(r'#\[([^\]]*)\]', m.group(1))
    derives = []
    for a in attrs:
        dm = re.match(r'derive\((.*)\)', a, re.S)
        if dm:
            derives += [d.strip() for d in dm.group(1).split(',') if d.strip()]
    other = [a.strip() for a in attrs if not a.startswith('derive')]
    body = m.group(2)
    field_attrs = re.findall(r'#\[([^\]]*)\]', body)
    fields = re.findall(r'^\s*(?:pub(?:\([^)]*\))?\s+)?(\w+)\s*:\s*([^,\n]+),', body, re.M)
    out.append('/-- the struct behind every fixed-point type (`lib.rs`): non-derive attributes, derives, field attributes, fields -/')
    out.append(f'def structAttrs : List String := {lean_str_list(other)}')
    out.append(f'def structDerives : List String := {lean_str_list(derives)}')
    out.append(f'def structFieldAttrs : List String := {lean_str_list(field_attrs)}')
    out.append('def structFields : List (String × String) := [' + ', '.join(f'("{n}", "{t.strip()}")' for n, t in fields) + ']')
    # hand-written impls of the codec traits would bypass the derive
    manual = re.findall(r'impl\s*<[^>]*>\s*(?:codec::)?(Encode|Decode|MaxEncodedLen)\s+for\s+\$?Fixed', s)
    out.append(f'def manualCodecImpls : List String := {lean_str_list(manual)}')

def gen_transcendental(out):
    t = read('transcendental.rs')
    c = read('consts.rs')
    def const_bits(name):
        m = need(re.search(r'pub const %s: (U\d+F\d+) = U\d+F\d+::from_bits\((0x[0-9A-Fa-f_]+)\);' % name, c), f'consts::{name}')
        return m.group(1), int(m.group(2).replace('_', ''), 16)
    out.append('/-! ### `transcendental.rs`: constants (derived from `consts.rs` by shifts), CORDIC table and gain, loop bounds -/')
    m = need(re.search(r'type ConstType = (\w+);', t), 'type ConstType')
    out.append(f'def constType : String := "{m.group(1)}"')
    for nm, lit in (('ZERO', 0), ('ONE', 1), ('TWO', 2), ('THREE', 3)):
        need(re.search(r'pub const %s: I9F23 = I9F23::from_bits\(%di32 << 23\);' % (nm, lit), t), f'transcendental::{nm}')
    derived = {}
    for nm in ('TWO_PI', 'PI', 'FRAC_PI_2', 'FRAC_PI_4', 'LOG2_E', 'E'):
        m = need(re.search(r'pub const %s: I9F23 = I9F23::from_bits\(\(consts::(\w+)\.to_bits\(\) >> (\d+)\) as i32\);' % nm, t), f'transcendental::{nm}')
        ty, bits = const_bits(m.group(1))
        derived[nm] = (m.group(1), ty, bits, int(m.group(2)))
        v = bits >> int(m.group(2))
        need(v < 2 ** 31, f'{nm} fits i32')
        camel = {'TWO_PI': 'twoPi', 'PI': 'pi', 'FRAC_PI_2': 'fracPi2', 'FRAC_PI_4': 'fracPi4', 'LOG2_E': 'log2e', 'E': 'e'}[nm]
        out.append(f'/-- `{nm}`: `consts::{m.group(1)}` ({ty}, bits 0x{bits:032X}) `>> {m.group(2)}` as I9F23 bits -/')
        out.append(f'def {camel}Src : Nat := 0x{bits:032X}')
        out.append(f'def {camel}Shift : Nat := {m.group(2)}')
        out.append(f'def {camel}Bits : Int := {v}')
    m = need(re.search(r'const ARCTAN_ANGLES: \[U0F128; (\d+)\] = \[(.*?)\];', t, re.S), 'ARCTAN_ANGLES')
    entries = re.findall(r'U0F128::from_bits\((0x[0-9A-Fa-f]+)\)', m.group(2))
    need(len(entries) == int(m.group(1)), 'ARCTAN_ANGLES length')
    out.append(f'/-- `ARCTAN_ANGLES` (U0F128 bits) -/')
    out.append('def arctanAngles : List Nat := [' + ', '.join(entries) + ']')
    m = need(re.search(r'if i >= (\d+) \{\s*break;', t), 'cordic step bound')
    out.append(f'def cordicSteps : Nat := {m.group(1)}')
    m = need(re.search(r'let x = T::lossy_from\(U0F128::from_bits\((0x[0-9A-Fa-f]+)\)\);', t), 'cordic gain literal')
    out.append(f'def cordicGain : Nat := {m.group(1)}')
    # loop headers (trip-count expressions) in source order
    loops = re.findall(r'^\s*(for [^{]+|while [^{]+)\{', t[:t.index('#[cfg(test)]')], re.M)
    loops = [' '.join(l.split()) for l in loops]
    out.append('/-- every loop header of the module, in source order -/')
    out.append('def loopHeaders : List String := ' + lean_str_list(loops))

def macro_body(src, name):
    i = src.index('macro_rules! %s {' % name)
    j = src.index('{', i)
    depth = 0
    for k in range(j, len(src)):
        if src[k] == '{': depth += 1
        elif src[k] == '}':
            depth -= 1
            if depth == 0:
                return src[j:k + 1]
    raise SystemExit('translator: unbalanced macro ' + name)

def gen_convert(out):
    """type-level admissibility of `From` / `LossyFrom` between fixed-point types: every impl header of `convert!` / `convert_lossy!`
    with its where-clauses interpreted, instantiated for every invocation row"""
    c = read('convert.rs')
    def impls(body, trait_names):
        res = []
        for m in re.finditer(r'impl<[^>]*>\s+(From|LossyFrom)<\$(Src[UI])<FracSrc>>\s+for\s+\$(Dst[UI])<FracDst>\s+where\s+(.*?)\{', body, re.S):
            tr, sp, dp, wh = m.group(1), m.group(2), m.group(3), re.sub(r'\s+', '', m.group(4))
            le_frac = False; bound = None
            for cl in [x for x in re.split(r',(?![^<]*>)', wh) if x]:
                if cl == 'FracSrc:IsLessOrEqual<FracDst,Output=True>':
                    le_frac = True
                elif cl in ('$SrcBits:Sub<FracSrc>', '$DstBits:Sub<FracDst>', '$DstBitsM1:Sub<FracDst>'):
                    pass
                elif cl == 'Diff<$SrcBits,FracSrc>:IsLessOrEqual<Diff<$DstBits,FracDst>,Output=True>':
                    bound = 'DstBits'
                elif cl == 'Diff<$SrcBits,FracSrc>:IsLessOrEqual<Diff<$DstBitsM1,FracDst>,Output=True>':
                    bound = 'DstBitsM1'
                else:
                    raise SystemExit('translator: unknown where-clause in convert.rs: ' + cl)
            need(bound is not None, 'integer-bit clause in ' + m.group(0)[:60])
            res.append((tr, sp == 'SrcI', dp == 'DstI', le_frac, bound))
        return res
    conv = impls(macro_body(c, 'convert'), None)
    lossy_body = macro_body(c, 'convert_lossy')
    lossy = impls(lossy_body, None)
    need(len(conv) == 3 and len(lossy) == 3, 'three impls in convert! and in convert_lossy!')
    rows = re.findall(r'^convert! \{ \(Fixed(U\d+), Fixed(I\d+), U(\d+), LeEqU\d+\) -> \(Fixed(U\d+), Fixed(I\d+), U(\d+), U(\d+), LeEqU\d+\) \}', c, re.M)
    need(len(rows) == 10, 'ten convert! rows')
    lrows_src = re.findall(r'^convert_lossy! \{ Fixed(U\d+), Fixed(I\d+), U(\d+), LeEqU\d+ \}', c, re.M)
    lrows_dst = re.findall(r'-> \(Fixed(U\d+), Fixed(I\d+), U(\d+), U(\d+), LeEqU\d+\)', lossy_body)
    need(len(lrows_src) == 5 and len(lrows_dst) == 5, 'five convert_lossy! sources and destinations')
    ents = []
    for (_, _, sn, _, _, dn, dm1) in rows:
        for tr, ss, ds, lef, b in conv:
            ents.append((tr, ss, int(sn), ds, int(dn), lef, int(dn) if b == 'DstBits' else int(dm1)))
    for (_, _, sn) in lrows_src:
        for (_, _, dn, dm1) in lrows_dst:
            for tr, ss, ds, lef, b in lossy:
                ents.append((tr, ss, int(sn), ds, int(dn), lef, int(dn) if b == 'DstBits' else int(dm1)))
    out.append('/-! ### `convert.rs`: every `From` / `LossyFrom` impl between fixed-point types, as (trait, srcSigned, srcBits, dstSigned, dstBits, requires FracSrc ≤ FracDst, constant C in `srcBits − FracSrc ≤ C − FracDst`) -/')
    out.append('def fromImpls : List (String × Bool × Nat × Bool × Nat × Bool × Nat) := [')
    b = lambda x: 'true' if x else 'false'
    out.append(',\n'.join(f'  ("{tr}", {b(ss)}, {sn}, {b(ds)}, {dn}, {b(lef)}, {ib})' for tr, ss, sn, ds, dn, lef, ib in ents))
    out.append(']')

def main():
    out = ['/- GENERATED by tools/gen_from_source.py from /repo/src — do not edit; rewritten on every check run. -/',
           'namespace Sfx', 'namespace Generated', '']
    gen_arith(out)
    for fn in sorted(globals()):
        if fn.startswith('gen_') and fn != 'gen_arith':
            globals()[fn](out)
    out += ['', 'end Generated', 'end Sfx', '']
    text = '\n'.join(out)
    old = open(OUT).read() if os.path.exists(OUT) else None
    if old != text:
        with open(OUT, 'w') as fh:
            fh.write(text)
    print('Generated.lean', 'unchanged' if old == text else 'rewritten')

if __name__ == '__main__':
    main()
