#!/usr/bin/env python3
"""TRANSLATOR: regenerates lean/SfxModel/Generated.lean from /repo/src on every run.

Only *data* is translated (tables, constants, trip-count expressions, macro instantiation rows); code is
modelled by hand and tied by the correspondence check.  Any pattern that no longer matches raises, which the
check treats as the broken obligation `translator:Generated.lean-is-current`.

The patterns are not run against the source text but against its CANONICAL FORM (`canon`): the token sequence of
the file, so that comments, line breaks, indentation and the trailing commas rustfmt adds or removes when it
reflows a list cannot make a pattern fail, while every change of a token still does.  Patterns are written as
Rust text with holes (`rx`); source fragments that go into the tables as strings are printed from their tokens
(`rust_text`).  NOT normalised - a pattern that meets one of them fails, which is the safe direction - are the
rewrites of rustfmt that change other tokens than a trailing comma: braces put around / removed from the body of a
match arm or closure, reordered `mod` / `use` items, string literals re-indented inside macro calls.

usage: gen_from_source.py [--src DIR] [--out FILE] [--out-conv FILE]      (defaults: the constants below)
       gen_from_source.py [--src DIR] --canon FILE                        (shows what the patterns see, e.g. --canon convert.rs)
"""
import re, sys, os, argparse
from types import SimpleNamespace
VERIF = os.environ.get('SFX_VERIF') or os.path.dirname(os.path.dirname(os.path.realpath(__file__)))
SRC = os.environ.get('SFX_REPO', '/repo') + '/src'
OUT = VERIF + '/lean/SfxModel/Generated.lean'
OUT_CONV = VERIF + '/lean/SfxModel/GeneratedConv.lean'

def need(m, what):
    if not m:
        raise SystemExit(f'translator: pattern not found: {what}')
    return m

# ================================================================ normalisation layer: Rust text -> canonical text

TOKEN = re.compile(r'''
    (?P<skip>  \s+ | //[^\n]* )                                                    # white space, line (and doc) comments
  | (?P<str>   b?r(?P<h>\#*)".*?"(?P=h) | b?"(?:[^"\\]|\\.)*" )                    # string literals, kept verbatim
  | (?P<chr>   b?'(?:[^'\\\n]|\\(?:u\{[^}]*\}|x[0-9A-Fa-f]{2}|.))' )               # character literals (before lifetimes)
  | (?P<num>   0[xob][0-9A-Fa-f_]+\w* | \d[\d_]*(?:\.\d[\d_]*)?(?:[eE][+-]?\d[\d_]*)?\w* )
  | (?P<word>  [$']?[^\W\d]\w* )                                                   # identifiers, keywords, `$metavariables`, `'lifetimes`
  | (?P<op>    <<= | \.\.= | \.\.\. | :: | -> | => | == | != | <= | >= | && | \|\| | [-+*/%^&|]= | << | \.\. | . )
''', re.X | re.S)

def lex(text):
    """the tokens of a piece of Rust, without comments.  `>` is always a token of its own (`>>` is `> >`, `>>=` is `> >=`): closing two
    generic lists and shifting right then lex alike whether or not a reflow has put a line break and a trailing comma between the two"""
    toks = []; i = 0
    while i < len(text):
        if text.startswith('/*', i):                  # block comment (they nest)
            depth = 0
            while True:
                m = need(re.compile(r'/\*|\*/').search(text, i), 'end of a block comment')
                depth += 1 if m.group() == '/*' else -1
                i = m.end()
                if depth == 0:
                    break
            continue
        m = TOKEN.match(text, i)
        i = m.end()
        if m.lastgroup != 'skip':
            toks.append(m.group())
    return toks

KEYWORDS = set('as break const continue dyn else for if impl in let loop match move mut ref return static unsafe where while yield'.split())
def is_name(tok):
    """identifier / metavariable / literal that is not a keyword, i.e. something a `(` or `[` directly after it applies to"""
    return tok not in KEYWORDS and bool(re.match(r'''[\w$'"]''', tok))

def after_generics(toks):
    """do the tokens end with the generic list of `fn name<...>` / `struct Name<...>` / a turbofish `::<...>` (then a `(` that follows opens a
    parameter / field / argument list, not a parenthesised operand of the comparison `>`)?"""
    depth = 0
    for k in range(len(toks) - 1, 0, -1):
        depth += (toks[k] == '>') - (toks[k] == '<')
        if depth == 0:
            return toks[k - 1] == '::' or toks[max(k - 2, 0)] in ('fn', 'struct')
        if toks[k] in (';', '{', '}'):
            break
    return False

def canon(text):
    """canonical form of a Rust source file: its tokens separated by single spaces, ONE TOP-LEVEL ITEM PER LINE (an outer attribute of a
    top-level item is a line of its own, as rustfmt lays it out), so `^` in a pattern means `at the start of a top-level item or of its
    attribute` - what a line anchor meant on the rustfmt-formatted text - and `.` cannot leave the item.

    The only tokens dropped are the optional trailing commas that rustfmt inserts/removes when it breaks/joins a list: the `,` before
      `]`, `}` and `>`;
      the `)` of a call / parameter list / tuple-struct: its `(` directly follows a name, `)`, `]`, `?` or the generic list of a `fn` / turbofish;
      the `)` of a tuple with two or more elements (there is another `,` in it and no `<`, whose commas would not separate elements);
      the `{` or `;` that ends a where-clause.
    Left alone, because there a trailing comma means (or may mean) something and rustfmt does not touch it: the `(x,)` that is not a call
    (a one-element tuple), and every comma that belongs to a macro's own syntax - directly inside the delimiters of a macro invocation
    `name!(...)` / `$(...)`, and anywhere inside a `macro_rules!` matcher (transcribers are code and are reflowed like code)."""
    def group(kind, call=False):
        """an open delimiter. kind: 'rules' (body of a macro_rules!), 'matcher', 'tt' (arguments of a macro), 'code'; call: its `(` opens a call /
        parameter list; commas, lt: number of `,` / any `<` directly in it so far; where: in a where-clause"""
        return SimpleNamespace(kind=kind, call=call, commas=0, lt=False, where=False)
    out = []; stack = [group('code')]          # the innermost open delimiters; at the bottom the file itself
    for t in lex(text):
        top = stack[-1]
        if top.where and t in ('{', ';'):
            top.where = False
            if out[-1] == ',':
                out.pop()
        if t in ('(', '[', '{'):
            p = ([''] * 3 + out)[-3:]
            if top.kind == 'matcher' or (top.kind == 'rules' and p[2] != '=>'):
                kind = 'matcher'
            elif p[0] == 'macro_rules' and p[1] == '!':
                kind = 'rules'
            else:
                kind = 'tt' if p[2] in ('!', '$') else 'code'
            stack.append(group(kind, is_name(p[2]) or p[2] in (')', ']', '?') or (p[2] == '>' and after_generics(out))))
        elif t in (')', ']', '}'):
            g = stack.pop() if len(stack) > 1 else top
            if out and out[-1] == ',' and g.kind == 'code' and (t != ')' or g.call or (g.commas >= 2 and not g.lt)):
                out.pop()
        elif t == '>' and out and out[-1] == ',' and top.kind == 'code':
            out.pop()
        elif t == ',':
            top.commas += 1
        elif t == '<':
            top.lt = True
        elif t == 'where' and top.kind == 'code':
            top.where = True
        out.append(t)
    lines = []; cur = []; depth = 0
    for i, t in enumerate(out):
        cur.append(t)
        depth += (t in ('(', '[', '{')) - (t in (')', ']', '}'))
        if depth == 0 and (t == ';' or (t == '}' and out[i + 1:i + 2] != [';']) or (t == ']' and cur[0] == '#')):
            lines.append(' '.join(cur)); cur = []
    return '\n'.join(lines + [' '.join(cur)])

MARK = 'ǁ'     # a letter that no source contains: stands for a hole while a pattern is tokenised (so that `U«\d+»` stays ONE token)
def rx(template):
    """pattern on canonical text, written as Rust text in any layout (it is tokenised like the source), with holes:
         «regex»     the regex, verbatim; glued to adjacent identifier characters it is part of that token (`Fixed«(U\\d+)»`, `«(\\d)»i32`)
         «?rust»     optional token sequence, given as Rust text; a group (empty when absent)
         «*regex»    zero or more tokens each matching the regex; a group (the tokens, each followed by a space)
       a leading `^` anchors at the start of a top-level item (see `canon`); returns a compiled regex"""
    anchor = template.startswith('^')
    holes = []
    def stash(m):       # a hole becomes MARK<number>MARK, which lexes as (part of) an identifier; `?` / `*` holes are tokens of their own
        holes.append(m.group(1)); mark = '%s%d%s' % (MARK, len(holes) - 1, MARK)
        return ' %s ' % mark if m.group(1)[0] in '?*' else mark
    pat = ''
    for tok in lex(re.sub(r'«(.+?)»', stash, template[anchor:])):
        parts = [holes[int(p[1:-1])] if p.startswith(MARK) else re.escape(p) for p in re.split('(%s\\d+%s)' % (MARK, MARK), tok) if p]
        if tok.startswith(MARK) and parts[0].startswith('?'):
            pat += '((?:%s[ \\n])?)' % rx(parts[0][1:]).pattern       # followed by a space, or by the line end if it is an attribute line
        elif tok.startswith(MARK) and parts[0].startswith('*'):
            pat += '((?:%s )*)' % parts[0][1:]
        else:
            pat += ''.join(parts) + ' '
    return re.compile(('^' if anchor else '') + (pat[:-1] if pat.endswith(' ') else pat), re.M)

def split_commas(text):
    """the comma-separated parts of a canonical token sequence (commas inside brackets of any kind do not split); empty parts dropped"""
    parts = [[]]; depth = 0
    for t in lex(text):
        depth += (t in ('(', '[', '{', '<')) - (t in (')', ']', '}', '>'))
        if t == ',' and depth == 0:
            parts.append([])
        else:
            parts[-1].append(t)
    return [' '.join(p) for p in parts if p]

def rust_text(text, types=False):
    """canonical text -> the text rustfmt's default style gives the same tokens on one line.  Used only for the source fragments that are
    copied into the tables as strings (attributes, field types, loop headers, bodies of the explicit `lossy_from`s).
    `types`: every `<` / `>` is a generic bracket (a type); otherwise only a `<` after `::` (turbofish) or where an operand starts
    (`<T as Trait>::X`) and the `>` that closes it - the others compare or shift"""
    out = ''; a = None; angle = 0      # a: previous token, b: current token; glue: no space between them; angle: open generic brackets
    a_prefix = a_generic = False       # a is a prefix operator / a generic bracket
    for b in lex(text):
        operand_end = a is not None and (is_name(a) or a in (')', ']', '?') or (a == '>' and a_generic))
        b_generic = (b == '<' and (types or a == '::' or not operand_end)) or (b == '>' and (types or angle > 0))
        if a is None or b in (')', ']', ',', ';', '.', '?', '::', ':', '..', '..='):
            glue = True
        elif a in KEYWORDS:
            glue = b_generic and a == 'impl'                   # `impl<T>`
        elif a in ('(', '[', '.', '::', '..', '..=', '#', '$') or a_prefix or (a_generic and a == '<'):
            glue = True
        elif b_generic:
            glue = b == '>' or operand_end                     # `Vec<`, `T>`, but `= <T as Trait>::X`
        elif b in ('(', '['):
            glue = operand_end or (a == '!' and not a_prefix)   # call, index, `name!(`
        elif b == '!':
            glue = is_name(a)                                  # `name!`
        elif a == '>' and not a_generic:
            glue = b in ('>', '>=')                            # `>>`, `>>=`
        else:
            glue = (a, b) == ('{', '}')
        a_prefix = b in ('-', '*', '&', '&&', '!') and not operand_end
        angle += b_generic * (1 if b == '<' else -1)
        out += ('' if glue else ' ') + b
        a, a_generic = b, b_generic
    return out

_canon = {}
def read(fn):
    """canonical form of a source file"""
    if fn not in _canon:
        with open(os.path.join(SRC, fn)) as fh:
            _canon[fn] = canon(fh.read())
    return _canon[fn]

CFG_F16 = '«?#[cfg(feature = "f16")]»'      # hole for the optional attribute line in front of an invocation row / an impl

# ================================================================ the tables

def gen_arith(out):
    s = read('arith.rs')
    rows = rx(r'^mul_div_«(widen|fallback)»! { «(\w+)», «(\w+)», «(Signed|Unsigned)» }').findall(s)
    need(len(rows) == 10, 'ten mul_div_widen!/mul_div_fallback! rows in arith.rs')
    out.append('/-- `(primitive, kind, double-or-unsigned type, signedness)` rows of `mul_div_widen!` / `mul_div_fallback!` -/')
    out.append('def mulDivRows : List (String × String × String × Bool) := [')
    out.append(',\n'.join(f'  ("{p}", "{k}", "{d}", {"true" if sg == "Signed" else "false"})' for k, p, d, sg in rows))
    out.append(']')
    fb = sorted({int(p[1:]) for k, p, d, sg in rows if k == 'fallback'})
    out.append('/-- widths whose primitives use the four-limb fallback -/')
    out.append(f'def fallbackWidths : List Nat := {fb}')

def lean_str_list(xs):
    return '[' + ', '.join('"%s"' % x.replace('\\', '\\\\').replace('"', '\\"') for x in xs) + ']'

def gen_codec_struct(out):
    s = read('lib.rs')
    ATTR = r'# \[ ([^\]]*) \]'        # one attribute, on canonical text
    m = need(rx(r'pub struct $Fixed<Frac> { «*[^ }]+»}').search(s), 'struct $Fixed<Frac> in lib.rs')
    am = need(re.search(r'(?:%s )+$' % ATTR, s[:m.start()]), 'attributes of struct $Fixed<Frac> in lib.rs')
    attrs = re.findall(ATTR, am.group())
    derives = []
    for a in attrs:
        dm = re.match(r'derive \((.*)\)$', a)
        if dm:
            derives += [rust_text(d, types=True) for d in split_commas(dm.group(1))]
    other = [rust_text(a) for a in attrs if not a.startswith('derive')]
    body = m.group(1)
    field_attrs = [rust_text(a) for a in re.findall(ATTR, body)]
    fields = [need(re.fullmatch(r'(?:pub (?:\( [^)]*\) )?)?(\$?\w+) : (.+)', f), 'field `name: type` of struct $Fixed<Frac>: ' + f).groups()
              for f in split_commas(re.sub(ATTR + ' ', '', body))]
    out.append('/-- the struct behind every fixed-point type (`lib.rs`): non-derive attributes, derives, field attributes, fields -/')
    out.append(f'def structAttrs : List String := {lean_str_list(other)}')
    out.append(f'def structDerives : List String := {lean_str_list(derives)}')
    out.append(f'def structFieldAttrs : List String := {lean_str_list(field_attrs)}')
    out.append('def structFields : List (String × String) := [' + ', '.join(f'("{n}", "{rust_text(t, types=True)}")' for n, t in fields) + ']')
    # hand-written impls of the codec traits would bypass the derive
    manual = [m.group(2) for m in rx(r'impl<«[^>]*»> «?codec::»«(Encode|Decode|MaxEncodedLen)» for «\$?Fixed»').finditer(s)]
    out.append(f'def manualCodecImpls : List String := {lean_str_list(manual)}')

def gen_transcendental(out):
    t = read('transcendental.rs')
    c = read('consts.rs')
    def const_bits(name):
        m = need(rx(r'pub const %s: «(U\d+F\d+)» = U«\d+»F«\d+»::from_bits(«(0x[0-9A-Fa-f_]+)»);' % name).search(c), f'consts::{name}')
        return m.group(1), int(m.group(2).replace('_', ''), 16)
    out.append('/-! ### `transcendental.rs`: constants (derived from `consts.rs` by shifts), CORDIC table and gain, loop bounds -/')
    m = need(rx(r'type ConstType = «(\w+)»;').search(t), 'type ConstType')
    out.append(f'def constType : String := "{m.group(1)}"')
    for nm, lit in (('ZERO', 0), ('ONE', 1), ('TWO', 2), ('THREE', 3)):
        need(rx(r'pub const %s: I9F23 = I9F23::from_bits(%di32 << 23);' % (nm, lit)).search(t), f'transcendental::{nm}')
    derived = {}
    for nm in ('TWO_PI', 'PI', 'FRAC_PI_2', 'FRAC_PI_4', 'LOG2_E', 'E'):
        m = need(rx(r'pub const %s: I9F23 = I9F23::from_bits((consts::«(\w+)».to_bits() >> «(\d+)») as i32);' % nm).search(t), f'transcendental::{nm}')
        ty, bits = const_bits(m.group(1))
        derived[nm] = (m.group(1), ty, bits, int(m.group(2)))
        v = bits >> int(m.group(2))
        need(v < 2 ** 31, f'{nm} fits i32')
        camel = {'TWO_PI': 'twoPi', 'PI': 'pi', 'FRAC_PI_2': 'fracPi2', 'FRAC_PI_4': 'fracPi4', 'LOG2_E': 'log2e', 'E': 'e'}[nm]
        out.append(f'/-- `{nm}`: `consts::{m.group(1)}` ({ty}, bits 0x{bits:032X}) `>> {m.group(2)}` as I9F23 bits -/')
        out.append(f'def {camel}Src : Nat := 0x{bits:032X}')
        out.append(f'def {camel}Shift : Nat := {m.group(2)}')
        out.append(f'def {camel}Bits : Int := {v}')
    m = need(rx(r'const ARCTAN_ANGLES: [U0F128; «(\d+)»] = [«(.*?)»];').search(t), 'ARCTAN_ANGLES')
    entries = rx(r'U0F128::from_bits(«(0x[0-9A-Fa-f]+)»)').findall(m.group(2))
    need(len(entries) == int(m.group(1)), 'ARCTAN_ANGLES length')
    out.append(f'/-- `ARCTAN_ANGLES` (U0F128 bits) -/')
    out.append('def arctanAngles : List Nat := [' + ', '.join(entries) + ']')
    m = need(rx(r'if i >= «(\d+)» { break;').search(t), 'cordic step bound')
    out.append(f'def cordicSteps : Nat := {m.group(1)}')
    m = need(rx(r'let x = T::lossy_from(U0F128::from_bits(«(0x[0-9A-Fa-f]+)»));').search(t), 'cordic gain literal')
    out.append(f'def cordicGain : Nat := {m.group(1)}')
    # loop headers (trip-count expressions) in source order: `for` / `while` (with its label, if any) where a statement starts
    # (after `{`, `}`, `;`, an attribute or the `=>` of a match arm - not the `for` of an impl or of a `for<'a>` bound), up to the `{` of the body
    code = t[:need(rx(r'#[cfg(test)]').search(t), '#[cfg(test)] in transcendental.rs').start()]
    loops = re.findall(r"(?:(?<=[{};\]] )|(?<= => ))((?:'\w+ : )?(?:for|while) [^{]+) \{", code)
    loops = [rust_text(l) for l in loops]
    out.append('/-- every loop header of the module, in source order -/')
    out.append('def loopHeaders : List String := ' + lean_str_list(loops))

def macro_body(src, name):
    """the `{ ... }` of `macro_rules! name` (a top-level item, hence one line of the canonical text)"""
    return need(rx(r'^macro_rules! %s «(\{.*\})»' % name).search(src), 'macro_rules! ' + name).group(1)

def where_clauses(wh):
    """the clauses of a `where`, each without any space"""
    return [cl.replace(' ', '') for cl in split_commas(wh)]

def gen_convert(out):
    """type-level admissibility of `From` / `LossyFrom` between fixed-point types: every impl header of `convert!` / `convert_lossy!`
    with its where-clauses interpreted, instantiated for every invocation row"""
    c = read('convert.rs')
    def impls(body, trait_names):
        res = []
        for m in rx(r'impl<«[^>]*»> «(From|LossyFrom)»<$«(Src[UI])»<FracSrc>> for $«(Dst[UI])»<FracDst> where «(.*?)» {').finditer(body):
            tr, sp, dp = m.group(1), m.group(2), m.group(3)
            le_frac = False; bound = None
            for cl in where_clauses(m.group(4)):
                if cl == 'FracSrc:IsLessOrEqual<FracDst,Output=True>':
                    le_frac = True
                elif cl in ('$SrcBits:Sub<FracSrc>', '$DstBits:Sub<FracDst>', '$DstBitsM1:Sub<FracDst>'):
                    pass
                elif cl == 'Diff<$SrcBits,FracSrc>:IsLessOrEqual<Diff<$DstBits,FracDst>,Output=True>':
                    bound = 'DstBits'
                elif cl == 'Diff<$SrcBits,FracSrc>:IsLessOrEqual<Diff<$DstBitsM1,FracDst>,Output=True>':
                    bound = 'DstBitsM1'
                else:
                    raise SystemExit('translator: unknown where-clause in convert.rs: ' + cl)
            need(bound is not None, 'integer-bit clause in ' + rust_text(m.group(0), types=True)[:60])
            res.append((tr, sp == 'SrcI', dp == 'DstI', le_frac, bound))
        return res
    conv = impls(macro_body(c, 'convert'), None)
    lossy_body = macro_body(c, 'convert_lossy')
    lossy = impls(lossy_body, None)
    need(len(conv) == 3 and len(lossy) == 3, 'three impls in convert! and in convert_lossy!')
    rows = rx(r'^convert! { (Fixed«(U\d+)», Fixed«(I\d+)», U«(\d+)», LeEqU«\d+») -> (Fixed«(U\d+)», Fixed«(I\d+)», U«(\d+)», U«(\d+)», LeEqU«\d+») }').findall(c)
    need(len(rows) == 10, 'ten convert! rows')
    lrows_src = rx(r'^convert_lossy! { Fixed«(U\d+)», Fixed«(I\d+)», U«(\d+)», LeEqU«\d+» }').findall(c)
    lrows_dst = rx(r'-> (Fixed«(U\d+)», Fixed«(I\d+)», U«(\d+)», U«(\d+)», LeEqU«\d+»)').findall(lossy_body)
    need(len(lrows_src) == 5 and len(lrows_dst) == 5, 'five convert_lossy! sources and destinations')
    ents = []
    for (_, _, sn, _, _, dn, dm1) in rows:
        for tr, ss, ds, lef, b in conv:
            ents.append((tr, ss, int(sn), ds, int(dn), lef, int(dn) if b == 'DstBits' else int(dm1)))
    for (_, _, sn) in lrows_src:
        for (_, _, dn, dm1) in lrows_dst:
            for tr, ss, ds, lef, b in lossy:
                ents.append((tr, ss, int(sn), ds, int(dn), lef, int(dn) if b == 'DstBits' else int(dm1)))
    out.append('/-! ### `convert.rs`: every `From` / `LossyFrom` impl between fixed-point types, as (trait, srcSigned, srcBits, dstSigned, dstBits, requires FracSrc ≤ FracDst, constant C in `srcBits − FracSrc ≤ C − FracDst`) -/')
    out.append('def fromImpls : List (String × Bool × Nat × Bool × Nat × Bool × Nat) := [')
    b = lambda x: 'true' if x else 'false'
    out.append(',\n'.join(f'  ("{tr}", {b(ss)}, {sn}, {b(ds)}, {dn}, {b(lef)}, {ib})' for tr, ss, sn, ds, dn, lef, ib in ents))
    out.append(']')

def macro_arms(body):
    """split a `macro_rules!` body `{ (matcher) => { transcriber }; ... }` (canonical text) into (matcher, transcriber) texts"""
    arms = []; i = 1; n = len(body) - 1
    def balanced(k, op, cl):
        depth = 0
        for j in range(k, n + 1):
            if body[j] == op: depth += 1
            elif body[j] == cl:
                depth -= 1
                if depth == 0:
                    return j
        raise SystemExit('translator: unbalanced macro arm')
    while True:
        while i < n and body[i] in ' ;':
            i += 1
        if i >= n:
            return arms
        need(body[i] == '(', 'macro arm starts with a parenthesised matcher')
        j = balanced(i, '(', ')')
        need(body.startswith(' => {', j + 1), 'macro arm transcriber in braces')
        k = j + 5
        e = balanced(k, '{', '}')
        arms.append((body[i:j + 1], body[k:e + 1]))
        i = e + 1

def conv_prim_tables(out):
    """type-level admissibility of the `From` / `LossyFrom` impls of convert.rs between fixed-point types and primitives
    (`int_to_fixed!`, `bool_to_fixed!`, `fixed_to_int!`, `fixed_to_int_lossy!`, `fixed_to_float!`, `fixed_to_float_lossy!`) and between
    primitives (`int_to_float_lossy_lossless!`, `lossy!`, the explicit float impls): every impl header with its where-clauses interpreted,
    instantiated for every invocation row"""
    c = read('convert.rs')
    c = c[:need(rx(r'fn _compile_fail_tests()').search(c), 'fn _compile_fail_tests() in convert.rs').start()]
    b = lambda x: 'true' if x else 'false'
    impl_count = lambda text: len(re.findall(r'\bimpl\b', text))
    # ---------------- int_to_fixed!
    arms = macro_arms(macro_body(c, 'int_to_fixed'))
    need(len(arms) == 2, 'two arms in int_to_fixed!')
    generic = rx(r'$SrcBits:ident')
    gen_arm = [a for a in arms if generic.search(a[0])]; same_arm = [a for a in arms if not generic.search(a[0])]
    need(len(gen_arm) == 1 and len(same_arm) == 1, 'one generic and one same-width arm in int_to_fixed!')
    gen_impls = []
    for m in rx(r'impl<FracDst: $DstLeEqU> «(From|LossyFrom)»<$«(Src[UI])»> for $«(Dst[UI])»<FracDst> where «(.*?)» {').finditer(gen_arm[0][1]):
        tr, sp, dp = m.group(1), m.group(2), m.group(3)
        bound = None; sub = None
        for cl in where_clauses(m.group(4)):
            if cl in ('$DstBits:Sub<FracDst>', '$DstBitsM1:Sub<FracDst>'):
                sub = cl[1:cl.index(':')]
            elif cl == '$SrcBits:IsLessOrEqual<Diff<$DstBits,FracDst>,Output=True>':
                bound = 'DstBits'
            elif cl == '$SrcBits:IsLessOrEqual<Diff<$DstBitsM1,FracDst>,Output=True>':
                bound = 'DstBitsM1'
            else:
                raise SystemExit('translator: unknown where-clause in int_to_fixed!: ' + cl)
        need(bound is not None and sub == bound, 'integer-bit clause (with matching Sub clause) in int_to_fixed! impl ' + rust_text(m.group(0), types=True)[:50])
        gen_impls.append((tr, sp == 'SrcI', dp == 'DstI', bound))
    need(len(gen_impls) == 6 and impl_count(gen_arm[0][1]) == 6, 'six impls in the generic arm of int_to_fixed!')
    same_impls = [('From', m.group(1) == 'SrcI', m.group(2) == 'DstI')
                  for m in rx(r'impl From<$«(Src[UI])»> for $«(Dst[UI])»<U0> {').finditer(same_arm[0][1])]
    same_impls += [('LossyFrom', m.group(1) == 'SrcI', m.group(2) == 'DstI')
                   for m in rx(r'lossy! { $«(Src[UI])»: Into $«(Dst[UI])»<U0> }').finditer(same_arm[0][1])]
    need(len(same_impls) == 4 and impl_count(same_arm[0][1]) == 2, 'two impls and two lossy! rows in the same-width arm of int_to_fixed!')
    # `lossy! { $Src: Into $Dst }` is `src.into()`, i.e. the `From` impl of the same pair
    need(rx(r'($Src:ty: Into $($Dst:ty),*) => { $( impl LossyFrom<$Src> for $Dst { «.*?» src.into()').search(macro_body(c, 'lossy')), 'lossy! Into arm forwards to into()')
    ents = []
    grows = rx(r'^int_to_fixed! { (u«(\d+)», i«(\d+)», U«(\d+)», LeEqU«\d+») -> (FixedU«(\d+)», FixedI«(\d+)», U«(\d+)», U«(\d+)», LeEqU«\d+») }').findall(c)
    srows = rx(r'^int_to_fixed! { (u«(\d+)», i«(\d+)») -> (FixedU«(\d+)», FixedI«(\d+)») }').findall(c)
    need(len(grows) == 10 and len(srows) == 5 and len(rx(r'^int_to_fixed! {').findall(c)) == 15, 'ten generic and five same-width int_to_fixed! rows')
    for (su, si, sb, du, di, db, dm1) in grows:
        # the `$DstBitsM1` constant is NOT required to be `$DstBits - 1` here: a loosened row must reach the table so that `from_int_table_sound` fails
        # and tools/from_probe.py can instantiate it
        need(su == si == sb and du == di == db, 'consistent int_to_fixed! row')
        for tr, ss, ds, bd in gen_impls:
            ents.append((tr, ('i' if ss else 'u') + sb, ss, int(sb), ds, int(db), True, int(db) if bd == 'DstBits' else int(dm1)))
    for (su, si, du, di) in srows:
        need(su == si and du == di, 'consistent same-width int_to_fixed! row')
        for tr, ss, ds in same_impls:
            ents.append((tr, ('i' if ss else 'u') + su, ss, int(su), ds, int(du), False, 0))
    # ---------------- bool_to_fixed!
    bbody = macro_body(c, 'bool_to_fixed')
    bimpls = []
    for m in rx(r'impl<FracDst: $DstLeEqU> «(From|LossyFrom)»<bool> for $«(Dst[UI])»<FracDst> where «(.*?)» {').finditer(bbody):
        bound = None; sub = None
        for cl in where_clauses(m.group(3)):
            if cl in ('$DstBits:Sub<FracDst>', '$DstBitsM1:Sub<FracDst>'):
                sub = cl[1:cl.index(':')]
            elif cl == 'U1:IsLessOrEqual<Diff<$DstBits,FracDst>,Output=True>':
                bound = 'DstBits'
            elif cl == 'U1:IsLessOrEqual<Diff<$DstBitsM1,FracDst>,Output=True>':
                bound = 'DstBitsM1'
            else:
                raise SystemExit('translator: unknown where-clause in bool_to_fixed!: ' + cl)
        need(bound is not None and sub == bound, 'integer-bit clause in bool_to_fixed! impl')
        bimpls.append((m.group(1), m.group(2) == 'DstI', bound))
    need(len(bimpls) == 4 and impl_count(bbody) == 4, 'four impls in bool_to_fixed!')
    brows = rx(r'^bool_to_fixed! { FixedU«(\d+)», FixedI«(\d+)», U«(\d+)», U«(\d+)», LeEqU«\d+» }').findall(c)
    need(len(brows) == 5, 'five bool_to_fixed! rows')
    for (du, di, db, dm1) in brows:
        need(du == di == db and int(dm1) + 1 == int(db), 'consistent bool_to_fixed! row')
        for tr, ds, bd in bimpls:
            ents.append((tr, 'bool', False, 1, ds, int(db), True, int(db) if bd == 'DstBits' else int(dm1)))
    out.append('/-! ### `convert.rs`: every `From` / `LossyFrom` impl from a primitive integer or `bool` to a fixed-point type (`int_to_fixed!`, `bool_to_fixed!`), as')
    out.append('(trait, source type, srcSigned, srcBits (`bool`: the `U1` of its clause), dstSigned, dstBits, generic FracDst?, constant C): generic rows carry the clause')
    out.append('`srcBits ≤ C − FracDst` (with `FracDst ≤ C`), the others are implemented for `FracDst = U0` only -/')
    out.append('def fromIntImpls : List (String × String × Bool × Nat × Bool × Nat × Bool × Nat) := [')
    out.append(',\n'.join(f'  ("{tr}", "{nm}", {b(ss)}, {sn}, {b(ds)}, {dn}, {b(g)}, {cc})' for tr, nm, ss, sn, ds, dn, g, cc in ents))
    out.append(']')
    # ---------------- fixed_to_int!
    arms = macro_arms(macro_body(c, 'fixed_to_int'))
    need(len(arms) == 2 and 'wider' not in arms[0][0] and 'wider' in arms[1][0], 'plain and wider arm of fixed_to_int!')
    def u0_impls(text):
        return [(m.group(1) == 'SrcI', m.group(2) == 'DstI') for m in rx(r'impl From<$«(Src[UI])»<U0>> for $«(Dst[UI])» {').finditer(text)]
    plain = u0_impls(arms[0][1]); wider = u0_impls(arms[1][1])
    need(len(plain) == 2 and impl_count(arms[0][1]) == 2, 'two impls in the plain arm of fixed_to_int!')
    need(len(wider) == 1 and impl_count(arms[1][1]) == 1 and
         rx(r'fixed_to_int! { ($SrcU, $SrcI) -> ($DstU, $DstI) }').search(arms[1][1]), 'wider arm of fixed_to_int! = plain arm + one impl')
    wider = plain + wider
    tents = []
    rows = rx(r'^fixed_to_int! { (FixedU«(\d+)», FixedI«(\d+)») -> «?wider»(«(u\w+)», «(i\w+)») }').findall(c)
    need(len(rows) == 17 and len(rx(r'^fixed_to_int! {').findall(c)) == 17, 'seventeen fixed_to_int! rows')
    for (su, si, w, dun, din) in rows:
        need(su == si and dun[1:] == din[1:], 'consistent fixed_to_int! row')
        for ss, ds in (wider if w else plain):
            tents.append(('From', ss, int(su), din if ds else dun, ds, False, 0))
    # ---------------- fixed_to_int_lossy!
    arms = macro_arms(macro_body(c, 'fixed_to_int_lossy'))
    need(len(arms) == 2, 'two arms in fixed_to_int_lossy!')
    limpls = []
    for m in rx(r'impl<FracSrc: $SrcLeEqU> LossyFrom<$«(Src[UI])»<FracSrc>> for $«(Dst[UI])» where «(.*?)» {').finditer(arms[0][1]):
        bound = None
        for cl in where_clauses(m.group(3)):
            if cl == '$SrcBits:Sub<FracSrc>':
                pass
            elif cl == 'Diff<$SrcBits,FracSrc>:IsLessOrEqual<$DstBits,Output=True>':
                bound = 'DstBits'
            elif cl == 'Diff<$SrcBits,FracSrc>:IsLessOrEqual<$DstBitsM1,Output=True>':
                bound = 'DstBitsM1'
            else:
                raise SystemExit('translator: unknown where-clause in fixed_to_int_lossy!: ' + cl)
        need(bound is not None, 'integer-bit clause in fixed_to_int_lossy! impl')
        limpls.append((m.group(1) == 'SrcI', m.group(2) == 'DstI', bound))
    need(len(limpls) == 3 and impl_count(arms[0][1]) == 3, 'three impls in fixed_to_int_lossy!')
    ldst = rx(r'-> («(u\w+)», «(i\w+)», U«(\d+)», U«(\d+)», LeEqU«\d+»)').findall(arms[1][1])
    lsrc = rx(r'^fixed_to_int_lossy! { FixedU«(\d+)», FixedI«(\d+)», U«(\d+)», LeEqU«\d+» }').findall(c)
    need(len(ldst) == 6 and len(lsrc) == 5, 'six destinations and five sources of fixed_to_int_lossy!')
    for (su, si, sb) in lsrc:
        need(su == si == sb, 'consistent fixed_to_int_lossy! source row')
        for (dun, din, db, dm1) in ldst:
            need(dun[1:] == din[1:] and int(dm1) + 1 == int(db), 'consistent fixed_to_int_lossy! destination row')
            for ss, ds, bd in limpls:
                tents.append(('LossyFrom', ss, int(sb), din if ds else dun, ds, True, int(db) if bd == 'DstBits' else int(dm1)))
    out.append('/-! ### `convert.rs`: every `From` / `LossyFrom` impl from a fixed-point type to a primitive integer (`fixed_to_int!`, `fixed_to_int_lossy!`), as')
    out.append('(trait, srcSigned, srcBits, destination type, dstSigned, generic FracSrc?, constant C): generic rows carry the clause `srcBits − FracSrc ≤ C`,')
    out.append('the others are implemented for `FracSrc = U0` only and carry no clause -/')
    out.append('def toIntImpls : List (String × Bool × Nat × String × Bool × Bool × Nat) := [')
    out.append(',\n'.join(f'  ("{tr}", {b(ss)}, {sn}, "{dn}", {b(ds)}, {b(g)}, {cc})' for tr, ss, sn, dn, ds, g, cc in tents))
    out.append(']')
    # ---------------- fixed_to_float! / fixed_to_float_lossy!
    need(rx(r'impl<Frac: $LeEqU> From<$Fixed<Frac>> for $Float { «.*?» src.to_num()').search(macro_body(c, 'fixed_to_float')), 'fixed_to_float! impl')
    fents = []
    frows = rx('^' + CFG_F16 + r'fixed_to_float! { Fixed«([IU])(\d+)»(LeEqU«(\d+)») -> «(\w+)» }').findall(c)
    need(len(frows) == 12 and len(rx(r'^fixed_to_float! {').findall(c)) == 12, 'twelve fixed_to_float! rows')
    for (cfg, sg, n, n2, fl) in frows:
        need(n == n2, 'consistent fixed_to_float! row')
        fents.append(('From', sg == 'I', int(n), fl, bool(cfg)))
    arms = macro_arms(macro_body(c, 'fixed_to_float_lossy'))
    need(len(arms) == 2 and rx(r'impl<Frac: $LeEqU> LossyFrom<$Fixed<Frac>> for $Float { «.*?» src.to_num()').search(arms[0][1]), 'fixed_to_float_lossy! impl')
    ldst = rx(CFG_F16 + r'fixed_to_float_lossy! { $Fixed($LeEqU) -> «(\w+)» }').findall(arms[1][1])
    lsrc = rx(r'^fixed_to_float_lossy! { Fixed«([IU])(\d+)»(LeEqU«(\d+)») }').findall(c)
    need(len(ldst) == 4 and len(lsrc) == 10, 'four destinations and ten sources of fixed_to_float_lossy!')
    for (sg, n, n2) in lsrc:
        need(n == n2, 'consistent fixed_to_float_lossy! row')
        for (cfg, fl) in ldst:
            fents.append(('LossyFrom', sg == 'I', int(n), fl, bool(cfg)))
    out.append('/-! ### `convert.rs`: every `From` / `LossyFrom` impl from a fixed-point type (any `Frac`) to a float (`fixed_to_float!`, `fixed_to_float_lossy!`), as')
    out.append('(trait, srcSigned, srcBits, float type, behind `cfg(feature = "f16")`?) -/')
    out.append('def toFloatImpls : List (String × Bool × Nat × String × Bool) := [')
    out.append(',\n'.join(f'  ("{tr}", {b(ss)}, {sn}, "{fl}", {b(cfg)})' for tr, ss, sn, fl, cfg in fents))
    out.append(']')
    # ---------------- int_to_float_lossy_lossless!
    need(rx(r'($Int:ident -> $($Lossy:ident)*; $($Lossless:ident)*)').search(macro_body(c, 'int_to_float_lossy_lossless')) and
         len(rx(r'src.to_repr_fixed().to_num()').findall(macro_body(c, 'int_to_float_lossy_lossless'))) == 2, 'int_to_float_lossy_lossless! shape')
    ients = []
    irows = rx('^' + CFG_F16 + r'int_to_float_lossy_lossless! { «(\w+)» -> «*\w+»; «*\w+»}').findall(c)
    need(len(irows) == 24 and len(rx(r'^int_to_float_lossy_lossless! {').findall(c)) == 24, 'twenty-four int_to_float_lossy_lossless! rows')
    for (cfg, it, lossy, lossless) in irows:
        for fl in lossy.split():
            ients.append((it, fl, False, bool(cfg)))
        for fl in lossless.split():
            ients.append((it, fl, True, bool(cfg)))
    out.append('/-! ### `convert.rs`: `LossyFrom<integer> for float` (`int_to_float_lossy_lossless!`), as (integer type, float type, documented as lossless?, behind `cfg(feature = "f16")`?) -/')
    out.append('def intToFloatImpls : List (String × String × Bool × Bool) := [')
    out.append(',\n'.join(f'  ("{it}", "{fl}", {b(ll)}, {b(cfg)})' for it, fl, ll, cfg in ients))
    out.append(']')
    # ---------------- lossy! rows between primitives and the explicit float impls
    larms = macro_arms(macro_body(c, 'lossy'))
    need(len(larms) == 2 and rx(r'fn lossy_from(src: $Src) -> Self { src }').search(larms[0][1]) and
         rx(r'fn lossy_from(src: $Src) -> Self { src.into() }').search(larms[1][1]), 'lossy! arms: identity and into()')
    pents = []
    # a row is `lossy! { T }` or `lossy! { T: Into A, B, ... }` (the second hole continues the token of the first: it is the optional rest of the row)
    lrows = list(rx('^' + CFG_F16 + r'lossy! { «(\w+)»«(?: : Into ([\w ,]+))?» }').finditer(c))
    for m in lrows:
        cfg, src, dsts = m.group(1), m.group(2), m.group(3)
        if dsts is None:
            pents.append((src, src, 'id', bool(cfg)))
        else:
            for d in dsts.split(','):
                pents.append((src, d.strip(), 'into', bool(cfg)))
    need(len(rx(r'^lossy! {').findall(c)) == len(lrows), 'every lossy! row parsed')
    for m in rx('^' + CFG_F16 + r'impl LossyFrom<«(\w+)»> for «(\w+)» { «(.*)» }').finditer(c):
        body = need(rx(r'fn lossy_from(src: «\w+») -> «\w+» { «(.*?)» }').search(m.group(4)), 'explicit LossyFrom body')
        pents.append((m.group(2), m.group(3), rust_text(body.group(1)), bool(m.group(1))))
    need(len(rx(r'^impl LossyFrom<').findall(c)) == len([p for p in pents if p[2] not in ('id', 'into')]), 'every explicit primitive LossyFrom impl parsed')
    out.append('/-! ### `convert.rs`: `LossyFrom` between primitives (`lossy!` rows and the explicit impls), as (source, destination, body: `id` = `src`, `into` = `src.into()`,')
    out.append('otherwise the expression, behind `cfg(feature = "f16")`?) -/')
    out.append('def primLossyImpls : List (String × String × String × Bool) := [')
    out.append(',\n'.join(f'  ("{s_}", "{d_}", "{h_}", {b(cfg)})' for s_, d_, h_, cfg in pents))
    out.append(']')

def write_if_changed(path, text):
    old = open(path).read() if os.path.exists(path) else None
    if old != text:
        with open(path, 'w') as fh:
            fh.write(text)
    print(os.path.basename(path), 'unchanged' if old == text else 'rewritten')

def main():
    out = ['/- GENERATED by tools/gen_from_source.py from /repo/src — do not edit; rewritten on every check run. -/',
           'namespace Sfx', 'namespace Generated', '']
    gen_arith(out)
    for fn in sorted(globals()):
        if fn.startswith('gen_') and fn != 'gen_arith':
            globals()[fn](out)
    out += ['', 'end Generated', 'end Sfx', '']
    write_if_changed(OUT, '\n'.join(out))

def main_conv():
    """second output file (kept apart from Generated.lean, which almost every Lean module imports): the primitive <-> fixed conversion impl tables"""
    out = ['/- GENERATED by tools/gen_from_source.py from /repo/src/convert.rs — do not edit; rewritten on every check run. -/',
           'namespace Sfx', 'namespace Generated', '']
    conv_prim_tables(out)
    out += ['', 'end Generated', 'end Sfx', '']
    write_if_changed(OUT_CONV, '\n'.join(out))

if __name__ == '__main__':
    ap = argparse.ArgumentParser(description='regenerate Generated.lean / GeneratedConv.lean from the Rust source')
    ap.add_argument('--src', default=SRC, help='directory of the crate sources (default %(default)s)')
    ap.add_argument('--out', default=OUT, help='Generated.lean to write (default %(default)s)')
    ap.add_argument('--out-conv', default=OUT_CONV, help='GeneratedConv.lean to write (default %(default)s)')
    ap.add_argument('--canon', metavar='FILE', help='only print the canonical form of SRC/FILE (what the patterns are run against)')
    args = ap.parse_args()
    SRC, OUT, OUT_CONV = args.src, args.out, args.out_conv
    if args.canon:
        print(read(args.canon)); sys.exit(0)
    main()
    main_conv()
