"""Extension `Bits`: requests for the shift / bit-inspection / integer-remainder family of the arith bin.

    gen(tier, seed, unit, nunits) -> {'arith': [request lines]}

Operand selection is directed at the places where these functions change behaviour:
  * bit patterns: 0, +-1 ulp, MIN, MAX, every single-bit pattern 2^k with its neighbours 2^k - 1, 2^k + 1, ~2^k, -2^k, all ones,
    alternating / nibble / byte patterns, runs of ones, 1.0 and its neighbours, random (edge-biased mixture of sfxgen.rand_val);
    all 256 patterns of the 8-bit families for the one-operand functions;
  * shift / rotate amounts (u32): 0, 1, n-1, n, n+1, 2n-1, 2n, widths of the other families and their neighbours, 2^31, u32::MAX,
    u32::MAX - n + 1 (= 0 mod n), random below n, random multiples of n plus a small offset, random u32;
  * amounts of the other eleven primitive types (`shl_<T>` / `shr_<T>`): the same list cut to the type, and -1, -n, T::MIN, T::MAX;
  * integer divisors: +-1, +-2, 3, MIN, MAX, +-2^(int_nbits-1) (the divisor whose conversion to the fixed-point type overflows
    while MIN % it is 0) and neighbours, the integer part of the dividend and neighbours, random; a few explicit zero divisors.
Every request of a (value, amount) pair is issued for all forms of the operation (plain / checked / wrapping / overflowing and the
rotations), plus one randomly chosen impl variant (`_rv _vr _rr _assign _assign_r`) and one call through the inherent method (`_inh`).
"""
import random
import sfxgen as G

def req(op, s, n, f, *args):
    return f"{op} {s} {n} {f} " + ' '.join(str(a) for a in args)

def unit_layouts(layouts, unit, nunits):
    return [L for i, L in enumerate(layouts) if i % nunits == unit]

def scale(tier, q, t):
    return q if tier == 'quick' else t

VARIANTS = ['_rv', '_vr', '_rr', '_assign', '_assign_r']
SHIFT_FORMS = ['shl', 'shr', 'checked_shl', 'checked_shr', 'wrapping_shl', 'wrapping_shr', 'overflowing_shl', 'overflowing_shr',
               'rotate_left', 'rotate_right']
SHIFT_INH = ['checked_shl_inh', 'checked_shr_inh', 'wrapping_shl_inh', 'wrapping_shr_inh', 'overflowing_shl_inh', 'overflowing_shr_inh',
             'rotate_left_inh', 'rotate_right_inh']
UNARY_ALL = ['count_ones', 'count_zeros', 'leading_zeros', 'trailing_zeros']
UNARY_S = ['signum', 'is_positive', 'is_negative']
UNARY_U = ['is_power_of_two', 'next_power_of_two', 'checked_next_power_of_two']
CONSTS = ['int_nbits', 'frac_nbits', 'min_value', 'max_value', 'int_nbits_inh', 'frac_nbits_inh', 'min_value_inh', 'max_value_inh',
          'int_nbits_const', 'frac_nbits_const']
AMOUNT_TYPES = ['i8', 'i16', 'i32', 'i64', 'i128', 'isize', 'u8', 'u16', 'u32', 'u64', 'u128', 'usize']
U32MAX = (1 << 32) - 1

def patterns(s, n, f):
    """directed bit patterns, as canonical values of the layout"""
    mask = (1 << n) - 1
    c = {0, 1, 2, 3, mask, mask - 1, mask - 2}
    for k in range(n):
        p = 1 << k
        c |= {p, p - 1, p + 1, ~p, -p, ~(p - 1), p | 1, p | (1 << (n - 1)), (p << 1) - 1 - (p >> 1)}
    rep = lambda byte: int(('%02x' % byte) * (n // 8), 16)
    for b in (0x55, 0xaa, 0x33, 0xcc, 0x0f, 0xf0, 0x01, 0x80, 0x7f, 0xfe):
        c.add(rep(b))
    c |= {rep(0xff) >> (n // 2), rep(0xff) << (n // 2), int('00ff' * (n // 16), 16) if n >= 16 else 0x0f}
    one = 1 << f
    c |= {one, one - 1, one + 1, -one, -one + 1, -one - 1, one >> 1, (one >> 1) + 1, 2 * one, 2 * one - 1, 2 * one + 1}
    return sorted({G.wrap(s, n, u & mask) for u in c})

def amounts_u32(rng, n, extra):
    c = {0, 1, 2, n // 2, n - 2, n - 1, n, n + 1, 2 * n - 1, 2 * n, 2 * n + 1, 3 * n, 7, 8, 9, 15, 16, 17, 31, 32, 33, 63, 64, 65, 127, 128, 129,
         255, 256, 257, 1 << 31, (1 << 31) - 1, (1 << 31) + 1, (1 << 31) + n - 1, U32MAX, U32MAX - 1, U32MAX - n + 1, U32MAX - n, U32MAX - n + 2}
    for _ in range(extra):
        r = rng.random()
        if r < 0.4:
            c.add(rng.randrange(n))
        elif r < 0.7:
            c.add(min(U32MAX, rng.randrange(1 << rng.randint(1, 32 - n.bit_length())) * n + rng.choice([0, 1, n - 1, rng.randrange(n)])))
        else:
            c.add(rng.getrandbits(rng.randint(1, 32)))
    return sorted(x for x in c if 0 <= x <= U32MAX)

def amounts_ty(rng, n, ty, extra):
    st, nt = G.INT_TYPES[ty]
    lo, hi = G.rng_range(st, nt)
    c = {0, 1, 2, n // 2, n - 1, n, n + 1, 2 * n - 1, 2 * n, 2 * n + 1, 127, 128, 129, 255, 256, lo, hi, lo + 1, hi - 1, hi - n + 1, hi - n,
         -1, -2, -n, -n + 1, -n - 1, -2 * n, lo + n, lo + n - 1, (hi >> 1) + 1, 1 << 31, (1 << 31) - 1, 1 << 32, (1 << 32) + 1, (1 << 32) + n}
    for _ in range(extra):
        r = rng.random()
        if r < 0.4:
            c.add(rng.randrange(n))
        elif r < 0.7:
            c.add(rng.randint(lo // n, hi // n) * n + rng.choice([0, 1, n - 1]))
        else:
            c.add(rng.randint(lo, hi))
    return sorted(x for x in c if lo <= x <= hi)

def divisors(rng, s, n, f, a, extra):
    lo, hi = G.rng_range(s, n)
    ib = n - f
    c = {1, 2, 3, 10, hi, hi - 1, (hi >> 1) + 1}
    if s:
        c |= {-1, -2, -3, lo, lo + 1}
    if ib > 0:
        t = 1 << (ib - 1)          # `rhs == 1 << (INT_NBITS - 1)`: conversion of rhs overflows for signed types, MIN % rhs = 0
        c |= {t, t - 1, t + 1, -t, -t + 1, -t - 1, 2 * t, 2 * t - 1, -2 * t, (t >> 1)}
    q = a >> f                     # integer part of the dividend: |rhs| around |self|
    c |= {q, q + 1, q - 1, -q, -q + 1, -q - 1}
    E = G.edges(s, n, 0)
    for _ in range(extra):
        c.add(G.rand_val(rng, s, n, 0, E))
    return sorted(x for x in c if lo <= x <= hi and x != 0)

def gen(tier, seed, unit, nunits):
    out = []
    # ---------------------------------------------------------------- typed layouts: everything with a u32 amount or none
    for (s, n, f) in unit_layouts(G.typed_layouts(tier), unit, nunits):
        rng = random.Random(f'{seed}/extbits/{s}/{n}/{f}')
        lo, hi = G.rng_range(s, n)
        E = G.edges(s, n, f)
        P = patterns(s, n, f)
        # constants
        for op in CONSTS:
            out.append(req(op, s, n, f))
        # ---- one-operand functions
        if n == 8:
            vals = list(range(lo, hi + 1))
        else:
            vals = sorted(set(P) | set(E) | {G.rand_val(rng, s, n, f, E) for _ in range(scale(tier, 60, 3000))})
        un = UNARY_ALL + (UNARY_S if s else UNARY_U)
        for a in vals:
            for op in un:
                out.append(req(op, s, n, f, a))
            out.append(req(rng.choice(un) + '_inh', s, n, f, a))
        # ---- shifts and rotations
        crit = [x for x in (0, 1, -1, lo, hi, lo + 1, 1 << f if (1 << f) <= hi else hi) if lo <= x <= hi]
        xs = sorted(set(crit) | set(rng.sample(P, min(len(P), scale(tier, 6, 30)))))
        A = amounts_u32(rng, n, scale(tier, 6, 60))
        pairs = [(a, k) for a in xs for k in A]
        for _ in range(scale(tier, 120, 3000)):
            a = rng.choice(P) if rng.random() < 0.5 else G.rand_val(rng, s, n, f, E)
            pairs.append((a, rng.choice(A)))
        if n == 8 and tier != 'quick':
            pairs += [(a, k) for a in range(lo, hi + 1) for k in list(range(0, 18)) + [U32MAX, 1 << 31]]
        for a, k in pairs:
            for op in SHIFT_FORMS:
                out.append(req(op, s, n, f, a, k))
            out.append(req(rng.choice(['shl', 'shr']) + rng.choice(VARIANTS), s, n, f, a, k))
            out.append(req(rng.choice(SHIFT_INH), s, n, f, a, k))
        # ---- deprecated remainder forms, with the covered `%` / `checked_rem_int` on the same operands
        dv = sorted(set(crit) | set(rng.sample(P, min(len(P), scale(tier, 10, 40)))) |
                    {G.rand_val(rng, s, n, f, E) for _ in range(scale(tier, 10, 150))})
        for a in dv:
            for k in divisors(rng, s, n, f, a, scale(tier, 3, 12)):
                for op in ('wrapping_rem_int', 'overflowing_rem_int', 'wrapping_rem_int_inh', 'overflowing_rem_int_inh', 'rem_int', 'checked_rem_int'):
                    out.append(req(op, s, n, f, a, k))
                out.append(req('rem_int' + rng.choice(VARIANTS), s, n, f, a, k))
            # `F % F` impl variants (the by-value `%` is C07's): divisor = the integer divisor on the grid, or another pattern
            for b in sorted({G.clip(s, n, rng.choice([1, 2, 3, -1 if s else 1]) << f), rng.choice(P), rng.choice(dv)}):
                out.append(req('rem' + rng.choice(VARIANTS), s, n, f, a, b))
        for a in crit[:4]:
            for op in ('wrapping_rem_int', 'overflowing_rem_int', 'wrapping_rem_int_inh', 'overflowing_rem_int_inh', 'rem_int' + rng.choice(VARIANTS)):
                out.append(req(op, s, n, f, a, 0))
    # ---------------------------------------------------------------- small frac table: amounts of every primitive type
    for (s, n, f) in unit_layouts(G.small_layouts(), unit, nunits):
        rng = random.Random(f'{seed}/extbits/ty/{s}/{n}/{f}')
        lo, hi = G.rng_range(s, n)
        P = patterns(s, n, f)
        for ty in AMOUNT_TYPES:
            xs = [rng.choice([lo, hi, -1 if s else hi, 1]), rng.choice(P), rng.choice(P)]
            if tier != 'quick':
                xs += rng.sample(P, min(len(P), 20))
            for k in amounts_ty(rng, n, ty, scale(tier, 4, 100)):
                for a in xs:
                    v = rng.choice([''] + VARIANTS)
                    out.append(req(f'shl_{ty}{v}', s, n, f, a, k))
                    v = rng.choice([''] + VARIANTS)
                    out.append(req(f'shr_{ty}{v}', s, n, f, a, k))
    return {'arith': out}

if __name__ == '__main__':
    import sys, collections
    tier = sys.argv[1] if len(sys.argv) > 1 else 'quick'
    cnt = collections.Counter()
    for u in range(4):
        for l in gen(tier, 1, u, 4)['arith']:
            cnt[l.split(' ', 1)[0]] += 1
    for op, c in sorted(cnt.items()):
        print(f'{op:34s} {c}')
    print('total', sum(cnt.values()))
