#!/usr/bin/env python3
"""seed_meta.py <seed id> <broken property> <what the change needs to manifest>
writes /verif/seeded/<id>/meta.json from the check_output.txt that tools/seed_eval.sh left there"""
import sys, re, json, os, subprocess
HEAD = subprocess.run(['git','-C',os.environ.get('SFX_REPO','/repo'),'rev-parse','--short','HEAD'],capture_output=True,text=True).stdout.strip()

sid, prop, needs = sys.argv[1], sys.argv[2], sys.argv[3]
d = f'/verif/seeded/{sid}'
txt = open(f'{d}/check_output.txt').read()
checks = {}
cur = None
for line in txt.splitlines():
    m = re.match(r'--- (C\d+) rc=(\d+)', line)
    if m:
        cur = m.group(1)
        checks[cur] = dict(exit_code=int(m.group(2)), violation_reported=False, with_failing_input=False, example_replay_lines=[])
        continue
    if cur is None:
        continue
    c = checks[cur]
    if line.startswith('VIOLATION'):
        c['violation_reported'] = True
        c['with_failing_input'] = 'no-failing-input-found' not in line
    m = re.search(r'diff=(\d+) spec=(\d+)', line)
    if m:
        c['model_vs_impl_disagreements'] = int(m.group(1)); c['spec_failures'] = int(m.group(2))
    if line.startswith('# [') or line.startswith('# broken') or (line and not line.startswith('#') and not line.startswith('VIOLATION')
                                                                  and not line.startswith('KNOWN') and not re.match(r'C\d+ quick', line)):
        if len(c['example_replay_lines']) < 4:
            c['example_replay_lines'].append(line[:260])
meta = dict(
    id=sid, breaks_property=prop,
    produced_by='fresh sub-agent given only the property text and a scratch worktree of /repo (HEAD ' + HEAD + ')',
    confirm_output=(open(f'{d}/confirm_output.txt').read().splitlines() if os.path.exists(f'{d}/confirm_output.txt') else None),
    needs_to_manifest=needs,
    confirmed_by_me=['66 unit tests pass with the change', 'demo fails with the change', 'demo passes without the change'],
    ran=[(f'tools/seed_eval2.sh {sid} <worktree> <subdir> "{" ".join(checks)}"  (confirms tests/demo in the worktree, then runs ./check.sh <C> quick in a private sandbox copy of /verif + /repo with patch.diff applied; /repo is never touched)'
          if os.path.exists(f'{d}/confirm_output.txt') else
          f'tools/seed_eval.sh {sid} <worktree> <subdir> "{" ".join(checks)}"  (applies patch.diff to /repo, runs ./check.sh <C> quick, restores /repo and the clean-tree evidence)')],
    checks=checks,
    caught=any(c['exit_code'] == 1 and c['violation_reported'] for c in checks.values()),
    caught_with_failing_input=any(c['with_failing_input'] for c in checks.values()),
)
json.dump(meta, open(f'{d}/meta.json', 'w'), indent=1)
print(sid, 'caught' if meta['caught'] else 'MISSED', 'failing-input' if meta['caught_with_failing_input'] else 'no-failing-input')
