#!/usr/bin/env python3
"""Search for a concrete failing input when the From/LossyFrom table theorem (SfxProps.C04.from_table_sound) breaks:
find the unsound rows of Generated.fromImpls, pick fractional-bit counts that satisfy the row's where-clauses but not the true
admissibility, generate a probe program that calls exactly that (newly admitted) conversion, run it and print request lines with the
implementation's answers (`cvt_from|cvt_lossy s n f x s2 n2 f2 => bits`) for the driver to judge."""
import re, subprocess, sys, os
VERIF = os.environ.get('SFX_VERIF') or os.path.dirname(os.path.dirname(os.path.realpath(__file__)))
GEN = VERIF + '/lean/SfxModel/Generated.lean'
PROBE = VERIF + '/harness/probe'

def rows():
    s = open(GEN).read()
    m = re.search(r'def fromImpls[^\n]*:= \[(.*?)\n\]', s, re.S)
    out = []
    for t in re.findall(r'\("(\w+)", (true|false), (\d+), (true|false), (\d+), (true|false), (\d+)\)', m.group(1)):
        out.append((t[0], t[1] == 'true', int(t[2]), t[3] == 'true', int(t[4]), t[5] == 'true', int(t[6])))
    return out

def truly(ss, sn, fs, ds, dn, fd):
    if ss == ds:
        return sn - fs <= dn - fd
    return (not ss) and ds and sn - fs + 1 <= dn - fd

GENC = VERIF + '/lean/SfxModel/GeneratedConv.lean'
PRIM = {'i8': (True, 8), 'i16': (True, 16), 'i32': (True, 32), 'i64': (True, 64), 'i128': (True, 128), 'isize': (True, 16),
        'u8': (False, 8), 'u16': (False, 16), 'u32': (False, 32), 'u64': (False, 64), 'u128': (False, 128), 'usize': (False, 16), 'bool': (False, 1)}

def table(name):
    s = open(GENC).read()
    m = re.search(r'def ' + name + r'[^\n]*:= \[(.*?)\n\]', s, re.S)
    rows = []
    for line in m.group(1).splitlines():
        line = line.strip().rstrip(',')
        if not line.startswith('('):
            continue
        parts = [x.strip() for x in line[1:-1].split(',')]
        rows.append([x[1:-1] if x.startswith('"') else (x == 'true') if x in ('true', 'false') else int(x) for x in parts])
    return rows

def fx(s, n, f):
    return f"substrate_fixed::Fixed{'I' if s else 'U'}{n}<substrate_fixed::types::extra::U{f}>"

def prim_cases():
    """probe statements for the rows of GeneratedConv.lean that the row-soundness predicates of SfxProofs/ExtFrom.lean reject"""
    out = []
    # int / bool -> fixed: generic rows admit FracDst with srcBits <= C - FracDst
    for (tr, nm, ss, sn, ds, dn, g, c) in table('fromIntImpls'):
        if nm in ('isize', 'usize'):
            continue
        if not g:
            bad = not (ss == ds and sn == dn); fds = [0]
        else:
            ok = (c == dn) if ss == ds else ((not ss) and ds and c + 1 == dn)
            bad = not ok
            fds = [fd for fd in range(min(c, dn) + 1) if sn <= c - fd and not ((sn <= dn - fd) if ss == ds else ((not ss) and ds and sn + 1 <= dn - fd))]
        if not bad or not fds:
            continue
        fd = fds[-1]
        lo, hi = (-(1 << (sn - 1)), (1 << (sn - 1)) - 1) if ss else (0, (1 << sn) - 1)
        for v in sorted({lo, hi, hi - 1, lo + 1, (1 << (sn - 1)) if not ss else -1, 1}):
            if not (lo <= v <= hi):
                continue
            lit = ('true' if v else 'false') if nm == 'bool' else f'({v}i128) as {nm}'
            call = f'<{fx(ds, dn, fd)} as From<{nm}>>::from({lit})' if tr == 'From' else f'<{fx(ds, dn, fd)} as LossyFrom<{nm}>>::lossy_from({lit})'
            op = 'icvt_from' if tr == 'From' else 'icvt_from_lossy'
            out.append(f'    {{ let y = {call}; println!("{op} {int(ds)} {dn} {fd} {nm} {v} => {{}}", y.to_bits()); }}')
    # fixed -> int: lossy rows admit FracSrc with srcBits - FracSrc <= C; From rows are FracSrc = 0
    for (tr, ss, sn, dnm, ds, g, c) in table('toIntImpls'):
        if dnm not in PRIM:
            continue
        ds2, w = PRIM[dnm]
        if g:
            ok = tr == 'LossyFrom' and ((c <= w) if ss == ds else ((not ss) and ds and c + 1 <= w))
            fs_list = [fs for fs in range(sn + 1) if sn - fs <= c]
        else:
            ok = tr == 'From' and ((sn <= w) if ss == ds else ((not ss) and ds and sn + 1 <= w))
            fs_list = [0]
        if ok and ds2 == ds or not fs_list:
            continue
        fs = fs_list[0]
        lo, hi = (-(1 << (sn - 1)), (1 << (sn - 1)) - 1) if ss else (0, (1 << sn) - 1)
        for v in sorted({lo, hi, hi - 1, lo + 1, 1}):
            lit = f'({v}i128) as {"i" if ss else "u"}{sn}'
            call = f'<{dnm} as From<{fx(ss, sn, fs)}>>::from(x)' if tr == 'From' else f'<{dnm} as LossyFrom<{fx(ss, sn, fs)}>>::lossy_from(x)'
            op = 'icvt_into' if tr == 'From' else 'icvt_lossy'
            out.append(f'    {{ let x = <{fx(ss, sn, fs)}>::from_bits({lit}); let y = {call}; println!("{op} {int(ss)} {sn} {fs} {v} {dnm} => {{}}", y); }}')
    # fixed -> float `From` rows: the source must fit the significand
    for (tr, ss, sn, fl, f16) in table('toFloatImpls'):
        if f16 or tr != 'From' or fl not in ('f32', 'f64'):
            continue
        prec = 24 if fl == 'f32' else 53
        if sn <= prec:
            continue
        lo, hi = (-(1 << (sn - 1)), (1 << (sn - 1)) - 1) if ss else (0, (1 << sn) - 1)
        for fs in (0, sn):
            for v in sorted({hi, hi - 1, lo + 1, (1 << (prec + 1)) + 1, (1 << (sn - 2)) + 1}):
                if not (lo <= v <= hi):
                    continue
                lit = f'({v}i128) as {"i" if ss else "u"}{sn}'
                out.append(f'    {{ let x = <{fx(ss, sn, fs)}>::from_bits({lit}); let y = <{fl} as From<{fx(ss, sn, fs)}>>::from(x); '
                           f'println!("fcvt_from {int(ss)} {sn} {fs} {v} {fl} => {{}}", y.to_bits()); }}')
    return out

def main():
    cases = []
    for (tr, ss, sn, ds, dn, leF, ib) in rows():
        for fs in range(sn + 1):
            for fd in range(min(ib, dn) + 1):
                if leF and fs > fd:
                    continue
                if sn - fs > ib - fd:
                    continue
                ok = truly(ss, sn, fs, ds, dn, fd) and (tr != 'From' or fs <= fd)
                if not ok:
                    cases.append((tr, ss, sn, fs, ds, dn, fd))
                    break
            else:
                continue
            break
    try:
        prim = prim_cases()
    except Exception as e:   # a table the translator could not write: nothing to probe here
        sys.stderr.write('from_probe: primitive tables not readable: %r\n' % (e,)); prim = []
    if not cases and not prim:
        return 0
    ty = lambda s, n, f: f"substrate_fixed::Fixed{'I' if s else 'U'}{n}<substrate_fixed::types::extra::U{f}>"
    body = ['#[allow(unused_imports)]', 'use substrate_fixed::traits::LossyFrom;', 'fn main() {']
    for (tr, ss, sn, fs, ds, dn, fd) in cases[:40]:
        lo, hi = (-(1 << (sn - 1)), (1 << (sn - 1)) - 1) if ss else (0, (1 << sn) - 1)
        for v in sorted({lo, hi, hi - 1, lo + 1, 1 << (sn - 1) if not ss else -1, 1}):
            if not (lo <= v <= hi):
                continue
            lit = f'({v}i128) as {"i" if ss else "u"}{sn}' if ss else f'({v}u128) as u{sn}'
            call = f'<{ty(ds, dn, fd)} as From<{ty(ss, sn, fs)}>>::from(x)' if tr == 'From' else f'<{ty(ds, dn, fd)} as LossyFrom<{ty(ss, sn, fs)}>>::lossy_from(x)'
            op = 'cvt_from' if tr == 'From' else 'cvt_lossy'
            body.append(f'    {{ let x = <{ty(ss, sn, fs)}>::from_bits({lit}); let y = {call}; '
                        f'println!("{op} {int(ss)} {sn} {fs} {v} {int(ds)} {dn} {fd} => {{}}", y.to_bits()); }}')
    body += prim[:200]
    body.append('}')
    open(PROBE + '/src/main.rs', 'w').write('\n'.join(body) + '\n')
    e = dict(os.environ); e['CARGO_NET_OFFLINE'] = 'true'
    p = subprocess.run(['cargo', 'run', '--offline', '--release', '-q'], cwd=PROBE, env=e, stdout=subprocess.PIPE, stderr=subprocess.PIPE, text=True)
    open(PROBE + '/src/main.rs', 'w').write('// regenerated by tools/from_probe.py when the From/LossyFrom table theorem breaks\nfn main() {}\n')
    if p.returncode != 0:
        sys.stderr.write(p.stderr[-1500:])
        return 2
    sys.stdout.write(p.stdout)
    return 0

if __name__ == '__main__':
    sys.exit(main())
