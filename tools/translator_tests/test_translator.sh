#!/bin/bash
# Tests of the translator gen_from_source.py (NEW) against the version it replaces (OLD = gen_from_source_old.py, a copy of
# /verif/tools/gen_from_source.py before the normalisation layer) and against the reference tables Generated.lean / GeneratedConv.lean.
#
#   1. unchanged source (/repo/src, read only)       NEW must reproduce the two reference files byte for byte
#   2. harmless reformattings of a copy of the crate NEW must reproduce the reference files byte for byte (OLD is shown for comparison)
#   3. real changes (seeds/*.diff + invented ones)    NEW must do what OLD does: the same changed tables, or both stop with a pattern error;
#                                                     and NEW must give the same answer after the changed crate is reflowed (rustfmt max_width=60)
#
# usage: test_translator.sh [--keep]     --keep: leave the copies under copies/ (default: removed at the end, they are rebuilt on every run)
set -u
HERE=$(cd "$(dirname "$0")" && pwd)
NEW=$HERE/gen_from_source.py
OLD=$HERE/gen_from_source_old.py
REF=/verif/lean/SfxModel       # the tables of the current tree (rewritten by every check run)
REPO=/repo
C=$(mktemp -d /tmp/translator_test.XXXXXX)   # scratch copies of the crate, outside /repo and /verif; removed at the end
KEEP=0; [ "${1:-}" = "--keep" ] && KEEP=1
FAILS=0

rm -rf "$C"; mkdir -p "$C"

fresh() {   # fresh NAME: pristine copy of the crate (no target/, no .git) in $C/NAME
    rm -rf "$C/$1"; mkdir -p "$C/$1"
    (cd $REPO && tar cf - --exclude=./target --exclude=./.git .) | tar xf - -C "$C/$1"
}
fmt() {     # fmt NAME CONFIG: rustfmt the whole crate of the copy (rustfmt follows the `mod` declarations from lib.rs)
    (cd "$C/$1" && rustfmt --edition 2018 --config "$2" src/lib.rs) >"$C/$1.fmtlog" 2>&1
}
run_new() { # run_new SRCDIR OUTDIR
    mkdir -p "$2"; python3 "$NEW" --src "$1" --out "$2/Generated.lean" --out-conv "$2/GeneratedConv.lean" >"$2/log" 2>&1; echo $? >"$2/rc"
}
run_old() { # the old script has no command line: load it as a module and set its constants
    mkdir -p "$2"
    python3 - "$OLD" "$1" "$2" >"$2/log" 2>&1 <<'EOF'
import importlib.util, sys
spec = importlib.util.spec_from_file_location('old_translator', sys.argv[1]); m = importlib.util.module_from_spec(spec); spec.loader.exec_module(m)
m.SRC = sys.argv[2]; m.OUT = sys.argv[3] + '/Generated.lean'; m.OUT_CONV = sys.argv[3] + '/GeneratedConv.lean'
m.main(); m.main_conv()
EOF
    echo $? >"$2/rc"
}
outcome() { # outcome OUTDIR: `ref` (both tables = reference), `changed:<hash>` (tables written, different), `FAIL: <message>`
    if [ "$(cat "$1/rc")" != 0 ]; then
        echo "FAIL: $(grep -v '^Generated' "$1/log" | tail -1 | cut -c1-110)"
    elif cmp -s "$1/Generated.lean" "$REF/Generated.lean" && cmp -s "$1/GeneratedConv.lean" "$REF/GeneratedConv.lean"; then
        echo ref
    else
        echo "changed:$(cat "$1/Generated.lean" "$1/GeneratedConv.lean" | md5sum | cut -c1-8)"
    fi
}
verdict() { if [ "$1" = 1 ]; then V=PASS; else V=FAIL; FAILS=$((FAILS + 1)); fi; }   # sets V (not to be called in a subshell: it counts)

# ---------------------------------------------------------------- 1. unchanged source
echo "== 1. unchanged source"
printf '%-14s %-10s %-10s %s\n' source OLD NEW verdict
run_new $REPO/src "$C/out/repo/new"; run_old $REPO/src "$C/out/repo/old"
n=$(outcome "$C/out/repo/new"); o=$(outcome "$C/out/repo/old")
verdict $([ "$n" = ref ] && echo 1 || echo 0); printf '%-14s %-10s %-10s %s\n' /repo/src "$o" "$n" $V
# no arguments = the constants SRC / OUT / OUT_CONV, exactly as /verif calls it (checked without running it: it would write into /verif)
d=$(python3 - "$NEW" <<'EOF'
import importlib.util, sys
spec = importlib.util.spec_from_file_location('new_translator', sys.argv[1]); m = importlib.util.module_from_spec(spec); spec.loader.exec_module(m)
print(m.SRC, m.OUT, m.OUT_CONV)
EOF
)
verdict $([ "$d" = "/repo/src /verif/lean/SfxModel/Generated.lean /verif/lean/SfxModel/GeneratedConv.lean" ] && echo 1 || echo 0)
printf '%-36s %s\n' "defaults without arguments" $V

# ---------------------------------------------------------------- 2. harmless reformattings
echo; echo "== 2. harmless reformattings (NEW must give the reference tables)"
printf '%-14s %7s  %-58s %-8s %s\n' variant 'lines+-' OLD NEW verdict
variant() { # variant NAME: run both scripts on $C/NAME, print a row
    local v=$1 ch o n
    ch=$(diff -r $REPO/src "$C/$v/src" | grep -c '^[<>]')
    run_new "$C/$v/src" "$C/out/$v/new"; run_old "$C/$v/src" "$C/out/$v/old"
    o=$(outcome "$C/out/$v/old"); n=$(outcome "$C/out/$v/new")
    verdict $([ "$n" = ref ] && echo 1 || echo 0)
    printf '%-14s %7s  %-58s %-8s %s\n' "$v" "$ch" "${o:0:58}" "${n:0:8}" $V
}
for w in 50 60 70 80 100 120 200; do fresh w$w; fmt w$w max_width=$w; variant w$w; done
fresh small_max;   fmt small_max use_small_heuristics=Max;  variant small_max
fresh small_off;   fmt small_off use_small_heuristics=Off;  variant small_off
fresh fn_vertical
if fmt fn_vertical fn_params_layout=Vertical; then variant fn_vertical; else echo "fn_vertical    (option not accepted by this rustfmt: $(head -1 "$C/fn_vertical.fmtlog"))"; fi
fresh hard_tabs;   fmt hard_tabs hard_tabs=true;            variant hard_tabs
fresh tabs_w50;    fmt tabs_w50 hard_tabs=true,max_width=50,use_small_heuristics=Max,fn_params_layout=Vertical; variant tabs_w50
fresh crlf;        find "$C/crlf/src" -name '*.rs' -exec sed -i 's/$/\r/' {} +;                                  variant crlf
fresh crlf_fmt;    fmt crlf_fmt newline_style=Windows,max_width=70;                                               variant crlf_fmt
fresh nocomments;  find "$C/nocomments/src" -name '*.rs' -exec sed -i '/^[ \t]*\/\//d' {} +;                     variant nocomments
fresh blanks;      find "$C/blanks/src" -name '*.rs' -exec sed -i 's/$/  \t\n/' {} +;                            variant blanks
# the five files the translator reads, without comment lines, with every line break inside an item replaced by a space and tab-indented
fresh joined
for f in arith lib transcendental consts convert; do
    python3 - "$C/joined/src/$f.rs" <<'EOF'
import re, sys
lines = [l for l in open(sys.argv[1]).read().split('\n') if not l.lstrip().startswith('//')]
out = ''; in_str = False
for l in lines:                       # join a line to the next one unless a string literal is open or the line has a `//`
    if l.count('"') - l.count('\\"') & 1: in_str = not in_str
    out += l + ('\n' if in_str or '//' in l or not l.strip() else ' \t ')
open(sys.argv[1], 'w').write(out)
EOF
    # sanity of the variant itself: only white space differs from the copy without comment lines
    cmp -s <(tr -d '[:space:]' <"$C/joined/src/$f.rs") <(tr -d '[:space:]' <"$C/nocomments/src/$f.rs") || echo "joined/$f.rs: more than white space changed"
done
variant joined

# ---------------------------------------------------------------- 3. real changes
echo; echo "== 3. real changes: OLD and NEW must agree (same tables or both fail); NEW must not change its answer when the changed crate is reflowed (max_width=60)"
printf '%-30s %-9s %-70s %s\n' change agree 'NEW (= OLD unless shown)' 'verdict'
change() { # change NAME [oldquirk]: $C/NAME holds the changed crate; oldquirk: OLD's table is known to be wrong here, both must notice the change
    local v=$1 quirk=${2:-} o n r agree stable ok
    [ -z "$(diff -rq $REPO/src "$C/$v/src")" ] && { verdict 0; printf '%-30s %s\n' "$v" "change did not apply: $V"; return; }
    run_new "$C/$v/src" "$C/out/$v/new"; run_old "$C/$v/src" "$C/out/$v/old"
    o=$(outcome "$C/out/$v/old"); n=$(outcome "$C/out/$v/new")
    cp -r "$C/$v" "$C/$v.fmt"; fmt $v.fmt max_width=60; run_new "$C/$v.fmt/src" "$C/out/$v/newfmt"; r=$(outcome "$C/out/$v/newfmt")
    agree=no
    if [ "${o:0:4}" = FAIL ] && [ "${n:0:4}" = FAIL ]; then agree=bothfail; elif [ "$o" = "$n" ]; then agree=same
    elif [ -n "$quirk" ] && [ "${o:0:7}" = changed ] && [ "${n:0:7}" = changed ]; then agree=oldquirk; fi
    stable=0; [ "$r" = "$n" ] && stable=1
    ok=0; [ $agree != no ] && [ $stable = 1 ] && ok=1
    verdict $ok
    printf '%-30s %-9s %-70s %s\n' "$v" "$agree" "${n:0:70}" $V
    if [ "$o" != "$n" ]; then printf '%-30s %-9s %-70s\n' "" "  OLD:" "${o:0:70}"; fi
    [ $stable = 1 ] || printf '%-30s %-9s %-70s\n' "" "  reflow:" "${r:0:70}"
}
for d in "$HERE"/seeds/*.diff; do
    v=$(basename "$d" .diff); fresh "$v"; (cd "$C/$v" && patch -p1 -s <"$d") || echo "patch failed: $d"; change "$v"
done
mut() { # mut NAME FILE PYTHON-EXPRESSION-ON-s [oldquirk]: the invented mutations, one small edit each in a region the translator reads
    fresh "$1"
    python3 - "$C/$1/src/$2" "$3" <<'EOF'
import re, sys
s = open(sys.argv[1]).read(); s = eval(sys.argv[2]); open(sys.argv[1], 'w').write(s)
EOF
    change "$1" "${4:-}"
}
mut m01-arctan-digit      transcendental.rs "s.replace('0x76B19C1586ED3C000000000000000000', '0x76B19C1586ED3D000000000000000000')"
mut m02-arctan-swap-rows  transcendental.rs "re.sub(r'(    U0F128::from_bits\(0x3EB6.*\n)(    U0F128::from_bits\(0x1FD5.*\n)', r'\2\1', s)"
mut m03-convert-U127-U128 convert.rs        "s.replace('convert! { (FixedU8, FixedI8, U8, LeEqU8) -> (FixedU128, FixedI128, U128, U127, LeEqU128) }', 'convert! { (FixedU8, FixedI8, U8, LeEqU8) -> (FixedU128, FixedI128, U128, U128, LeEqU128) }')"
mut m04-remove-derive     lib.rs            "s.replace('#[derive(Encode, Decode, scale_info::TypeInfo, MaxEncodedLen)]', '#[derive(Encode, scale_info::TypeInfo, MaxEncodedLen)]')"
mut m05-codec-compact     lib.rs            "s.replace('                bits: \$Inner,\n                phantom', '                #[codec(compact)]\n                bits: \$Inner,\n                phantom')"
mut m06-loop-bound        transcendental.rs "s.replace('for i in 2..D::frac_nbits()', 'for i in 1..D::frac_nbits()')"
mut m07-const-shift       transcendental.rs "s.replace('>> 102', '>> 101')"
mut m08-cordic-steps      transcendental.rs "s.replace('if i >= 24 {', 'if i >= 25 {')"
mut m09-where-M1-dropped  convert.rs        "s.replace('IsLessOrEqual<Diff<\$DstBitsM1, FracDst>, Output = True>', 'IsLessOrEqual<Diff<\$DstBits, FracDst>, Output = True>', 1)"
mut m10-fallback-to-widen arith.rs          "s.replace('mul_div_fallback! { i128, u128, Signed }', 'mul_div_widen! { i128, u128, Signed }')"
mut m11-lossy-row-added   convert.rs        "s.replace('lossy! { i64: Into i128 }', 'lossy! { i64: Into i128, u128 }')"
mut m12-wider-dropped     convert.rs        "s.replace('fixed_to_int! { (FixedU8, FixedI8) -> wider (usize, isize) }', 'fixed_to_int! { (FixedU8, FixedI8) -> (usize, isize) }')"
mut m13-explicit-body     convert.rs        "s.replace('        src as f32\n', '        src as f64 as f32\n')"
mut m14-cfg-removed       convert.rs        "s.replace('#[cfg(feature = \"f16\")]\nfixed_to_float! { FixedI8(LeEqU8) -> f16 }', 'fixed_to_float! { FixedI8(LeEqU8) -> f16 }')"
mut m15-cordic-gain       transcendental.rs "s.replace('0x9B74EDA8A01E20000000000000000000', '0x9B74EDA8A01E30000000000000000000')"
mut m16-consts-pi         consts.rs         "s.replace('pub const PI: U2F126 = U2F126::from_bits(0xC90F_DAA2_2168_C234', 'pub const PI: U2F126 = U2F126::from_bits(0xC90F_DAA2_2168_C235')"
mut m17-new-where-clause  convert.rs        "s.replace('            FracSrc: IsLessOrEqual<FracDst, Output = True>,\n', '            FracSrc: IsLessOrEqual<FracDst, Output = True>,\n            FracSrc: Unsigned,\n', 1)"
mut m18-row-deleted       convert.rs        "s.replace('int_to_fixed! { (u32, i32, U32, LeEqU32) -> (FixedU64, FixedI64, U64, U63, LeEqU64) }\n', '')"
mut m19-manual-codec-impl lib.rs            "s.replace('        impl<Frac> Clone for \$Fixed<Frac> {', '        impl<Frac> MaxEncodedLen for \$Fixed<Frac> {\n            fn max_encoded_len() -> usize {\n                1\n            }\n        }\n\n        impl<Frac> Clone for \$Fixed<Frac> {', 1)"
mut m20-while-condition   transcendental.rs "s.replace('while x >= TWO {', 'while x > TWO {')"
mut m21-lossless-moved    convert.rs        "s.replace('int_to_float_lossy_lossless! { i32 -> f32; f64 }', 'int_to_float_lossy_lossless! { i32 -> ; f32 f64 }')"
mut m22-loop-added        transcendental.rs "s.replace('    while angle > PI {', '    for _k in 0..(4 >> 1) {\n        angle -= T::lossy_from(ZERO);\n    }\n    while angle > PI {')"
# OLD cuts a field type at its first comma ("(\$Inner"); NEW gives "(\$Inner,)" here and "(\$Inner)" for m24: the comma of a one-element tuple is kept
mut m23-one-tuple-field   lib.rs            "s.replace('                bits: \$Inner,\n', '                bits: (\$Inner,),\n')" oldquirk
mut m24-paren-field       lib.rs            "s.replace('                bits: \$Inner,\n', '                bits: (\$Inner),\n')"
mut m25-const-type        transcendental.rs "s.replace('pub const E: I9F23 = I9F23::from_bits((consts::E.to_bits() >> 103) as i32);', 'pub const E: I9F23 = I9F23::from_bits((consts::E.to_bits() >> 103) as u32 as i32);')"
mut m26-row-comma-added   convert.rs        "s.replace('lossy! { i64: Into i128 }', 'lossy! { i64: Into i128, }')"
mut m27-attribute-on-loop transcendental.rs "s.replace('    while x >= TWO {', '    #[allow(unused)]\n    while x >= TWO {')"
mut m28-row-commented-out convert.rs        "s.replace('lossy! { i64 }', '// lossy! { i64 }')"
mut m29-row-block-comment convert.rs        "s.replace('lossy! { i64 }', '/* lossy! { i64 } */')"
mut m30-other-feature     convert.rs        "s.replace('#[cfg(feature = \"f16\")]\nfixed_to_float! { FixedI8(LeEqU8) -> f16 }', '#[cfg(feature = \"f32\")]\nfixed_to_float! { FixedI8(LeEqU8) -> f16 }')"
mut m31-arctan-underscore transcendental.rs "s.replace('0x76B19C1586ED3C000000000000000000', '0x76B19C1586ED3C00_0000000000000000')"
mut m32-zero-const        transcendental.rs "s.replace('from_bits(0i32 << 23)', 'from_bits(0i32 << 22)')"
mut m33-struct-attr-added lib.rs            "s.replace('            #[repr(transparent)]\n            #[derive(Encode', '            #[repr(transparent)]\n            #[cfg_attr(feature = \"std\", derive(Hash))]\n            #[derive(Encode')"
mut m34-impl-row-swapped  convert.rs        "s.replace('impl<FracDst: \$DstLeEqU> From<\$SrcU> for \$DstI<FracDst>', 'impl<FracDst: \$DstLeEqU> From<\$SrcI> for \$DstI<FracDst>', 1)"
mut m35-labelled-loop     transcendental.rs "s.replace('    while x >= TWO {', \"    'outer: while x >= TWO {\")" oldquirk

echo
[ $KEEP = 1 ] || rm -rf "$C"
if [ $FAILS = 0 ]; then echo "ALL PASS"; else echo "$FAILS FAILED"; exit 1; fi
