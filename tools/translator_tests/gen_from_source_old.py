#!/usr/bin/env python3
"""TRANSLATOR: regenerates lean/SfxModel/Generated.lean from /repo/src on every run.

Only *data* is translated (tables, constants, trip-count expressions, macro instantiation rows); code is
modelled by hand and tied by the correspondence check.  Any pattern that no longer matches raises, which the
check treats as the broken obligation `translator:Generated.lean-is-current`.
"""
import re, sys, os
SRC = '/repo/src'
OUT = '/verif/lean/SfxModel/Generated.lean'

def read(fn):
    return open(os.path.join(SRC, fn)).read()

def need(m, what):
    if not m:
        raise SystemExit(f'translator: pattern not found: {what}')
    return m

def gen_arith(out):
    s = read('arith.rs')
    rows = re.findall(r'^mul_div_(widen|fallback)! \{ (\w+), (\w+), (Signed|Unsigned) \}', s, re.M)
    need(len(rows) == 10, 'ten mul_div_widen!/mul_div_fallback! rows in arith.rs')
    out.append('/-- `(primitive, kind, double-or-unsigned type, signedness)` rows of `mul_div_widen!` / `mul_div_fallback!` -/')
    out.append('def mulDivRows : List (String × String × String × Bool) := [')
    out.append(',\n'.join(f'  ("{p}", "{k}", "{d}", {"true" if sg == "Signed" else "false"})' for k, p, d, sg in rows))
    out.append(']')
    fb = sorted({int(p[1:]) for k, p, d, sg in rows if k == 'fallback'})
    out.append('/-- widths whose primitives use the four-limb fallback -/')
    out.append(f'def fallbackWidths : List Nat := {fb}')

def lean_str_list(xs):
    return '[' + ', '.join('"%s"' % x.replace('\\', '\\\\').replace('"', '\\"') for x in xs) + ']'

def gen_codec_struct(out):
    s = read('lib.rs')
    m = need(re.search(r'((?:\s*#\[[^\]]*\]\s*\n)+)\s*pub struct \$Fixed<Frac> \{([^}]*)\}', s), 'struct $Fixed<Frac> in lib.rs')
    attrs = re.findall(r'#\[([^\]]*)\]', m.group(1))
    derives = []
    for a in attrs:
        dm = re.match(r'derive\((.*)\)', a, re.S)
        if dm:
            derives += [d.strip() for d in dm.group(1).split(',') if d.strip()]
    other = [a.strip() for a in attrs if not a.startswith('derive')]
    body = m.group(2)
    field_attrs = re.findall(r'#\[([^\]]*)\]', body)
    fields = re.findall(r'^\s*(?:pub(?:\([^)]*\))?\s+)?(\w+)\s*:\s*([^,\n]+),', body, re.M)
    out.append('/-- the struct behind every fixed-point type (`lib.rs`): non-derive attributes, derives, field attributes, fields -/')
    out.append(f'def structAttrs : List String := {lean_str_list(other)}')
    out.append(f'def structDerives : List String := {lean_str_list(derives)}')
    out.append(f'def structFieldAttrs : List String := {lean_str_list(field_attrs)}')
    out.append('def structFields : List (String × String) := [' + ', '.join(f'("{n}", "{t.strip()}")' for n, t in fields) + ']')
    # hand-written impls of the codec traits would bypass the derive
    manual = re.findall(r'impl\s*<[^>]*>\s*(?:codec::)?(Encode|Decode|MaxEncodedLen)\s+for\s+\$?Fixed', s)
    out.append(f'def manualCodecImpls : List String := {lean_str_list(manual)}')

def gen_transcendental(out):
    t = read('transcendental.rs')
    c = read('consts.rs')
    def const_bits(name):
        m = need(re.search(r'pub const %s: (U\d+F\d+) = U\d+F\d+::from_bits\((0x[0-9A-Fa-f_]+)\);' % name, c), f'consts::{name}')
        return m.group(1), int(m.group(2).replace('_', ''), 16)
    out.append('/-! ### `transcendental.rs`: constants (derived from `consts.rs` by shifts), CORDIC table and gain, loop bounds -/')
    m = need(re.search(r'type ConstType = (\w+);', t), 'type ConstType')
    out.append(f'def constType : String := "{m.group(1)}"')
    for nm, lit in (('ZERO', 0), ('ONE', 1), ('TWO', 2), ('THREE', 3)):
        need(re.search(r'pub const %s: I9F23 = I9F23::from_bits\(%di32 << 23\);' % (nm, lit), t), f'transcendental::{nm}')
    derived = {}
    for nm in ('TWO_PI', 'PI', 'FRAC_PI_2', 'FRAC_PI_4', 'LOG2_E', 'E'):
        m = need(re.search(r'pub const %s: I9F23 = I9F23::from_bits\(\(consts::(\w+)\.to_bits\(\) >> (\d+)\) as i32\);' % nm, t), f'transcendental::{nm}')
        ty, bits = const_bits(m.group(1))
        derived[nm] = (m.group(1), ty, bits, int(m.group(2)))
        v = bits >> int(m.group(2))
        need(v < 2 ** 31, f'{nm} fits i32')
        camel = {'TWO_PI': 'twoPi', 'PI': 'pi', 'FRAC_PI_2': 'fracPi2', 'FRAC_PI_4': 'fracPi4', 'LOG2_E': 'log2e', 'E': 'e'}[nm]
        out.append(f'/-- `{nm}`: `consts::{m.group(1)}` ({ty}, bits 0x{bits:032X}) `>> {m.group(2)}` as I9F23 bits -/')
        out.append(f'def {camel}Src : Nat := 0x{bits:032X}')
        out.append(f'def {camel}Shift : Nat := {m.group(2)}')
        out.append(f'def {camel}Bits : Int := {v}')
    m = need(re.search(r'const ARCTAN_ANGLES: \[U0F128; (\d+)\] = \[(.*?)\];', t, re.S), 'ARCTAN_ANGLES')
    entries = re.findall(r'U0F128::from_bits\((0x[0-9A-Fa-f]+)\)', m.group(2))
    need(len(entries) == int(m.group(1)), 'ARCTAN_ANGLES length')
    out.append(f'/-- `ARCTAN_ANGLES` (U0F128 bits) -/')
    out.append('def arctanAngles : List Nat := [' + ', '.join(entries) + ']')
    m = need(re.search(r'if i >= (\d+) \{\s*break;', t), 'cordic step bound')
    out.append(f'def cordicSteps : Nat := {m.group(1)}')
    m = need(re.search(r'let x = T::lossy_from\(U0F128::from_bits\((0x[0-9A-Fa-f]+)\)\);', t), 'cordic gain literal')
    out.append(f'def cordicGain : Nat := {m.group(1)}')
    # loop headers (trip-count expressions) in source order
    loops = re.findall(r'^\s*(for [^{]+|while [^{]+)\{', t[:t.index('#[cfg(test)]')], re.M)
    loops = [' '.join(l.split()) for l in loops]
    out.append('/-- every loop header of the module, in source order -/')
    out.append('def loopHeaders : List String := ' + lean_str_list(loops))

def macro_body(src, name):
    i = src.index('macro_rules! %s {' % name)
    j = src.index('{', i)
    depth = 0
    for k in range(j, len(src)):
        if src[k] == '{': depth += 1
        elif src[k] == '}':
            depth -= 1
            if depth == 0:
                return src[j:k + 1]
    raise SystemExit('translator: unbalanced macro ' + name)

def gen_convert(out):
    """type-level admissibility of `From` / `LossyFrom` between fixed-point types: every impl header of `convert!` / `convert_lossy!`
    with its where-clauses interpreted, instantiated for every invocation row"""
    c = read('convert.rs')
    def impls(body, trait_names):
        res = []
        for m in re.finditer(r'impl<[^>]*>\s+(From|LossyFrom)<\$(Src[UI])<FracSrc>>\s+for\s+\$(Dst[UI])<FracDst>\s+where\s+(.*?)\{', body, re.S):
            tr, sp, dp, wh = m.group(1), m.group(2), m.group(3), re.sub(r',(?=>)', '', re.sub(r'\s+', '', m.group(4)))   # whitespace and rustfmt's trailing commas are not significant
            le_frac = False; bound = None
            for cl in [x for x in re.split(r',(?![^<]*>)', wh) if x]:
                if cl == 'FracSrc:IsLessOrEqual<FracDst,Output=True>':
                    le_frac = True
                elif cl in ('$SrcBits:Sub<FracSrc>', '$DstBits:Sub<FracDst>', '$DstBitsM1:Sub<FracDst>'):
                    pass
                elif cl == 'Diff<$SrcBits,FracSrc>:IsLessOrEqual<Diff<$DstBits,FracDst>,Output=True>':
                    bound = 'DstBits'
                elif cl == 'Diff<$SrcBits,FracSrc>:IsLessOrEqual<Diff<$DstBitsM1,FracDst>,Output=True>':
                    bound = 'DstBitsM1'
                else:
                    raise SystemExit('translator: unknown where-clause in convert.rs: ' + cl)
            need(bound is not None, 'integer-bit clause in ' + m.group(0)[:60])
            res.append((tr, sp == 'SrcI', dp == 'DstI', le_frac, bound))
        return res
    conv = impls(macro_body(c, 'convert'), None)
    lossy_body = macro_body(c, 'convert_lossy')
    lossy = impls(lossy_body, None)
    need(len(conv) == 3 and len(lossy) == 3, 'three impls in convert! and in convert_lossy!')
    rows = re.findall(r'^convert! \{ \(Fixed(U\d+), Fixed(I\d+), U(\d+), LeEqU\d+\) -> \(Fixed(U\d+), Fixed(I\d+), U(\d+), U(\d+), LeEqU\d+\) \}', c, re.M)
    need(len(rows) == 10, 'ten convert! rows')
    lrows_src = re.findall(r'^convert_lossy! \{ Fixed(U\d+), Fixed(I\d+), U(\d+), LeEqU\d+ \}', c, re.M)
    lrows_dst = re.findall(r'-> \(Fixed(U\d+), Fixed(I\d+), U(\d+), U(\d+), LeEqU\d+\)', lossy_body)
    need(len(lrows_src) == 5 and len(lrows_dst) == 5, 'five convert_lossy! sources and destinations')
    ents = []
    for (_, _, sn, _, _, dn, dm1) in rows:
        for tr, ss, ds, lef, b in conv:
            ents.append((tr, ss, int(sn), ds, int(dn), lef, int(dn) if b == 'DstBits' else int(dm1)))
    for (_, _, sn) in lrows_src:
        for (_, _, dn, dm1) in lrows_dst:
            for tr, ss, ds, lef, b in lossy:
                ents.append((tr, ss, int(sn), ds, int(dn), lef, int(dn) if b == 'DstBits' else int(dm1)))
    out.append('/-! ### `convert.rs`: every `From` / `LossyFrom` impl between fixed-point types, as (trait, srcSigned, srcBits, dstSigned, dstBits, requires FracSrc ≤ FracDst, constant C in `srcBits − FracSrc ≤ C − FracDst`) -/')
    out.append('def fromImpls : List (String × Bool × Nat × Bool × Nat × Bool × Nat) := [')
    b = lambda x: 'true' if x else 'false'
    out.append(',\n'.join(f'  ("{tr}", {b(ss)}, {sn}, {b(ds)}, {dn}, {b(lef)}, {ib})' for tr, ss, sn, ds, dn, lef, ib in ents))
    out.append(']')

def macro_arms(body):
    """split a `macro_rules!` body `{ (matcher) => { transcriber }; ... }` into (matcher, transcriber) texts"""
    arms = []; i = 1; n = len(body) - 1
    def balanced(k, op, cl):
        depth = 0
        for j in range(k, n + 1):
            if body[j] == op: depth += 1
            elif body[j] == cl:
                depth -= 1
                if depth == 0:
                    return j
        raise SystemExit('translator: unbalanced macro arm')
    while True:
        while i < n and body[i] in ' \t\r\n;':
            i += 1
        if i >= n:
            return arms
        need(body[i] == '(', 'macro arm starts with a parenthesised matcher')
        j = balanced(i, '(', ')')
        k = body.index('=>', j) + 2
        while body[k] in ' \t\r\n':
            k += 1
        need(body[k] == '{', 'macro arm transcriber in braces')
        e = balanced(k, '{', '}')
        arms.append((re.sub(r'\s+', ' ', body[i:j + 1]), body[k:e + 1]))
        i = e + 1

def conv_prim_tables(out):
    """type-level admissibility of the `From` / `LossyFrom` impls of convert.rs between fixed-point types and primitives
    (`int_to_fixed!`, `bool_to_fixed!`, `fixed_to_int!`, `fixed_to_int_lossy!`, `fixed_to_float!`, `fixed_to_float_lossy!`) and between
    primitives (`int_to_float_lossy_lossless!`, `lossy!`, the explicit float impls): every impl header with its where-clauses interpreted,
    instantiated for every invocation row"""
    c = read('convert.rs')
    c = c[:c.index('fn _compile_fail_tests()')]
    b = lambda x: 'true' if x else 'false'
    def clauses(wh):
        return [x for x in re.split(r',(?![^<]*>)', re.sub(r',(?=>)', '', re.sub(r'\s+', '', wh))) if x]
    # ---------------- int_to_fixed!
    arms = macro_arms(macro_body(c, 'int_to_fixed'))
    need(len(arms) == 2, 'two arms in int_to_fixed!')
    gen_arm = [a for a in arms if '$SrcBits:ident' in a[0]]; same_arm = [a for a in arms if '$SrcBits:ident' not in a[0]]
    need(len(gen_arm) == 1 and len(same_arm) == 1, 'one generic and one same-width arm in int_to_fixed!')
    gen_impls = []
    for m in re.finditer(r'impl<FracDst: \$DstLeEqU>\s+(From|LossyFrom)<\$(Src[UI])>\s+for\s+\$(Dst[UI])<FracDst>\s+where\s+(.*?)\{', gen_arm[0][1], re.S):
        tr, sp, dp = m.group(1), m.group(2), m.group(3)
        bound = None; sub = None
        for cl in clauses(m.group(4)):
            if cl in ('$DstBits:Sub<FracDst>', '$DstBitsM1:Sub<FracDst>'):
                sub = cl[1:cl.index(':')]
            elif cl == '$SrcBits:IsLessOrEqual<Diff<$DstBits,FracDst>,Output=True>':
                bound = 'DstBits'
            elif cl == '$SrcBits:IsLessOrEqual<Diff<$DstBitsM1,FracDst>,Output=True>':
                bound = 'DstBitsM1'
            else:
                raise SystemExit('translator: unknown where-clause in int_to_fixed!: ' + cl)
        need(bound is not None and sub == bound, 'integer-bit clause (with matching Sub clause) in int_to_fixed! impl ' + m.group(0)[:50])
        gen_impls.append((tr, sp == 'SrcI', dp == 'DstI', bound))
    need(len(gen_impls) == 6 and len(re.findall(r'\bimpl\b', gen_arm[0][1])) == 6, 'six impls in the generic arm of int_to_fixed!')
    same_impls = [('From', m.group(1) == 'SrcI', m.group(2) == 'DstI')
                  for m in re.finditer(r'impl From<\$(Src[UI])> for \$(Dst[UI])<U0> \{', same_arm[0][1])]
    same_impls += [('LossyFrom', m.group(1) == 'SrcI', m.group(2) == 'DstI')
                   for m in re.finditer(r'lossy! \{ \$(Src[UI]): Into \$(Dst[UI])<U0> \}', same_arm[0][1])]
    need(len(same_impls) == 4 and len(re.findall(r'\bimpl\b', same_arm[0][1])) == 2, 'two impls and two lossy! rows in the same-width arm of int_to_fixed!')
    # `lossy! { $Src: Into $Dst }` is `src.into()`, i.e. the `From` impl of the same pair
    need(re.search(r'\(\$Src:ty: Into \$\(\$Dst:ty\),\*\) => \{ \$\(\s*impl LossyFrom<\$Src> for \$Dst \{.*?src\.into\(\)', macro_body(c, 'lossy'), re.S), 'lossy! Into arm forwards to into()')
    ents = []
    grows = re.findall(r'^int_to_fixed! \{ \(u(\d+), i(\d+), U(\d+), LeEqU\d+\) -> \(FixedU(\d+), FixedI(\d+), U(\d+), U(\d+), LeEqU\d+\) \}', c, re.M)
    srows = re.findall(r'^int_to_fixed! \{ \(u(\d+), i(\d+)\) -> \(FixedU(\d+), FixedI(\d+)\) \}', c, re.M)
    need(len(grows) == 10 and len(srows) == 5 and len(re.findall(r'^int_to_fixed! \{', c, re.M)) == 15, 'ten generic and five same-width int_to_fixed! rows')
    for (su, si, sb, du, di, db, dm1) in grows:
        # the `$DstBitsM1` constant is NOT required to be `$DstBits - 1` here: a loosened row must reach the table so that `from_int_table_sound` fails
        # and tools/from_probe.py can instantiate it
        need(su == si == sb and du == di == db, 'consistent int_to_fixed! row')
        for tr, ss, ds, bd in gen_impls:
            ents.append((tr, ('i' if ss else 'u') + sb, ss, int(sb), ds, int(db), True, int(db) if bd == 'DstBits' else int(dm1)))
    for (su, si, du, di) in srows:
        need(su == si and du == di, 'consistent same-width int_to_fixed! row')
        for tr, ss, ds in same_impls:
            ents.append((tr, ('i' if ss else 'u') + su, ss, int(su), ds, int(du), False, 0))
    # ---------------- bool_to_fixed!
    bbody = macro_body(c, 'bool_to_fixed')
    bimpls = []
    for m in re.finditer(r'impl<FracDst: \$DstLeEqU>\s+(From|LossyFrom)<bool>\s+for\s+\$(Dst[UI])<FracDst>\s+where\s+(.*?)\{', bbody, re.S):
        bound = None; sub = None
        for cl in clauses(m.group(3)):
            if cl in ('$DstBits:Sub<FracDst>', '$DstBitsM1:Sub<FracDst>'):
                sub = cl[1:cl.index(':')]
            elif cl == 'U1:IsLessOrEqual<Diff<$DstBits,FracDst>,Output=True>':
                bound = 'DstBits'
            elif cl == 'U1:IsLessOrEqual<Diff<$DstBitsM1,FracDst>,Output=True>':
                bound = 'DstBitsM1'
            else:
                raise SystemExit('translator: unknown where-clause in bool_to_fixed!: ' + cl)
        need(bound is not None and sub == bound, 'integer-bit clause in bool_to_fixed! impl')
        bimpls.append((m.group(1), m.group(2) == 'DstI', bound))
    need(len(bimpls) == 4 and len(re.findall(r'\bimpl\b', bbody)) == 4, 'four impls in bool_to_fixed!')
    brows = re.findall(r'^bool_to_fixed! \{ FixedU(\d+), FixedI(\d+), U(\d+), U(\d+), LeEqU\d+ \}', c, re.M)
    need(len(brows) == 5, 'five bool_to_fixed! rows')
    for (du, di, db, dm1) in brows:
        need(du == di == db and int(dm1) + 1 == int(db), 'consistent bool_to_fixed! row')
        for tr, ds, bd in bimpls:
            ents.append((tr, 'bool', False, 1, ds, int(db), True, int(db) if bd == 'DstBits' else int(dm1)))
    out.append('/-! ### `convert.rs`: every `From` / `LossyFrom` impl from a primitive integer or `bool` to a fixed-point type (`int_to_fixed!`, `bool_to_fixed!`), as')
    out.append('(trait, source type, srcSigned, srcBits (`bool`: the `U1` of its clause), dstSigned, dstBits, generic FracDst?, constant C): generic rows carry the clause')
    out.append('`srcBits ≤ C − FracDst` (with `FracDst ≤ C`), the others are implemented for `FracDst = U0` only -/')
    out.append('def fromIntImpls : List (String × String × Bool × Nat × Bool × Nat × Bool × Nat) := [')
    out.append(',\n'.join(f'  ("{tr}", "{nm}", {b(ss)}, {sn}, {b(ds)}, {dn}, {b(g)}, {cc})' for tr, nm, ss, sn, ds, dn, g, cc in ents))
    out.append(']')
    # ---------------- fixed_to_int!
    arms = macro_arms(macro_body(c, 'fixed_to_int'))
    need(len(arms) == 2 and 'wider' not in arms[0][0] and 'wider' in arms[1][0], 'plain and wider arm of fixed_to_int!')
    def u0_impls(text):
        return [(m.group(1) == 'SrcI', m.group(2) == 'DstI') for m in re.finditer(r'impl From<\$(Src[UI])<U0>> for \$(Dst[UI]) \{', text)]
    plain = u0_impls(arms[0][1]); wider = u0_impls(arms[1][1])
    need(len(plain) == 2 and len(re.findall(r'\bimpl\b', arms[0][1])) == 2, 'two impls in the plain arm of fixed_to_int!')
    need(len(wider) == 1 and len(re.findall(r'\bimpl\b', arms[1][1])) == 1 and
         re.search(r'fixed_to_int! \{ \(\$SrcU, \$SrcI\) -> \(\$DstU, \$DstI\) \}', arms[1][1]), 'wider arm of fixed_to_int! = plain arm + one impl')
    wider = plain + wider
    tents = []
    rows = re.findall(r'^fixed_to_int! \{ \(FixedU(\d+), FixedI(\d+)\) -> (wider )?\((u\w+), (i\w+)\) \}', c, re.M)
    need(len(rows) == 17 and len(re.findall(r'^fixed_to_int! \{', c, re.M)) == 17, 'seventeen fixed_to_int! rows')
    for (su, si, w, dun, din) in rows:
        need(su == si and dun[1:] == din[1:], 'consistent fixed_to_int! row')
        for ss, ds in (wider if w else plain):
            tents.append(('From', ss, int(su), din if ds else dun, ds, False, 0))
    # ---------------- fixed_to_int_lossy!
    arms = macro_arms(macro_body(c, 'fixed_to_int_lossy'))
    need(len(arms) == 2, 'two arms in fixed_to_int_lossy!')
    limpls = []
    for m in re.finditer(r'impl<FracSrc: \$SrcLeEqU>\s+LossyFrom<\$(Src[UI])<FracSrc>>\s+for\s+\$(Dst[UI])\s+where\s+(.*?)\{', arms[0][1], re.S):
        bound = None
        for cl in clauses(m.group(3)):
            if cl == '$SrcBits:Sub<FracSrc>':
                pass
            elif cl == 'Diff<$SrcBits,FracSrc>:IsLessOrEqual<$DstBits,Output=True>':
                bound = 'DstBits'
            elif cl == 'Diff<$SrcBits,FracSrc>:IsLessOrEqual<$DstBitsM1,Output=True>':
                bound = 'DstBitsM1'
            else:
                raise SystemExit('translator: unknown where-clause in fixed_to_int_lossy!: ' + cl)
        need(bound is not None, 'integer-bit clause in fixed_to_int_lossy! impl')
        limpls.append((m.group(1) == 'SrcI', m.group(2) == 'DstI', bound))
    need(len(limpls) == 3 and len(re.findall(r'\bimpl\b', arms[0][1])) == 3, 'three impls in fixed_to_int_lossy!')
    ldst = re.findall(r'-> \((u\w+), (i\w+), U(\d+), U(\d+), LeEqU\d+\)', arms[1][1])
    lsrc = re.findall(r'^fixed_to_int_lossy! \{ FixedU(\d+), FixedI(\d+), U(\d+), LeEqU\d+ \}', c, re.M)
    need(len(ldst) == 6 and len(lsrc) == 5, 'six destinations and five sources of fixed_to_int_lossy!')
    for (su, si, sb) in lsrc:
        need(su == si == sb, 'consistent fixed_to_int_lossy! source row')
        for (dun, din, db, dm1) in ldst:
            need(dun[1:] == din[1:] and int(dm1) + 1 == int(db), 'consistent fixed_to_int_lossy! destination row')
            for ss, ds, bd in limpls:
                tents.append(('LossyFrom', ss, int(sb), din if ds else dun, ds, True, int(db) if bd == 'DstBits' else int(dm1)))
    out.append('/-! ### `convert.rs`: every `From` / `LossyFrom` impl from a fixed-point type to a primitive integer (`fixed_to_int!`, `fixed_to_int_lossy!`), as')
    out.append('(trait, srcSigned, srcBits, destination type, dstSigned, generic FracSrc?, constant C): generic rows carry the clause `srcBits − FracSrc ≤ C`,')
    out.append('the others are implemented for `FracSrc = U0` only and carry no clause -/')
    out.append('def toIntImpls : List (String × Bool × Nat × String × Bool × Bool × Nat) := [')
    out.append(',\n'.join(f'  ("{tr}", {b(ss)}, {sn}, "{dn}", {b(ds)}, {b(g)}, {cc})' for tr, ss, sn, dn, ds, g, cc in tents))
    out.append(']')
    # ---------------- fixed_to_float! / fixed_to_float_lossy!
    need(re.search(r'impl<Frac: \$LeEqU> From<\$Fixed<Frac>> for \$Float \{.*?src\.to_num\(\)', macro_body(c, 'fixed_to_float'), re.S), 'fixed_to_float! impl')
    fents = []
    frows = re.findall(r'^(#\[cfg\(feature = "f16"\)\]\n)?fixed_to_float! \{ Fixed([IU])(\d+)\(LeEqU(\d+)\) -> (\w+) \}', c, re.M)
    need(len(frows) == 12 and len(re.findall(r'^fixed_to_float! \{', c, re.M)) == 12, 'twelve fixed_to_float! rows')
    for (cfg, sg, n, n2, fl) in frows:
        need(n == n2, 'consistent fixed_to_float! row')
        fents.append(('From', sg == 'I', int(n), fl, bool(cfg)))
    arms = macro_arms(macro_body(c, 'fixed_to_float_lossy'))
    need(len(arms) == 2 and re.search(r'impl<Frac: \$LeEqU> LossyFrom<\$Fixed<Frac>> for \$Float \{.*?src\.to_num\(\)', arms[0][1], re.S), 'fixed_to_float_lossy! impl')
    ldst = re.findall(r'(#\[cfg\(feature = "f16"\)\]\s*)?fixed_to_float_lossy! \{ \$Fixed\(\$LeEqU\) -> (\w+) \}', arms[1][1])
    lsrc = re.findall(r'^fixed_to_float_lossy! \{ Fixed([IU])(\d+)\(LeEqU(\d+)\) \}', c, re.M)
    need(len(ldst) == 4 and len(lsrc) == 10, 'four destinations and ten sources of fixed_to_float_lossy!')
    for (sg, n, n2) in lsrc:
        need(n == n2, 'consistent fixed_to_float_lossy! row')
        for (cfg, fl) in ldst:
            fents.append(('LossyFrom', sg == 'I', int(n), fl, bool(cfg)))
    out.append('/-! ### `convert.rs`: every `From` / `LossyFrom` impl from a fixed-point type (any `Frac`) to a float (`fixed_to_float!`, `fixed_to_float_lossy!`), as')
    out.append('(trait, srcSigned, srcBits, float type, behind `cfg(feature = "f16")`?) -/')
    out.append('def toFloatImpls : List (String × Bool × Nat × String × Bool) := [')
    out.append(',\n'.join(f'  ("{tr}", {b(ss)}, {sn}, "{fl}", {b(cfg)})' for tr, ss, sn, fl, cfg in fents))
    out.append(']')
    # ---------------- int_to_float_lossy_lossless!
    need(re.search(r'\(\$Int:ident -> \$\(\$Lossy:ident\)\*; \$\(\$Lossless:ident\)\*\)', macro_body(c, 'int_to_float_lossy_lossless')) and
         len(re.findall(r'src\.to_repr_fixed\(\)\.to_num\(\)', macro_body(c, 'int_to_float_lossy_lossless'))) == 2, 'int_to_float_lossy_lossless! shape')
    ients = []
    irows = re.findall(r'^(#\[cfg\(feature = "f16"\)\]\n)?int_to_float_lossy_lossless! \{ (\w+) -> ([\w ]*); ([\w ]*)\}', c, re.M)
    need(len(irows) == 24 and len(re.findall(r'^int_to_float_lossy_lossless! \{', c, re.M)) == 24, 'twenty-four int_to_float_lossy_lossless! rows')
    for (cfg, it, lossy, lossless) in irows:
        for fl in lossy.split():
            ients.append((it, fl, False, bool(cfg)))
        for fl in lossless.split():
            ients.append((it, fl, True, bool(cfg)))
    out.append('/-! ### `convert.rs`: `LossyFrom<integer> for float` (`int_to_float_lossy_lossless!`), as (integer type, float type, documented as lossless?, behind `cfg(feature = "f16")`?) -/')
    out.append('def intToFloatImpls : List (String × String × Bool × Bool) := [')
    out.append(',\n'.join(f'  ("{it}", "{fl}", {b(ll)}, {b(cfg)})' for it, fl, ll, cfg in ients))
    out.append(']')
    # ---------------- lossy! rows between primitives and the explicit float impls
    larms = macro_arms(macro_body(c, 'lossy'))
    need(len(larms) == 2 and re.search(r'fn lossy_from\(src: \$Src\) -> Self \{\s*src\s*\}', larms[0][1]) and
         re.search(r'fn lossy_from\(src: \$Src\) -> Self \{\s*src\.into\(\)\s*\}', larms[1][1]), 'lossy! arms: identity and into()')
    pents = []
    for m in re.finditer(r'^(#\[cfg\(feature = "f16"\)\]\n)?lossy! \{ (\w+)(?:: Into ([\w, ]+))? \}', c, re.M):
        cfg, src, dsts = m.group(1), m.group(2), m.group(3)
        if dsts is None:
            pents.append((src, src, 'id', bool(cfg)))
        else:
            for d in dsts.split(','):
                pents.append((src, d.strip(), 'into', bool(cfg)))
    need(len(re.findall(r'^lossy! \{', c, re.M)) == len(re.findall(r'^(?:#\[cfg\(feature = "f16"\)\]\n)?lossy! \{ \w+(?:: Into [\w, ]+)? \}', c, re.M)), 'every lossy! row parsed')
    for m in re.finditer(r'^(#\[cfg\(feature = "f16"\)\]\n)?impl LossyFrom<(\w+)> for (\w+) \{(.*?)^\}', c, re.M | re.S):
        body = need(re.search(r'fn lossy_from\(src: \w+\) -> \w+ \{\s*(.*?)\s*\}', m.group(4), re.S), 'explicit LossyFrom body')
        pents.append((m.group(2), m.group(3), re.sub(r'\s+', ' ', body.group(1)), bool(m.group(1))))
    need(len(re.findall(r'^impl LossyFrom<', c, re.M)) == len([p for p in pents if p[2] not in ('id', 'into')]), 'every explicit primitive LossyFrom impl parsed')
    out.append('/-! ### `convert.rs`: `LossyFrom` between primitives (`lossy!` rows and the explicit impls), as (source, destination, body: `id` = `src`, `into` = `src.into()`,')
    out.append('otherwise the expression, behind `cfg(feature = "f16")`?) -/')
    out.append('def primLossyImpls : List (String × String × String × Bool) := [')
    out.append(',\n'.join(f'  ("{s_}", "{d_}", "{h_}", {b(cfg)})' for s_, d_, h_, cfg in pents))
    out.append(']')

def main():
    out = ['/- GENERATED by tools/gen_from_source.py from /repo/src — do not edit; rewritten on every check run. -/',
           'namespace Sfx', 'namespace Generated', '']
    gen_arith(out)
    for fn in sorted(globals()):
        if fn.startswith('gen_') and fn != 'gen_arith':
            globals()[fn](out)
    out += ['', 'end Generated', 'end Sfx', '']
    text = '\n'.join(out)
    old = open(OUT).read() if os.path.exists(OUT) else None
    if old != text:
        with open(OUT, 'w') as fh:
            fh.write(text)
    print('Generated.lean', 'unchanged' if old == text else 'rewritten')

if __name__ == '__main__':
    main()

OUT_CONV = '/verif/lean/SfxModel/GeneratedConv.lean'

def main_conv():
    """second output file (kept apart from Generated.lean, which almost every Lean module imports): the primitive <-> fixed conversion impl tables"""
    out = ['/- GENERATED by tools/gen_from_source.py from /repo/src/convert.rs — do not edit; rewritten on every check run. -/',
           'namespace Sfx', 'namespace Generated', '']
    conv_prim_tables(out)
    out += ['', 'end Generated', 'end Sfx', '']
    text = '\n'.join(out)
    old = open(OUT_CONV).read() if os.path.exists(OUT_CONV) else None
    if old != text:
        with open(OUT_CONV, 'w') as fh:
            fh.write(text)
    print('GeneratedConv.lean', 'unchanged' if old == text else 'rewritten')

if __name__ == '__main__':
    main_conv()
