#!/usr/bin/env python3
"""rewrites the seed/check table of DESIGN.md (between the SEED-TABLE markers) from seeded/*/meta.json"""
import json, glob
rows = []
for d in sorted(glob.glob("/verif/seeded/*/")):
    if not __import__("os").path.exists(d + "meta.json"):
        continue
    m = json.load(open(d + 'meta.json'))
    ch = []
    for c, v in m['checks'].items():
        ch.append(f"{c}: {'VIOLATION' if v['violation_reported'] else 'quiet'}"
                  f"{'' if v.get('with_failing_input') or not v['violation_reported'] else ' (no-failing-input-found)'}")
    ex = ''
    for c, v in m['checks'].items():
        for l in v.get('example_replay_lines', []):
            if '=>' in l:
                ex = l.lstrip('# ').strip(); break
        if ex: break
    rows.append(f"| `{m['id']}` | {m['breaks_property']} | {m['needs_to_manifest'][:330].replace('|', '/')} | {'; '.join(ch)} | `{ex[:150].replace('|', '/')}` |")
head = '| seed | breaks | needs to manifest | quick checks run → outcome | first failing line of the replay |\n|---|---|---|---|---|\n'
p = '/verif/DESIGN.md'
s = open(p).read()
a = s.index('<!-- SEED-TABLE-BEGIN -->') + len('<!-- SEED-TABLE-BEGIN -->')
b = s.index('<!-- SEED-TABLE-END -->')
s = s[:a] + '\n' + head + '\n'.join(rows) + '\n' + s[b:]
open(p, 'w').write(s)
print(len(rows), 'seeds')
