"""Request generator for the crate's `f16` feature: `half::f16` (16 bits, PREC 11) and `half::bf16` (16 bits, PREC 8).
Bin `conv`.  The 16-bit formats are enumerated EXHAUSTIVELY where the task asks for it.

Ops (formats as for f32 / f64, float-type token `f16` / `bf16`, float = its bit pattern in decimal):
  h_to_float_kind  0 16 <11|8> <bits> <dstFrac> <dstInt>           hook `to_float_kind` (the frac field carries PREC: 11 = f16, 8 = bf16)
  h_from_to_float  0 16 <11|8> <neg> <abs> <fracBits> <intBits>    hook `from_to_float_helper`
  fcv_{from_num,checked_from,saturating_from,wrapping_from,overflowing_from,wfrom}  s n f 0 <fty> <bits>
  fcv_{to,to_checked,to_saturating,to_wrapping,to_overflowing}     s n f <x> <fty>
  fcmp_{eq,ne,lt,le,gt,ge,pcmp} / fcmpr_…                          s n f <x> <fty> <bits>
  fcvt_from (8-bit sources -> f16) / fcvt_lossy / fcvt_linto       s n f <x> <fty>
  pcvt_lossy / pcvt_linto                                          s n 0 <src> <k> <dst>     (the cfg(feature = "f16") rows of convert.rs)

`to_float_kind(dst_frac, dst_int)` does not see the signedness of the destination, so the hook "layouts" are the (n, f) pairs:
all 507 layouts = 253 distinct calls per bit pattern.

Work is cut into chunks (one (format, layout, block of patterns) each); chunk i belongs to unit i % nunits.
"""
import random
from fractions import Fraction
import sfxgen as G

FMT = {'f16': (16, 11), 'bf16': (16, 8)}
WIDTHS = [8, 16, 32, 64, 128]
CMP = ['eq', 'ne', 'lt', 'le', 'gt', 'ge', 'pcmp']
FROM_FORMS = ['from_num', 'checked_from', 'saturating_from', 'wrapping_from', 'overflowing_from', 'wfrom']
TO_FORMS = ['to', 'to_checked', 'to_saturating', 'to_wrapping', 'to_overflowing']

def req(op, s, n, f, *args):
    return f"{op} {s} {n} {f} " + ' '.join(str(a) for a in args)

def mid(n):
    return 3 if n == 8 else n // 2 - 1

# ---------------------------------------------------------------- exact float arithmetic for the two formats
def params(fmt):
    nbits, prec = FMT[fmt]
    mb = prec - 1
    emaxb = (1 << (nbits - prec)) - 1          # biased exponent of inf / NaN
    bias = emaxb >> 1
    return nbits, prec, mb, emaxb, bias

def fval(fmt, b):
    """exact value of a finite pattern (Fraction); None for inf / NaN"""
    nbits, prec, mb, emaxb, bias = params(fmt)
    sg = -1 if b >> (nbits - 1) else 1
    be = (b >> mb) & emaxb
    m = b & ((1 << mb) - 1)
    if be == emaxb:
        return None
    if be == 0:
        return sg * Fraction(m, 1) * Fraction(2) ** (1 - bias - mb)
    return sg * Fraction(m + (1 << mb), 1) * Fraction(2) ** (be - bias - mb)

def rne(q):
    """Fraction -> nearest integer, ties to even"""
    fl = q.numerator // q.denominator
    r = q - fl
    if r < Fraction(1, 2):
        return fl
    if r > Fraction(1, 2):
        return fl + 1
    return fl if fl % 2 == 0 else fl + 1

def fbits(fmt, q):
    """nearest pattern (ties to even, overflow to infinity) of an exact Fraction"""
    nbits, prec, mb, emaxb, bias = params(fmt)
    sign = (1 << (nbits - 1)) if q < 0 else 0
    a = abs(q)
    if a == 0:
        return sign
    e = a.numerator.bit_length() - a.denominator.bit_length()
    if Fraction(2) ** e > a:
        e -= 1
    emin = 1 - bias
    qe = max(e, emin) - mb
    m = rne(a / Fraction(2) ** qe)
    if e < emin:
        return sign + m
    if m == 1 << prec:
        m >>= 1
        e += 1
    if e > bias:
        return sign + (emaxb << mb)
    return sign + ((e + bias) << mb) + (m - (1 << mb))

def mant_patterns(mb):
    full = (1 << mb) - 1
    half = 1 << (mb - 1)
    return sorted({0, 1, 2, 3, full, full - 1, half, half - 1, half + 1, 0b101 & full, (full // 3), full ^ (full // 3)})

def directed_patterns(fmt, rng, exps=None, extra=0):
    """every (or the given) biased exponent x mantissa edge patterns, both signs; zeros, subnormals, infinities, NaNs"""
    nbits, prec, mb, emaxb, bias = params(fmt)
    out = []
    E = range(emaxb + 1) if exps is None else exps
    for be in E:
        for m in mant_patterns(mb):
            for sg in (0, 1 << (nbits - 1)):
                out.append(sg | (be << mb) | m)
    for _ in range(extra):
        out.append(rng.getrandbits(nbits))
    return out

def layout_patterns(fmt, rng, s, n, f, count):
    """floats at / next to the ties and range ends of the layout's grid"""
    nbits = FMT[fmt][0]
    lo, hi = G.rng_range(s, n)
    E = G.edges(s, n, f)
    out = []
    for _ in range(count):
        r = rng.random()
        if r < 0.35:
            k = G.rand_val(rng, s, n, f, E) if rng.random() < 0.5 else rng.choice([0, 1, -1, 2, -2, 3, lo, hi, hi - 1, lo + 1]) + rng.randint(-2, 2)
            q = Fraction(2 * k + 1, 1 << (f + 1))
        elif r < 0.6:
            k = rng.choice([lo, hi, hi + 1, lo - 1, hi + 2, lo - 2])
            q = Fraction(2 * k + rng.choice([-1, 0, 1]), 1 << (f + 1))
        elif r < 0.85:
            q = Fraction(G.rand_val(rng, s, n, f, E), 1 << f)
        else:
            q = Fraction(G.rand_val(rng, s, n, f, E) * 4 + rng.randint(-3, 3), 1 << (f + 2))
        b = fbits(fmt, q) + rng.choice([0, 0, 0, 1, -1, 2, -2])
        out.append(b % (1 << nbits))
    return out

def near_fixed(fmt, b, s, n, f, j):
    """a value of the layout next to the float `b` (exercises <, =, > and the sign / overflow short cuts)"""
    lo, hi = G.rng_range(s, n)
    v = fval(fmt, b)
    if v is None:
        return [lo, hi, 0, -1 if s else 1][j % 4]
    k = rne(v * (1 << f))
    k += [0, 1, -1, 0, 2, -2, 0][j % 7]
    if j % 11 == 10:
        k = [lo, hi, 0][j % 3]
    return min(max(k, lo), hi)

# ---------------------------------------------------------------- fixed-point operands for `to_num::<f16|bf16>`
def to_float_values(fmt, rng, s, n, f, count, per_len=None):
    """edge values, every bit length with the rounding boundary of the format exercised (tie, tie +- 1, all ones), random mixtures"""
    nbits, prec, mb, emaxb, bias = params(fmt)
    lo, hi = G.rng_range(s, n)
    E = G.edges(s, n, f)
    out = set(E[:: max(1, len(E) // 40)]) | {0, lo, hi, hi - 1, lo + 1, 1, 2, 3} | ({-1, -2, -3} if s else set())
    for L in range(1, n + 1):
        bm = boundary_mags(fmt, L, f, rng, 4)
        out |= set(bm if per_len is None or len(bm) <= per_len else rng.sample(bm, per_len))
    for _ in range(count):
        out.add(G.rand_val(rng, s, n, f, E))
    res = []
    for x in out:
        for y in ((x, -x) if s else (x,)):
            if lo <= y <= hi:
                res.append(y)
    return sorted(set(res))

def boundary_mags(fmt, L, f, rng, nh):
    """magnitudes of bit length L (value exponent e = L-1-f) whose bits below the result's quantum are 0 / tie / tie +- 1 / all ones"""
    nbits, prec, mb, emaxb, bias = params(fmt)
    emin = 1 - bias
    e = L - 1 - f
    qi = max(e, emin) - mb + f                 # index (in the integer `abs`) of the result's last kept bit
    top = 1 << (L - 1)
    if qi <= 0:
        # exactly representable (or zero sticky region): a few shapes of the whole word
        c = {top, (1 << L) - 1, top | 1, top | (top >> 1)}
        return sorted(x for x in c if x.bit_length() == L)
    if qi >= L:
        # everything is below the quantum: rounds to 0 or to the smallest subnormal
        c = {top, (1 << L) - 1, top | 1, top + (top >> 1)}
        if qi == L:
            c |= {top, top + 1, (1 << L) - 1}
        return sorted(x for x in c if x.bit_length() == L)
    hb = L - qi                                # bits kept
    Hs = {1 << (hb - 1), (1 << hb) - 1, (1 << (hb - 1)) | 1, ((1 << hb) - 1) & ~1 | (1 << (hb - 1))}
    for _ in range(max(0, nh - 4)):
        Hs.add((1 << (hb - 1)) | rng.getrandbits(hb))
    half = 1 << (qi - 1)
    lows = {0, half, half + 1, half - 1, (1 << qi) - 1, 1}
    return sorted({(H << qi) | (lw & ((1 << qi) - 1)) for H in Hs if H.bit_length() == hb for lw in lows})

# ---------------------------------------------------------------- chunks
def hook_pairs(tier):
    if tier == 'quick':
        sel = {8: [0, 7, 8], 16: [1, 16], 32: [0, 31], 64: [63], 128: [0, 128]}      # 10 pairs x 65 536 patterns x 2 formats in quick; all 253 pairs in thorough
        return [(n, f) for n in WIDTHS for f in sel[n]]
    return [(n, f) for n in WIDTHS for f in range(n + 1)]

def exhaustive_typed_layouts(tier):
    if tier == 'quick':
        return [(1, 8, 7), (0, 16, 8)]
    return G.typed_layouts(tier)

BLOCK = 8192

def chunks(tier):
    """list of (kind, args…); deterministic order"""
    out = []
    for fmt in FMT:
        for (n, f) in hook_pairs(tier):
            for blk in range(0, 65536, BLOCK):
                out.append(('hook_kind', fmt, n, f, blk))
        for n in WIDTHS:
            out.append(('hook_from', fmt, n))
        for (s, n, f) in exhaustive_typed_layouts(tier):
            for blk in range(0, 65536, BLOCK):
                out.append(('typed_all', fmt, s, n, f, blk))
        for (s, n, f) in G.typed_layouts(tier):
            out.append(('typed_dir', fmt, s, n, f))
        out.append(('prim', fmt))
    return out

def run_chunk(ch, tier, rng):
    kind = ch[0]
    fmt = ch[1]
    nbits, prec, mb, emaxb, bias = params(fmt)
    out = []
    if kind == 'hook_kind':
        _, _, n, f, blk = ch
        for b in range(blk, blk + BLOCK):
            out.append(req('h_to_float_kind', 0, 16, prec, b, f, n - f))
    elif kind == 'hook_from':
        n = ch[2]
        quick = tier == 'quick'
        for f in range(n + 1):
            if quick and n == 128:
                emin = 1 - bias
                want = set(range(1, n + 1, 7))
                for e in list(range(emin - prec - 2, emin + 3)) + [bias - 1, bias, bias + 1, -1, 0, 1]:
                    want.add(e + 1 + f)
                Ls = sorted(L for L in want if 1 <= L <= n)
            else:
                Ls = range(1, n + 1)
            for L in Ls:
                mags = boundary_mags(fmt, L, f, rng, 4 if quick else 8)
                for i, a in enumerate(mags):
                    for neg in ((i + L + f) % 2,) if quick else (0, 1):
                        out.append(req('h_from_to_float', 0, 16, prec, neg, a, f, n - f))
            out.append(req('h_from_to_float', 0, 16, prec, 0, 0, f, n - f))
            out.append(req('h_from_to_float', 0, 16, prec, 1, 0, f, n - f))
            out.append(req('h_from_to_float', 0, 16, prec, 0, (1 << n) - 1, f, n - f))
            out.append(req('h_from_to_float', 0, 16, prec, 1, (1 << n) - 1, f, n - f))
    elif kind == 'typed_all':
        _, _, s, n, f, blk = ch
        for b in range(blk, blk + BLOCK):
            out.append(req('fcv_checked_from', s, n, f, 0, fmt, b))
            x = near_fixed(fmt, b, s, n, f, b * 7 + (b >> 5))
            out.append(req('fcmp_pcmp' if b % 2 == 0 else 'fcmpr_pcmp', s, n, f, x, fmt, b))
    elif kind == 'typed_dir':
        _, _, s, n, f = ch
        quick = tier == 'quick'
        # exponents around the layout's range and resolution (all exponents for f16)
        if fmt == 'f16':
            exps = None
        else:
            near = set(range(max(0, bias - f - prec - 3), min(emaxb, bias + (n - f) + 3) + 1))
            near |= set(range(0, emaxb + 1, 8 if quick else 2)) | {0, 1, 2, emaxb - 2, emaxb - 1, emaxb}
            exps = sorted(near)
        pats = directed_patterns(fmt, rng, exps, extra=16 if quick else 256)
        pats += layout_patterns(fmt, rng, s, n, f, 120 if quick else 1500)
        pats += [0, 1 << 15, emaxb << mb, (1 << 15) | (emaxb << mb), (emaxb << mb) | 1, (1 << 15) | (emaxb << mb) | (1 << (mb - 1)), 0xFFFF, 0x7FFF]
        nops = 1 if quick else 5
        for j, b in enumerate(pats):
            if quick and fmt == 'bf16' and j % 3 and j < len(pats) - 140:
                continue
            for t in range(nops):
                i = (j * nops + t)
                w = i % 20
                if w < 6:
                    out.append(req('fcv_' + FROM_FORMS[w], s, n, f, 0, fmt, b))
                else:
                    c = CMP[(w - 6) % 7]
                    x = near_fixed(fmt, b, s, n, f, i)
                    out.append(req(('fcmp_' if w < 13 else 'fcmpr_') + c, s, n, f, x, fmt, b))
        xs = to_float_values(fmt, rng, s, n, f, 40 if quick else 600, 3 if quick else None)
        for j, x in enumerate(xs):
            out.append(req('fcv_to', s, n, f, x, fmt))
            out.append(req('fcv_' + TO_FORMS[1 + j % 4], s, n, f, x, fmt))
            if j % 3 == 0 or not quick:
                out.append(req('fcvt_lossy', s, n, f, x, fmt))
                out.append(req('fcvt_linto', s, n, f, x, fmt))
                if n == 8 and fmt == 'f16':
                    out.append(req('fcvt_from', s, n, f, x, fmt))
    elif kind == 'prim':
        quick = tier == 'quick'
        # integer -> float rows
        for ity, (si, ni) in G.INT_TYPES.items():
            lo, hi = G.rng_range(si, ni)
            ks = {0, 1, 2, 3, lo, hi, hi - 1, lo + 1}
            for L in range(1, ni + 1):
                ks |= set(boundary_mags(fmt, L, 0, rng, 4))
            vals = set()
            for k in ks:
                for y in ((k, -k) if si else (k,)):
                    if lo <= y <= hi:
                        vals.add(y)
            for k in sorted(vals):
                out.append(req('pcvt_lossy', si, ni, 0, ity, k, fmt))
                if k % 3 == 0:
                    out.append(req('pcvt_linto', si, ni, 0, ity, k, fmt))
        # float -> float rows: from the half format (exhaustive in thorough), and into it from f32 / f64
        other = 'bf16' if fmt == 'f16' else 'f16'
        src_pats = range(65536) if not quick else sorted(set(directed_patterns(fmt, rng, None if fmt == 'f16' else range(0, 256, 5), extra=64)))
        for b in src_pats:
            for dst in (fmt, other, 'f32', 'f64'):
                out.append(req('pcvt_lossy', 0, 16, 0, fmt, b, dst))
            if b % 5 == 0:
                out.append(req('pcvt_linto', 0, 16, 0, fmt, b, other))
        for src, (wn, wp) in (('f32', (32, 24)), ('f64', (64, 53))):
            wmb = wp - 1
            wbias = (1 << (wn - wp - 1)) - 1
            pats = set()
            # every result exponent of the half format (incl. subnormal results, overflow) x bits around its rounding boundary
            for e in range(1 - bias - prec - 2, bias + 3):
                if not (1 - wbias <= e <= wbias):
                    continue
                qe = max(e, 1 - bias) - mb           # quantum exponent of the result
                drop = (e - wmb)                      # exponent of the source's last mantissa bit
                k = qe - drop                         # number of source mantissa bits below the quantum
                if k <= 0:
                    lows = [0]
                    k = 0
                elif k > wmb:
                    lows = None
                else:
                    half = 1 << (k - 1)
                    lows = [0, half, half + 1, half - 1, (1 << k) - 1, 1]
                if lows is None:
                    ms = [0, 1, (1 << wmb) - 1, 1 << (wmb - 1), (1 << (wmb - 1)) + 1]
                else:
                    hb = wmb - k
                    Hs = {0, (1 << hb) - 1, 1, ((1 << hb) - 1) & ~1} if hb > 0 else {0}
                    ms = [((H << k) | (lw & ((1 << k) - 1))) & ((1 << wmb) - 1) for H in Hs for lw in lows]
                for m in ms:
                    for sg in (0, 1):
                        pats.add((sg << (wn - 1)) | ((e + wbias) << wmb) | m)
            wemax = (1 << (wn - wp)) - 1
            for sg in (0, 1 << (wn - 1)):
                pats |= {sg, sg | 1, sg | (wemax << wmb), sg | (wemax << wmb) | 1, sg | (wemax << wmb) | (1 << (wmb - 1)), sg | ((wemax - 1) << wmb) | ((1 << wmb) - 1)}
            for _ in range(64 if quick else 4096):
                pats.add(rng.getrandbits(wn))
            for b in sorted(pats):
                out.append(req('pcvt_lossy', 0, wn, 0, src, b, fmt))
                if b % 4 == 0:
                    out.append(req('pcvt_linto', 0, wn, 0, src, b, fmt))
    return out

def gen(tier, seed, unit, nunits):
    out = []
    for i, ch in enumerate(chunks(tier)):
        if i % nunits != unit:
            continue
        rng = random.Random(f"extf16/{seed}/{tier}/{i}")
        out += run_chunk(ch, tier, rng)
    return {'conv': out}

if __name__ == '__main__':
    import sys
    tier = sys.argv[1] if len(sys.argv) > 1 else 'quick'
    nun = int(sys.argv[2]) if len(sys.argv) > 2 else 1
    for u in range(nun):
        for l in gen(tier, 1, u, nun)['conv']:
            print(l)
