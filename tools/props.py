"""Per-property configuration: Lean modules holding the theorems, harness bins, profiles, generators."""
import random
import sfxgen as G

def req(op, s, n, f, *args):
    return f"{op} {s} {n} {f} " + ' '.join(str(a) for a in args)

def unit_layouts(layouts, unit, nunits):
    return [L for i, L in enumerate(layouts) if i % nunits == unit]

def scale(tier, q, t):
    return q if tier == 'quick' else t

MUL_FORMS = ['mul', 'checked_mul', 'saturating_mul', 'wrapping_mul', 'overflowing_mul']
DIV_FORMS = ['div', 'checked_div', 'saturating_div', 'wrapping_div', 'overflowing_div']
MUL_VARIANTS = ['mul_rv', 'mul_vr', 'mul_rr', 'mul_assign', 'mul_assign_r']
DIV_VARIANTS = ['div_rv', 'div_vr', 'div_rr', 'div_assign', 'div_assign_r']

def gen_C01(tier, seed, unit, nunits):
    """products and quotients: hooks on all 507 layouts, typed forms on the instantiated set"""
    out = G.corpus('C01') if unit == 0 else []
    for (s, n, f) in unit_layouts(G.all_layouts(), unit, nunits):
        rng = random.Random(f'{seed}/C01/h/{s}/{n}/{f}')
        E = G.edges(s, n, f)
        k = scale(tier, 60, 1500) if n > 8 else scale(tier, 150, 0)
        C = G.crit(s, n, f)
        for a, b in G.mul_pairs(rng, s, n, f, E, k) + [(a, b) for a in C for b in C]:
            out.append(req('h_mul_overflow', s, n, f, a, b))
        for a, b in G.div_pairs(rng, s, n, f, E, k) + [(a, b) for a in C for b in C]:
            out.append(req('h_div_overflow', s, n, f, a, b))
        if n == 8 and tier != 'quick':
            lo, hi = G.rng_range(s, n)
            for a in range(lo, hi + 1):
                for b in range(lo, hi + 1):
                    out.append(req('h_mul_overflow', s, n, f, a, b))
                    out.append(req('h_div_overflow', s, n, f, a, b))
        if n == 8 and tier == 'quick':
            lo, hi = G.rng_range(s, n)
            for a in E:
                for b in range(lo, hi + 1):
                    out.append(req('h_mul_overflow', s, n, f, a, b))
                    out.append(req('h_div_overflow', s, n, f, a, b))
    for (s, n, f) in unit_layouts([(s, n, 0) for s in (0, 1) for n in G.WIDTHS], unit, nunits):
        rng = random.Random(f'{seed}/C01/w/{s}/{n}')
        for d, n1, n0 in G.wide_div_triples(rng, s, n, scale(tier, 3000, 200000)):
            out.append(req('h_div_rem_from', s, n, 0, d, n1, n0))
    for (s, n, f) in unit_layouts(G.typed_layouts(tier), unit, nunits):
        rng = random.Random(f'{seed}/C01/t/{s}/{n}/{f}')
        E = G.edges(s, n, f)
        k = scale(tier, 40, 400)
        C = G.crit(s, n, f)
        CC = [(a, b) for a in C for b in C]
        for a, b in G.mul_pairs(rng, s, n, f, E, k) + CC:
            for op in ['mul', 'checked_mul', 'overflowing_mul'] + [rng.choice(MUL_VARIANTS)]:
                out.append(req(op, s, n, f, a, b))
        for a, b in G.div_pairs(rng, s, n, f, E, k) + CC:
            for op in ['div', 'checked_div', 'overflowing_div'] + [rng.choice(DIV_VARIANTS)]:
                out.append(req(op, s, n, f, a, b))
    return {'arith': out}

UNARY = ['neg', 'abs']
def gen_C02(tier, seed, unit, nunits):
    out = G.corpus('C02') if unit == 0 else []
    forms = ['checked_', 'saturating_', 'wrapping_', 'overflowing_']
    for (s, n, f) in unit_layouts(G.typed_layouts(tier), unit, nunits):
        rng = random.Random(f'{seed}/C02/{s}/{n}/{f}')
        E = G.edges(s, n, f)
        lo, hi = G.rng_range(s, n)
        k = scale(tier, 30, 300)
        pairs = [(rng.choice(E), rng.choice(E)) for _ in range(k)] + \
                [(G.rand_val(rng, s, n, f, E), G.rand_val(rng, s, n, f, E)) for _ in range(k)]
        # sums/differences at the range ends
        for _ in range(k):
            a = G.rand_val(rng, s, n, f, E)
            t = rng.choice([hi, lo, hi + 1, lo - 1])
            pairs.append((a, G.clip(s, n, t - a + rng.randint(-1, 1))))
            pairs.append((a, G.clip(s, n, a - t + rng.randint(-1, 1))))
        for a, b in pairs:
            for base in ('add', 'sub'):
                out.append(req(base, s, n, f, a, b))
                for fm in forms:
                    out.append(req(fm + base, s, n, f, a, b))
        C = G.crit(s, n, f)
        CC = [(a, b) for a in C for b in C]
        for a, b in G.mul_pairs(rng, s, n, f, E, k) + CC:
            for op in MUL_FORMS:
                out.append(req(op, s, n, f, a, b))
        for a, b in G.div_pairs(rng, s, n, f, E, k) + CC:
            for op in DIV_FORMS:
                out.append(req(op, s, n, f, a, b))
        # by integer
        for _ in range(2 * k):
            a = G.rand_val(rng, s, n, f, E)
            r = rng.random()
            if r < 0.4:
                kk = rng.choice([0, 1, -1, 2, -2, 3, 10]) if s else rng.choice([0, 1, 2, 3, 10])
            elif r < 0.7 and a != 0:
                kk = G.clip(s, n, rng.choice([hi, lo, hi + 1, lo - 1]) // a + rng.randint(-1, 1))
            else:
                kk = G.rand_val(rng, s, n, 0, E)
            for op in ['mul_int', 'checked_mul_int', 'saturating_mul_int', 'wrapping_mul_int', 'overflowing_mul_int',
                       'div_int', 'checked_div_int', 'wrapping_div_int', 'overflowing_div_int']:
                out.append(req(op, s, n, f, a, kk))
        # unary
        vals = E + [G.rand_val(rng, s, n, f, E) for _ in range(k)]
        for a in vals:
            for fm in forms:
                out.append(req(fm + 'neg', s, n, f, a))
                if s:
                    out.append(req(fm + 'abs', s, n, f, a))
            if s:
                out.append(req('neg', s, n, f, a))
                out.append(req('abs', s, n, f, a))
    return {'arith': out}

ROUND_OPS = ['int', 'frac', 'round_to_zero'] + [fm + m for m in ('ceil', 'floor', 'round', 'round_ties_to_even')
                                                for fm in ('', 'checked_', 'saturating_', 'wrapping_', 'overflowing_')]
def gen_C06(tier, seed, unit, nunits):
    out = G.corpus('C06') if unit == 0 else []
    for (s, n, f) in unit_layouts(G.typed_layouts(tier), unit, nunits):
        rng = random.Random(f'{seed}/C06/{s}/{n}/{f}')
        lo, hi = G.rng_range(s, n)
        E = G.edges(s, n, f)
        if n == 8 or (n == 16 and tier != 'quick'):
            vals = range(lo, hi + 1)
        else:
            one = 1 << f; half = one >> 1
            vals = set(E)
            for _ in range(scale(tier, 400, 20000)):
                r = rng.random()
                if r < 0.5:
                    # integers, half-integers and their neighbours: q*one + {0, half} + {-1,0,1}
                    q = rng.choice([rng.randint(-4, 4), (lo >> f) + rng.randint(0, 2), (hi >> f) - rng.randint(0, 2), rng.randint(lo >> f, hi >> f)])
                    vals.add(G.clip(s, n, q * one + rng.choice([0, half, one - 1, 1]) + rng.randint(-1, 1)))
                else:
                    vals.add(G.rand_val(rng, s, n, f, E))
            vals = sorted(vals)
        for a in vals:
            for op in ROUND_OPS:
                out.append(req(op, s, n, f, a))
    return {'arith': out}

REM_FIXED = ['rem', 'checked_rem', 'rem_euclid', 'checked_rem_euclid', 'div_euclid', 'checked_div_euclid',
             'saturating_div_euclid', 'wrapping_div_euclid', 'overflowing_div_euclid']
REM_INT = ['rem_int', 'checked_rem_int', 'rem_euclid_int', 'checked_rem_euclid_int', 'wrapping_rem_euclid_int',
           'overflowing_rem_euclid_int', 'div_euclid_int', 'checked_div_euclid_int', 'wrapping_div_euclid_int',
           'overflowing_div_euclid_int']
def gen_C07(tier, seed, unit, nunits):
    out = G.corpus('C07') if unit == 0 else []
    for (s, n, f) in unit_layouts(G.typed_layouts(tier), unit, nunits):
        rng = random.Random(f'{seed}/C07/{s}/{n}/{f}')
        lo, hi = G.rng_range(s, n)
        E = G.edges(s, n, f)
        C = G.crit(s, n, f)
        one = 1 << f
        pairs = [(a, b) for a in C for b in C]
        if n == 8:
            if tier == 'quick':
                pairs += [(a, b) for a in E for b in range(lo, hi + 1)] + [(a, b) for a in range(lo, hi + 1) for b in C]
            else:
                pairs = [(a, b) for a in range(lo, hi + 1) for b in range(lo, hi + 1)]
        k = scale(tier, 150, 3000)
        for _ in range(k):
            r = rng.random()
            b = G.rand_val(rng, s, n, f, E)
            if r < 0.4 and b != 0:
                # a = q*b + r with chosen Euclidean quotient (value-level integer) near the representable integer range
                qmax = hi >> f; qmin = lo >> f
                q = rng.choice([qmax, qmin, qmax + 1, qmin - 1, 0, 1, -1, rng.randint(qmin, qmax)])
                rr = rng.choice([0, 1, abs(b) - 1, rng.randrange(abs(b))])
                pairs.append((G.clip(s, n, q * b + rr), b))
            elif r < 0.6:
                pairs.append((rng.choice(E), rng.choice(E)))
            else:
                pairs.append((G.rand_val(rng, s, n, f, E), b))
        for a, b in pairs:
            for op in REM_FIXED:
                out.append(req(op, s, n, f, a, b))
        # integer divisors: small, range ends, those whose fixed-point image just fits / just overflows
        ks = {0, 1, -1, 2, -2, 3, -3, 10, lo, hi, lo + 1, hi - 1}
        ib = n - f
        for d in (-1, 0, 1):
            for sh in (ib - 2, ib - 1, ib):
                if sh >= 0:
                    ks.update(((1 << sh) + d, -(1 << sh) + d))
        ks = sorted({x for x in ks if lo <= x <= hi})
        ipairs = [(a, kk) for a in C for kk in ks]
        for _ in range(k):
            a = G.rand_val(rng, s, n, f, E)
            r = rng.random()
            if r < 0.5:
                kk = rng.choice(ks)
            elif r < 0.8:
                kk = G.clip(s, n, (a >> f) + rng.randint(-2, 2)) if rng.random() < 0.5 else G.clip(s, n, rng.randint(-20, 20))
            else:
                kk = G.rand_val(rng, s, n, 0, E)
            ipairs.append((a, kk))
        if n == 8 and tier != 'quick':
            ipairs = [(a, kk) for a in range(lo, hi + 1) for kk in range(lo, hi + 1)]
        for a, kk in ipairs:
            for op in REM_INT:
                out.append(req(op, s, n, f, a, kk))
    return {'arith': out}

SHIFT_TYPES = {'i8': (1, 8), 'i16': (1, 16), 'i32': (1, 32), 'i64': (1, 64), 'i128': (1, 128), 'isize': (1, 64),
               'u8': (0, 8), 'u16': (0, 16), 'u32': (0, 32), 'u64': (0, 64), 'u128': (0, 128), 'usize': (0, 64)}
BINVARS = ['vv', 'rv', 'vr', 'rr', 'av', 'ar']
def wstep(rng, s, n, f, E, x_hint=None):
    """one random Wrapping step (text), overflow-biased operands"""
    lo, hi = G.rng_range(s, n)
    def val():
        r = rng.random()
        if r < 0.3 and x_hint is not None:
            t = rng.choice([hi, lo, hi + 1, lo - 1])
            return G.clip(s, n, t - x_hint + rng.randint(-1, 1))
        return G.rand_val(rng, s, n, f, E)
    def small():
        c = [0, 1, -1, 2, -2, 3, 7, 10, lo, hi] if s else [0, 1, 2, 3, 7, 10, hi]
        return rng.choice(c) if rng.random() < 0.7 else G.rand_val(rng, s, n, 0, E)
    k = rng.random()
    if k < 0.30:
        op = rng.choice(['add', 'sub', 'mul', 'div', 'rem', 'bitand', 'bitor', 'bitxor'])
        return f'{op}.{rng.choice(BINVARS)}:{val()}'
    if k < 0.42:
        op = rng.choice(['mul_int', 'div_int', 'rem_int'])
        return f'{op}.{rng.choice(BINVARS)}:{small()}'
    if k < 0.50:
        return rng.choice(['neg', 'neg.r', 'not', 'not.r'])
    if k < 0.65:
        ty = rng.choice(list(SHIFT_TYPES))
        ts, tn = SHIFT_TYPES[ty]
        tlo, thi = G.rng_range(ts, tn)
        amt = rng.choice([0, 1, n - 1, n, n + 1, 2 * n, 2 * n + 3, -1, -n, tlo, thi, rng.randint(0, 300), rng.randint(tlo, thi)])
        amt = min(max(amt, tlo), thi)
        return f"{rng.choice(['shl', 'shr'])}.{rng.choice(BINVARS)}:{ty},{amt}"
    if k < 0.78:
        ms = ['ceil', 'floor', 'round', 'round_ties_to_even', 'int', 'frac', 'round_to_zero']
        ms += ['abs', 'signum'] if s else ['next_power_of_two']
        return rng.choice(ms)
    if k < 0.83:
        return f"{rng.choice(['rotate_left', 'rotate_right'])}:{rng.choice([0, 1, n - 1, n, n + 1, 3 * n + 2, rng.randint(0, 1000), 4294967295])}"
    if k < 0.93:
        op = rng.choice(['div_euclid', 'rem_euclid', 'div_euclid_int', 'rem_euclid_int'])
        return f'{op}:{small() if op.endswith("_int") else val()}'
    if k < 0.98:
        op = rng.choice(['sum', 'sum.r', 'product', 'product.r'])
        return f"{op}:{','.join(str(val()) for _ in range(rng.randint(0, 4)))}"
    return rng.choice(['sum0', 'product0', 'product0.r', f'from_bits:{val()}'])

def gen_C18(tier, seed, unit, nunits):
    out = G.corpus('C18') if unit == 0 else []
    for (s, n, f) in unit_layouts(G.typed_layouts(tier), unit, nunits):
        rng = random.Random(f'{seed}/C18/{s}/{n}/{f}')
        E = G.edges(s, n, f)
        # every step kind once on edge operands (single-step programs), then random programs of length 1..12
        for _ in range(scale(tier, 250, 4000)):
            x = G.rand_val(rng, s, n, f, E)
            out.append(f'wprog {s} {n} {f} {x} ' + wstep(rng, s, n, f, E, x))
        for _ in range(scale(tier, 250, 6000)):
            x = G.rand_val(rng, s, n, f, E)
            steps = [wstep(rng, s, n, f, E, x if i == 0 else None) for i in range(rng.randint(2, 12))]
            out.append(f'wprog {s} {n} {f} {x} ' + ' '.join(steps))
    return {'wrap': out}

def le_hex(n, x):
    x &= (1 << n) - 1
    return x.to_bytes(n // 8, 'little').hex()

def gen_C10(tier, seed, unit, nunits):
    out = G.corpus('C10') if unit == 0 else []
    for (s, n, f) in unit_layouts(G.typed_layouts(tier), unit, nunits):
        rng = random.Random(f'{seed}/C10/{s}/{n}/{f}')
        lo, hi = G.rng_range(s, n)
        E = G.edges(s, n, f)
        vals = list(range(lo, hi + 1)) if n == 8 else E + [G.rand_val(rng, s, n, f, E) for _ in range(scale(tier, 150, 5000))]
        out.append(req('max_encoded_len', s, n, f))
        nb = n // 8
        for a in vals:
            for op in ('encode', 'int_encode', 'encoded_size', 'to_le_bytes', 'to_be_bytes', 'to_ne_bytes', 'bits_roundtrip', 'wrapping_bits'):
                out.append(req(op, s, n, f, a))
            h = le_hex(n, a)
            out.append(req('decode', s, n, f, h))
            out.append(req('from_le_bytes', s, n, f, h))
            out.append(req('from_ne_bytes', s, n, f, h))
            out.append(req('from_be_bytes', s, n, f, bytes.fromhex(h)[::-1].hex()))
            # short and long inputs
            k = rng.randrange(nb)
            out.append(req('decode', s, n, f, h[:2 * k] if k else '-'))
            extra = bytes(rng.getrandbits(8) for _ in range(rng.randint(1, 24))).hex()
            out.append(req('decode', s, n, f, h + extra))
        for _ in range(scale(tier, 100, 3000)):
            ln = rng.choice([0, 1, nb - 1, nb, nb + 1, 2 * nb, rng.randint(0, 40)])
            b = bytes(rng.getrandbits(8) for _ in range(ln)).hex() or '-'
            out.append(req('decode', s, n, f, b))
            if ln == nb:
                out.append(req('from_le_bytes', s, n, f, b)); out.append(req('from_be_bytes', s, n, f, b))
    return {'codec': out}

PROPS = {
    'C01': dict(lean_modules=['SfxProps.C01'], bins=['arith'], profiles=['chk', 'rel'], gen=gen_C01, thorough_all_fracs=True),
    'C06': dict(lean_modules=['SfxProps.C06'], bins=['arith'], profiles=['chk', 'rel'], gen=gen_C06, thorough_all_fracs=True),
    'C07': dict(lean_modules=['SfxProps.C07'], bins=['arith'], profiles=['chk', 'rel'], gen=gen_C07, thorough_all_fracs=True),
    'C18': dict(lean_modules=['SfxProps.C18'], bins=['wrap'], profiles=['chk', 'rel'], gen=gen_C18, thorough_all_fracs=True,
                rule='programs of 1..12 Wrapping operations (every impl variant is a distinct step kind); de-duplicated per unit; '
                     'non-trivial = some operand magnitude > 1; evaluations counts program x profile executions'),
    'C10': dict(lean_modules=['SfxProps.C10'], bins=['codec'], profiles=['rel'], gen=gen_C10, thorough_all_fracs=True,
                rule='bit patterns (8-bit exhaustive), their encodings, short/long/random byte strings; de-duplicated per unit; '
                     'non-trivial = operand magnitude > 1 or a byte-string argument',
                assumptions=['serde form {bits}: not exercised (no serde_json in the offline registry); little-endian target for *_ne_bytes']),
    'C02': dict(lean_modules=['SfxProps.C02'], bins=['arith'], profiles=['chk', 'rel'], gen=gen_C02, thorough_all_fracs=True),
}
