"""Per-property configuration: Lean modules holding the theorems, harness bins, profiles, generators."""
import random
import sfxgen as G

def req(op, s, n, f, *args):
    return f"{op} {s} {n} {f} " + ' '.join(str(a) for a in args)

def unit_layouts(layouts, unit, nunits):
    return [L for i, L in enumerate(layouts) if i % nunits == unit]

def scale(tier, q, t):
    return q if tier == 'quick' else t

MUL_FORMS = ['mul', 'checked_mul', 'saturating_mul', 'wrapping_mul', 'overflowing_mul']
DIV_FORMS = ['div', 'checked_div', 'saturating_div', 'wrapping_div', 'overflowing_div']
MUL_VARIANTS = ['mul_rv', 'mul_vr', 'mul_rr', 'mul_assign', 'mul_assign_r']
DIV_VARIANTS = ['div_rv', 'div_vr', 'div_rr', 'div_assign', 'div_assign_r']

def gen_C01(tier, seed, unit, nunits):
    """products and quotients: hooks on all 507 layouts, typed forms on the instantiated set"""
    out = G.corpus('C01') if unit == 0 else []
    for (s, n, f) in unit_layouts(G.all_layouts(), unit, nunits):
        rng = random.Random(f'{seed}/C01/h/{s}/{n}/{f}')
        E = G.edges(s, n, f)
        k = scale(tier, 60, 1500) if n > 8 else scale(tier, 150, 0)
        C = G.crit(s, n, f)
        for a, b in G.mul_pairs(rng, s, n, f, E, k) + [(a, b) for a in C for b in C]:
            out.append(req('h_mul_overflow', s, n, f, a, b))
        for a, b in G.div_pairs(rng, s, n, f, E, k) + [(a, b) for a in C for b in C]:
            out.append(req('h_div_overflow', s, n, f, a, b))
        if n == 8:
            # EXHAUSTIVE in both tiers: every operand pair of every 8-bit layout through both helpers (18 layouts x 65 536 pairs x 2; a few seconds)
            lo, hi = G.rng_range(s, n)
            for a in range(lo, hi + 1):
                for b in range(lo, hi + 1):
                    out.append(req('h_mul_overflow', s, n, f, a, b))
                    out.append(req('h_div_overflow', s, n, f, a, b))
    for (s, n, f) in unit_layouts([(s, n, 0) for s in (0, 1) for n in G.WIDTHS], unit, nunits):
        rng = random.Random(f'{seed}/C01/w/{s}/{n}')
        for d, n1, n0 in G.wide_div_triples(rng, s, n, scale(tier, 3000, 200000)):
            out.append(req('h_div_rem_from', s, n, 0, d, n1, n0))
    for (s, n, f) in unit_layouts(G.typed_layouts(tier), unit, nunits):
        rng = random.Random(f'{seed}/C01/t/{s}/{n}/{f}')
        E = G.edges(s, n, f)
        k = scale(tier, 40, 400)
        C = G.crit(s, n, f)
        CC = [(a, b) for a in C for b in C]
        for a, b in G.mul_pairs(rng, s, n, f, E, k) + CC:
            for op in ['mul', 'checked_mul', 'overflowing_mul'] + [rng.choice(MUL_VARIANTS)]:
                out.append(req(op, s, n, f, a, b))
        for a, b in G.div_pairs(rng, s, n, f, E, k) + CC:
            for op in ['div', 'checked_div', 'overflowing_div'] + [rng.choice(DIV_VARIANTS)]:
                out.append(req(op, s, n, f, a, b))
    return {'arith': out}

UNARY = ['neg', 'abs']
def gen_C02(tier, seed, unit, nunits):
    out = G.corpus('C02') if unit == 0 else []
    forms = ['checked_', 'saturating_', 'wrapping_', 'overflowing_']
    for (s, n, f) in unit_layouts(G.typed_layouts(tier), unit, nunits):
        rng = random.Random(f'{seed}/C02/{s}/{n}/{f}')
        E = G.edges(s, n, f)
        lo, hi = G.rng_range(s, n)
        k = scale(tier, 30, 300)
        pairs = [(rng.choice(E), rng.choice(E)) for _ in range(k)] + \
                [(G.rand_val(rng, s, n, f, E), G.rand_val(rng, s, n, f, E)) for _ in range(k)]
        Cc = G.crit(s, n, f)
        pairs += [(a, b) for a in Cc for b in Cc]
        # sums/differences at the range ends
        for _ in range(k):
            a = G.rand_val(rng, s, n, f, E)
            t = rng.choice([hi, lo, hi + 1, lo - 1])
            pairs.append((a, G.clip(s, n, t - a + rng.randint(-1, 1))))
            pairs.append((a, G.clip(s, n, a - t + rng.randint(-1, 1))))
        for a, b in pairs:
            for base in ('add', 'sub'):
                out.append(req(base, s, n, f, a, b))
                for fm in forms:
                    out.append(req(fm + base, s, n, f, a, b))
        C = G.crit(s, n, f)
        CC = [(a, b) for a in C for b in C]
        for a, b in G.mul_pairs(rng, s, n, f, E, k) + CC:
            for op in MUL_FORMS:
                out.append(req(op, s, n, f, a, b))
        for a, b in G.div_pairs(rng, s, n, f, E, k) + CC:
            for op in DIV_FORMS:
                out.append(req(op, s, n, f, a, b))
        # by integer
        for _ in range(2 * k):
            a = G.rand_val(rng, s, n, f, E)
            r = rng.random()
            if r < 0.4:
                kk = rng.choice([0, 1, -1, 2, -2, 3, 10]) if s else rng.choice([0, 1, 2, 3, 10])
            elif r < 0.7 and a != 0:
                kk = G.clip(s, n, rng.choice([hi, lo, hi + 1, lo - 1]) // a + rng.randint(-1, 1))
            else:
                kk = G.rand_val(rng, s, n, 0, E)
            for op in ['mul_int', 'checked_mul_int', 'saturating_mul_int', 'wrapping_mul_int', 'overflowing_mul_int',
                       'div_int', 'checked_div_int', 'wrapping_div_int', 'overflowing_div_int']:
                out.append(req(op, s, n, f, a, kk))
        # unary
        vals = E + [G.rand_val(rng, s, n, f, E) for _ in range(k)]
        for a in vals:
            for fm in forms:
                out.append(req(fm + 'neg', s, n, f, a))
                if s:
                    out.append(req(fm + 'abs', s, n, f, a))
            if s:
                out.append(req('neg', s, n, f, a))
                out.append(req('abs', s, n, f, a))
    return {'arith': out}

ROUND_OPS = ['int', 'frac', 'round_to_zero'] + [fm + m for m in ('ceil', 'floor', 'round', 'round_ties_to_even')
                                                for fm in ('', 'checked_', 'saturating_', 'wrapping_', 'overflowing_')]
def gen_C06(tier, seed, unit, nunits):
    out = G.corpus('C06') if unit == 0 else []
    for (s, n, f) in unit_layouts(G.typed_layouts(tier), unit, nunits):
        rng = random.Random(f'{seed}/C06/{s}/{n}/{f}')
        lo, hi = G.rng_range(s, n)
        E = G.edges(s, n, f)
        if n == 8 or (n == 16 and tier != 'quick'):
            vals = range(lo, hi + 1)
        else:
            one = 1 << f; half = one >> 1
            vals = set(E)
            for _ in range(scale(tier, 400, 20000)):
                r = rng.random()
                if r < 0.5:
                    # integers, half-integers and their neighbours: q*one + {0, half} + {-1,0,1}
                    q = rng.choice([rng.randint(-4, 4), (lo >> f) + rng.randint(0, 2), (hi >> f) - rng.randint(0, 2), rng.randint(lo >> f, hi >> f)])
                    vals.add(G.clip(s, n, q * one + rng.choice([0, half, one - 1, 1]) + rng.randint(-1, 1)))
                else:
                    vals.add(G.rand_val(rng, s, n, f, E))
            vals = sorted(vals)
        for a in vals:
            for op in ROUND_OPS:
                out.append(req(op, s, n, f, a))
    return {'arith': out}

REM_FIXED = ['rem', 'checked_rem', 'rem_euclid', 'checked_rem_euclid', 'div_euclid', 'checked_div_euclid',
             'saturating_div_euclid', 'wrapping_div_euclid', 'overflowing_div_euclid']
REM_INT = ['rem_int', 'checked_rem_int', 'rem_euclid_int', 'checked_rem_euclid_int', 'wrapping_rem_euclid_int',
           'overflowing_rem_euclid_int', 'div_euclid_int', 'checked_div_euclid_int', 'wrapping_div_euclid_int',
           'overflowing_div_euclid_int']
def gen_C07(tier, seed, unit, nunits):
    out = G.corpus('C07') if unit == 0 else []
    for (s, n, f) in unit_layouts(G.typed_layouts(tier), unit, nunits):
        rng = random.Random(f'{seed}/C07/{s}/{n}/{f}')
        lo, hi = G.rng_range(s, n)
        E = G.edges(s, n, f)
        C = G.crit(s, n, f)
        one = 1 << f
        pairs = [(a, b) for a in C for b in C]
        if n == 8:
            if tier == 'quick':
                pairs += [(a, b) for a in E for b in range(lo, hi + 1)] + [(a, b) for a in range(lo, hi + 1) for b in C]
            else:
                pairs = [(a, b) for a in range(lo, hi + 1) for b in range(lo, hi + 1)]
        k = scale(tier, 150, 3000)
        for _ in range(k):
            r = rng.random()
            b = G.rand_val(rng, s, n, f, E)
            if r < 0.4 and b != 0:
                # a = q*b + r with chosen Euclidean quotient (value-level integer) near the representable integer range
                qmax = hi >> f; qmin = lo >> f
                q = rng.choice([qmax, qmin, qmax + 1, qmin - 1, 0, 1, -1, rng.randint(qmin, qmax)])
                rr = rng.choice([0, 1, abs(b) - 1, rng.randrange(abs(b))])
                pairs.append((G.clip(s, n, q * b + rr), b))
            elif r < 0.6:
                pairs.append((rng.choice(E), rng.choice(E)))
            else:
                pairs.append((G.rand_val(rng, s, n, f, E), b))
        for a, b in pairs:
            for op in REM_FIXED:
                out.append(req(op, s, n, f, a, b))
        # integer divisors: small, range ends, those whose fixed-point image just fits / just overflows
        ks = {0, 1, -1, 2, -2, 3, -3, 10, lo, hi, lo + 1, hi - 1}
        ib = n - f
        for d in (-1, 0, 1):
            for sh in (ib - 2, ib - 1, ib):
                if sh >= 0:
                    ks.update(((1 << sh) + d, -(1 << sh) + d))
        ks = sorted({x for x in ks if lo <= x <= hi})
        ipairs = [(a, kk) for a in C for kk in ks]
        for _ in range(k):
            a = G.rand_val(rng, s, n, f, E)
            r = rng.random()
            if r < 0.5:
                kk = rng.choice(ks)
            elif r < 0.8:
                kk = G.clip(s, n, (a >> f) + rng.randint(-2, 2)) if rng.random() < 0.5 else G.clip(s, n, rng.randint(-20, 20))
            else:
                kk = G.rand_val(rng, s, n, 0, E)
            ipairs.append((a, kk))
        if n == 8 and tier != 'quick':
            ipairs = [(a, kk) for a in range(lo, hi + 1) for kk in range(lo, hi + 1)]
        for a, kk in ipairs:
            for op in REM_INT:
                out.append(req(op, s, n, f, a, kk))
    return {'arith': out}

SHIFT_TYPES = {'i8': (1, 8), 'i16': (1, 16), 'i32': (1, 32), 'i64': (1, 64), 'i128': (1, 128), 'isize': (1, 64),
               'u8': (0, 8), 'u16': (0, 16), 'u32': (0, 32), 'u64': (0, 64), 'u128': (0, 128), 'usize': (0, 64)}
BINVARS = ['vv', 'rv', 'vr', 'rr', 'av', 'ar']
def wstep(rng, s, n, f, E, x_hint=None):
    """one random Wrapping step (text), overflow-biased operands"""
    lo, hi = G.rng_range(s, n)
    def val():
        r = rng.random()
        if r < 0.3 and x_hint is not None:
            t = rng.choice([hi, lo, hi + 1, lo - 1])
            return G.clip(s, n, t - x_hint + rng.randint(-1, 1))
        return G.rand_val(rng, s, n, f, E)
    def small():
        c = [0, 1, -1, 2, -2, 3, 7, 10, lo, hi] if s else [0, 1, 2, 3, 7, 10, hi]
        return rng.choice(c) if rng.random() < 0.7 else G.rand_val(rng, s, n, 0, E)
    k = rng.random()
    if k < 0.30:
        op = rng.choice(['add', 'sub', 'mul', 'div', 'rem', 'bitand', 'bitor', 'bitxor'])
        return f'{op}.{rng.choice(BINVARS)}:{val()}'
    if k < 0.42:
        op = rng.choice(['mul_int', 'div_int', 'rem_int'])
        return f'{op}.{rng.choice(BINVARS)}:{small()}'
    if k < 0.50:
        return rng.choice(['neg', 'neg.r', 'not', 'not.r'])
    if k < 0.65:
        ty = rng.choice(list(SHIFT_TYPES))
        ts, tn = SHIFT_TYPES[ty]
        tlo, thi = G.rng_range(ts, tn)
        amt = rng.choice([0, 1, n - 1, n, n + 1, 2 * n, 2 * n + 3, -1, -n, tlo, thi, rng.randint(0, 300), rng.randint(tlo, thi)])
        amt = min(max(amt, tlo), thi)
        return f"{rng.choice(['shl', 'shr'])}.{rng.choice(BINVARS)}:{ty},{amt}"
    if k < 0.78:
        ms = ['ceil', 'floor', 'round', 'round_ties_to_even', 'int', 'frac', 'round_to_zero']
        ms += ['abs', 'signum'] if s else ['next_power_of_two']
        return rng.choice(ms)
    if k < 0.83:
        return f"{rng.choice(['rotate_left', 'rotate_right'])}:{rng.choice([0, 1, n - 1, n, n + 1, 3 * n + 2, rng.randint(0, 1000), 4294967295])}"
    if k < 0.93:
        op = rng.choice(['div_euclid', 'rem_euclid', 'div_euclid_int', 'rem_euclid_int'])
        return f'{op}:{small() if op.endswith("_int") else val()}'
    if k < 0.98:
        op = rng.choice(['sum', 'sum.r', 'product', 'product.r'])
        return f"{op}:{','.join(str(val()) for _ in range(rng.randint(0, 4)))}"
    return rng.choice(['sum0', 'product0', 'product0.r', f'from_bits:{val()}'])

def gen_C18(tier, seed, unit, nunits):
    out = G.corpus('C18') if unit == 0 else []
    for (s, n, f) in unit_layouts(G.typed_layouts(tier), unit, nunits):
        rng = random.Random(f'{seed}/C18/{s}/{n}/{f}')
        E = G.edges(s, n, f)
        # every step kind once on edge operands (single-step programs), then random programs of length 1..12
        for _ in range(scale(tier, 250, 4000)):
            x = G.rand_val(rng, s, n, f, E)
            out.append(f'wprog {s} {n} {f} {x} ' + wstep(rng, s, n, f, E, x))
        for _ in range(scale(tier, 250, 6000)):
            x = G.rand_val(rng, s, n, f, E)
            steps = [wstep(rng, s, n, f, E, x if i == 0 else None) for i in range(rng.randint(2, 12))]
            out.append(f'wprog {s} {n} {f} {x} ' + ' '.join(steps))
        # the critical values crossed with themselves through every two-operand step (MIN / -1 ulp on an all-fraction type is one pair among 2^(2n):
        # seed s60b reintroduced the repaired defect D3 there and the random programs above did not meet it)
        C = G.crit(s, n, f)
        for x in C:
            for y in C:
                for op in ('add', 'sub', 'mul', 'div', 'rem', 'div_euclid', 'rem_euclid'):
                    var = '' if op.endswith('euclid') else '.' + rng.choice(BINVARS)
                    out.append(f'wprog {s} {n} {f} {x} {op}{var}:{y}')
    # accessor functions of Wrapping<F> that return plain numbers, and its Display impl
    for (s, n, f) in unit_layouts(G.typed_layouts(tier), unit, nunits):
        rng = random.Random(f'{seed}/C18q/{s}/{n}/{f}')
        E = G.edges(s, n, f)
        for fn in ('min_value', 'max_value', 'int_nbits', 'frac_nbits'):
            out.append(f'wq_{fn} {s} {n} {f}')
        vals = E + [G.rand_val(rng, s, n, f, E) for _ in range(scale(tier, 20, 400))]
        for x in vals:
            for fn in ('count_ones', 'count_zeros', 'leading_zeros', 'trailing_zeros', 'display') + (() if s else ('is_power_of_two',)):
                out.append(f'wq_{fn} {s} {n} {f} {x}')
    conv, text = wrapping_entry_points(tier, seed, unit, nunits)
    return {'wrap': out, 'conv': conv, 'text': text}

# `Wrapping::<F>::from_num`, `Wrapping(x).to_num`, `Wrapping::<F>::from_str[_binary|_octal|_hex]` (wrapping.rs) are exercised through their own
# entry points with the operands of the directed conversion / parsing generators
W_ALIAS = [('cv_wrapping_from ', 'cv_wfrom '), ('cv_wrapping ', 'cv_wto '), ('icv_wrapping_from ', 'icv_wfrom '), ('icv_wrapping ', 'icv_wto '),
           ('fcv_wrapping_from ', 'fcv_wfrom ')]
def wrapping_entry_points(tier, seed, unit, nunits):
    conv, text = [], []
    for g in (gen_C04, gen_C05):
        for l in g(tier, seed, unit, nunits).get('conv', []):
            for a, b in W_ALIAS:
                if l.startswith(a):
                    conv.append(b + l[len(a):]); break
    for l in gen_C08(tier, seed, unit, nunits).get('text', []):
        if l.startswith('p_wrapping_'):
            text.append('p_wtype_' + l[len('p_wrapping_'):])
    return conv, text

def le_hex(n, x):
    x &= (1 << n) - 1
    return x.to_bytes(n // 8, 'little').hex()

def gen_C10(tier, seed, unit, nunits):
    out = G.corpus('C10') if unit == 0 else []
    for (s, n, f) in unit_layouts(G.typed_layouts(tier), unit, nunits):
        rng = random.Random(f'{seed}/C10/{s}/{n}/{f}')
        lo, hi = G.rng_range(s, n)
        E = G.edges(s, n, f)
        vals = list(range(lo, hi + 1)) if n == 8 else E + [G.rand_val(rng, s, n, f, E) for _ in range(scale(tier, 150, 5000))]
        out.append(req('max_encoded_len', s, n, f))
        nb = n // 8
        for a in vals:
            for op in ('encode', 'int_encode', 'encoded_size', 'to_le_bytes', 'to_be_bytes', 'to_ne_bytes', 'bits_roundtrip', 'wrapping_bits'):
                out.append(req(op, s, n, f, a))
            # every way the codec hands out a value's encoding (a hand-written Encode can get one of them wrong: seed s40b)
            out.append(req(rng.choice(['encode_using', 'encode_to', 'encode_ref', 'encode_pair', 'encode_size_hint_ok']), s, n, f, a))
            if n == 8 or len(out) % 7 == 0:
                for op in ('encode_using', 'encode_to', 'encode_ref', 'encode_pair'):
                    out.append(req(op, s, n, f, a))
            h = le_hex(n, a)
            out.append(req('decode', s, n, f, h))
            out.append(req('from_le_bytes', s, n, f, h))
            out.append(req('from_ne_bytes', s, n, f, h))
            out.append(req('from_be_bytes', s, n, f, bytes.fromhex(h)[::-1].hex()))
            # short and long inputs
            k = rng.randrange(nb)
            out.append(req('decode', s, n, f, h[:2 * k] if k else '-'))
            extra = bytes(rng.getrandbits(8) for _ in range(rng.randint(1, 24))).hex()
            out.append(req('decode', s, n, f, h + extra))
        for _ in range(scale(tier, 100, 3000)):
            ln = rng.choice([0, 1, nb - 1, nb, nb + 1, 2 * nb, rng.randint(0, 40)])
            b = bytes(rng.getrandbits(8) for _ in range(ln)).hex() or '-'
            out.append(req('decode', s, n, f, b))
            if ln == nb:
                out.append(req('from_le_bytes', s, n, f, b)); out.append(req('from_be_bytes', s, n, f, b))
    return {'codec': out}

CV_FORMS = ['to_num', 'checked', 'saturating', 'wrapping', 'overflowing', 'from_num', 'checked_from', 'saturating_from', 'wrapping_from', 'overflowing_from']
CMP_OPS = ['eq', 'ne', 'lt', 'le', 'gt', 'ge', 'pcmp']

def helper_reqs(rng, tier, out, s, n):
    """to_fixed_helper on a primitive: source frac incl. negative / large (float mantissas), destinations incl. the boundary set"""
    E = G.edges(s, n, 0)
    for _ in range(scale(tier, 1500, 60000)):
        x = G.rand_val(rng, s, n, 0, E)
        sf = rng.choice([rng.randint(0, n), rng.randint(0, n), rng.randint(-200, 200), rng.randint(-1100, 1200), 0, n])
        dn = rng.choice(G.WIDTHS)
        df = rng.randint(0, dn)
        if rng.random() < 0.4:
            df = min(max(sf - rng.choice([0, 1, -1, n - 1, -(n - 1), n, -n, 127, -127, 128, -128, 129, -129]), 0), dn)
        out.append(req('h_to_fixed_helper', s, n, 0, x, sf, df, dn - df))

def gen_C04(tier, seed, unit, nunits):
    out = G.corpus('C04') if unit == 0 else []
    for (s, n) in unit_layouts(G.FAMILIES, unit, nunits):
        rng = random.Random(f'{seed}/C04/h/{s}/{n}')
        helper_reqs(rng, tier, out, s, n)
    P = G.pair_layouts()
    pairs = [(a, b) for a in P for b in P]
    for (A, B) in unit_layouts(pairs, unit, nunits):
        (s1, n1, f1), (s2, n2, f2) = A, B
        rng = random.Random(f'{seed}/C04/p/{A}/{B}')
        E1 = G.edges(s1, n1, f1)
        vals = set(G.crit(s1, n1, f1))
        for _ in range(scale(tier, 12, 250)):
            # a source value whose image is near the destination's range ends or on/off its grid
            b, a = G.related(rng, s2, n2, f2, s1, n1, f1, G.edges(s2, n2, f2))
            vals.add(a)
            vals.add(G.rand_val(rng, s1, n1, f1, E1))
        for x in sorted(vals):
            for fm in (CV_FORMS if tier != 'quick' else rng.sample(CV_FORMS, 4)):
                out.append(req('cv_' + fm, s1, n1, f1, x, s2, n2, f2))
        # the infallible conversions exist only for admissible pairs (the harness answers SKIP for the others)
        adm_int = (n1 - f1 <= n2 - f2) if s1 == s2 else (s1 == 0 and s2 == 1 and n1 - f1 + 1 <= n2 - f2)
        if adm_int:
            for x in sorted(vals):
                out.append(req('cvt_lossy', s1, n1, f1, x, s2, n2, f2))
                if f1 <= f2 and n1 < n2:
                    out.append(req('cvt_from', s1, n1, f1, x, s2, n2, f2))
    for (s, n, f) in unit_layouts(G.small_layouts(), unit, nunits):
        rng = random.Random(f'{seed}/C04/i/{s}/{n}/{f}')
        E = G.edges(s, n, f)
        for ty, (si, ni) in G.INT_TYPES.items():
            Ei = G.edges(si, ni, 0)
            for _ in range(scale(tier, 25, 500)):
                k, x = G.related(rng, si, ni, 0, s, n, f, Ei)
                x2, k2 = G.related(rng, s, n, f, si, ni, 0, E)
                for fm in ('to_num', 'checked', 'saturating', 'wrapping', 'overflowing'):
                    out.append(req('icv_' + fm, s, n, f, x, ty))
                    out.append(req('icv_' + fm, s, n, f, x2, ty))
                for fm in ('from_num', 'checked_from', 'saturating_from', 'wrapping_from', 'overflowing_from'):
                    out.append(req('icv_' + fm, s, n, f, 0, ty, k))
                    out.append(req('icv_' + fm, s, n, f, 0, ty, k2))
        for fm in ('from_num', 'checked_from', 'saturating_from', 'wrapping_from', 'overflowing_from'):
            for bv in (0, 1):
                out.append(req('icv_' + fm, s, n, f, 0, 'bool', bv))
    return {'conv': out}

def gen_C03(tier, seed, unit, nunits):
    out = G.corpus('C03') if unit == 0 else []
    P = G.pair_layouts()
    pairs = [(a, b) for a in P for b in P]
    for (A, B) in unit_layouts(pairs, unit, nunits):
        (s1, n1, f1), (s2, n2, f2) = A, B
        rng = random.Random(f'{seed}/C03/p/{A}/{B}')
        E1 = G.edges(s1, n1, f1)
        cases = [(a, b) for a in G.crit(s1, n1, f1)[:6] for b in G.crit(s2, n2, f2)[:6]]
        for _ in range(scale(tier, 20, 400)):
            cases.append(G.related(rng, s1, n1, f1, s2, n2, f2, E1))
        for a, b in cases:
            for op in (CMP_OPS if tier != 'quick' else rng.sample(CMP_OPS, 3)):
                out.append(req('cmp_' + op, s1, n1, f1, a, s2, n2, f2, b))
    for (s, n, f) in unit_layouts(G.small_layouts(), unit, nunits):
        rng = random.Random(f'{seed}/C03/i/{s}/{n}/{f}')
        E = G.edges(s, n, f)
        for ty, (si, ni) in G.INT_TYPES.items():
            for _ in range(scale(tier, 30, 600)):
                a, k = G.related(rng, s, n, f, si, ni, 0, E)
                op = rng.choice(CMP_OPS)
                out.append(req('icmp_' + op, s, n, f, a, ty, k))
                out.append(req('icmpr_' + rng.choice(CMP_OPS), s, n, f, a, ty, k))
    for (s, n, f) in unit_layouts(G.typed_layouts(tier), unit, nunits):
        rng = random.Random(f'{seed}/C03/f/{s}/{n}/{f}')
        E = G.edges(s, n, f)
        for fmt in ('f32', 'f64'):
            fl = G.float_specials(fmt) + G.layout_floats(rng, fmt, s, n, f, scale(tier, 60, 1500)) + [G.rand_float(rng, fmt) for _ in range(scale(tier, 30, 600))]
            for b in fl:
                # fixed operand: the float's neighbourhood on the grid, or anything
                a = G.rand_val(rng, s, n, f, E)
                if rng.random() < 0.7:
                    try:
                        import struct as _st
                        v = _st.unpack('<f', _st.pack('<I', b))[0] if fmt == 'f32' else _st.unpack('<d', _st.pack('<Q', b))[0]
                        if v == v and abs(v) != float('inf'):
                            from fractions import Fraction as Fr
                            a = G.clip(s, n, int(Fr(v) * (1 << f)) + rng.randint(-2, 2))
                    except Exception:
                        pass
                out.append(req('fcmp_' + rng.choice(CMP_OPS), s, n, f, a, fmt, b))
                out.append(req('fcmpr_' + rng.choice(CMP_OPS), s, n, f, a, fmt, b))
                if rng.random() < 0.3:
                    out.append(req('fcmp_pcmp', s, n, f, a, fmt, b))
        for _ in range(scale(tier, 40, 800)):
            a = G.rand_val(rng, s, n, f, E); b = rng.choice([a, a, G.rand_val(rng, s, n, f, E), G.clip(s, n, a + rng.randint(-1, 1))])
            for op in ('same_cmp', 'same_eq', 'same_hash_eq'):
                out.append(req(op, s, n, f, a, b))
    return {'conv': out}

def gen_C05(tier, seed, unit, nunits):
    out = G.corpus('C05') if unit == 0 else []
    for (s, n, f) in unit_layouts(G.all_layouts(), unit, nunits):
        rng = random.Random(f'{seed}/C05/h/{s}/{n}/{f}')
        E = G.edges(s, n, f)
        for fmt, (nb, prec) in G.FLOATS.items():
            fl = G.float_specials(fmt) + G.layout_floats(rng, fmt, s, n, f, scale(tier, 25, 600)) + [G.rand_float(rng, fmt) for _ in range(scale(tier, 10, 300))]
            for b in fl:
                out.append(req('h_to_float_kind', 0, nb, 0, b, f, n - f))
            if s == 0:
                mags = {0, 1, 2, 3, (1 << n) - 1, (1 << n) - 2, 1 << (n - 1), (1 << (n - 1)) - 1}
                for _ in range(scale(tier, 30, 800)):
                    k = rng.randint(0, n)
                    m = rng.getrandbits(k) if k else 0
                    # rounding-boundary magnitudes: prec significant bits followed by 100..0 / 011..1 / 100..01
                    if rng.random() < 0.5 and k > prec + 1:
                        top = (m >> (k - prec)) << (k - prec)
                        m = top | rng.choice([1 << (k - prec - 1), (1 << (k - prec - 1)) - 1, (1 << (k - prec - 1)) + 1, 0])
                    mags.add(m)
                for m in sorted(mags):
                    out.append(req('h_from_to_float', 0, nb, 0, rng.getrandbits(1), m, f, n - f))
    for (s, n, f) in unit_layouts(G.typed_layouts(tier), unit, nunits):
        rng = random.Random(f'{seed}/C05/t/{s}/{n}/{f}')
        E = G.edges(s, n, f)
        for fmt, (nb, prec) in G.FLOATS.items():
            fl = G.float_specials(fmt) + G.layout_floats(rng, fmt, s, n, f, scale(tier, 40, 1000)) + [G.rand_float(rng, fmt) for _ in range(scale(tier, 15, 400))]
            for b in fl:
                for fm in ('from_num', 'checked_from', 'saturating_from', 'wrapping_from', 'overflowing_from'):
                    out.append(req('fcv_' + fm, s, n, f, 0, fmt, b))
            vals = set(E)
            for _ in range(scale(tier, 40, 1000)):
                k = rng.randint(0, n)
                m = rng.getrandbits(k) if k else 0
                if rng.random() < 0.5 and k > prec + 1:
                    top = (m >> (k - prec)) << (k - prec)
                    m = top | rng.choice([1 << (k - prec - 1), (1 << (k - prec - 1)) - 1, (1 << (k - prec - 1)) + 1, 0])
                vals.add(G.clip(s, n, m if not s or rng.random() < 0.5 else -m))
            for x in sorted(vals):
                out.append(req('fcv_to', s, n, f, x, fmt))
            for x in list(sorted(vals))[:5]:
                out.append(req('fcv_to_checked', s, n, f, x, fmt)); out.append(req('fcv_to_overflowing', s, n, f, x, fmt))
            for x in list(sorted(vals))[::7]:
                out.append(req('fcv_to_saturating', s, n, f, x, fmt)); out.append(req('fcv_to_wrapping', s, n, f, x, fmt))
    return {'conv': out}

def treq(op, S, x, D=None, *extra):
    if D is None:
        return req(op, S[0], S[1], S[2], x)
    return req(op, S[0], S[1], S[2], x, D[0], D[1], D[2], *extra)

def math_reqs(tier, seed, unit, nunits, ops, tag):
    out = []
    import math
    work = []
    if 'sqrt' in ops:
        work += [('t_sqrt', S, D) for S, D in G.MATH_ANY + G.MATH_UNSIGNED_D]
    for o in ('log2', 'ln', 'exp', 'pow'):
        if o in ops:
            work += [('t_' + o, S, D) for S, D in G.MATH_SIGNED]
    if 'powi' in ops:
        work += [('t_powi', S, D) for S, D in G.MATH_ANY]
    for o in ('sin', 'cos', 'tan'):
        if o in ops:
            work += [('t_' + o, T, None) for T in G.TRIG]
    for (op, S, D) in unit_layouts(work, unit, nunits):
        rng = random.Random(f'{seed}/{tag}/{op}/{S}/{D}')
        s, n, f = S
        one = 1 << f
        lo, hi = G.rng_range(s, n)
        k = scale(tier, 1000, 12000)
        if op in ('t_sqrt', 't_log2', 't_ln'):
            for x in G.math_vals(rng, s, n, f, k):
                out.append(treq(op, S, x, D))
        elif op == 't_exp':
            vals = set(G.math_vals(rng, s, n, f, k // 2))
            for _ in range(k):
                # the whole range where exp can return Ok: |x| up to ~ (int bits) * ln 2
                lim = (D[1] - D[2]) * 0.7
                v = int(rng.uniform(-lim - 2, lim + 2) * one)
                vals.add(G.clip(s, n, v))
            for x in sorted(vals):
                out.append(treq(op, S, x, D))
        elif op == 't_pow':
            xs = G.math_vals(rng, s, n, f, 40)
            for _ in range(k):
                x = rng.choice(xs) if rng.random() < 0.3 else G.clip(s, n, int(rng.uniform(0.01, 40) * one))
                y = rng.choice([0, one, -one, 2 * one, one >> 1, 3 * one]) if rng.random() < 0.3 else G.clip(s, n, int(rng.uniform(-8, 8) * one))
                out.append(treq(op, S, x, D, y))
            # x = 1 +- j ulp with a huge exponent: ln's ABSOLUTE error (up to 8 ulp, C14) is multiplied by |y| (finding D16 and its boundary)
            for _ in range(k // 8):
                j = rng.choice([1, 1, 2, 3, 5, 17, 100])
                x = one + rng.choice([1, -1]) * j
                t = rng.uniform(0.05, 8)                      # target |y ln x|
                ybits = int(t * one * one / j) * rng.choice([1, -1])
                out.append(treq(op, S, G.clip(s, n, x), D, G.clip(s, n, ybits)))
            # whole-number exponents far above the iteration bound with bases that never overflow (|x| <= 1 or x = 1 +- j ulp): a pow that
            # special-cases integer exponents through the linear-time powi does unbounded work exactly here (C17), nowhere near the edge values
            for kexp in (5, 17, 100, 250, 1000, 4097, 65536):
                for xb in (one - 1, one + 1, one - (one >> 7), one >> 1, (one * 99) // 100, one + (one >> 12)):
                    for sg in (1, -1):
                        yb = sg * kexp * one
                        if lo <= yb <= hi:
                            out.append(treq(op, S, xb, D, yb))
        elif op == 't_powi':
            xs = G.math_vals(rng, s, n, f, 40)
            edge_n = [0, 1, -1, 2, -2, 3, 7, -7, 31, 32, 33, 63, 64, 127, 128, 1000, -1000]
            big_n = [2147483647, -2147483647, -2147483648, 65536, -65536]
            for _ in range(k):
                x = rng.choice(xs) if rng.random() < 0.4 else G.clip(s, n, int(rng.uniform(-3, 3) * one))
                nn = rng.choice(edge_n) if rng.random() < 0.6 else rng.randint(-200, 200)
                out.append(treq(op, S, x, D, nn))
                if nn < 0:
                    out.append(treq(op, S, x, D, -nn))     # twin request: the oracle judges "powi(x, n) = truncated reciprocal of powi(x, |n|)" on the pair
            for x in (0, 2 * one, G.clip(s, n, -2 * one), 3 * one, hi, lo, 10 * one):
                for nn in big_n:
                    out.append(treq(op, S, x, D, nn))
            if n == 128 and S == D:
                # squares at the limb-carry boundary of the 128-bit product (powi is repeated checked_mul): a ~2^-63 event for random operands
                for _ in range(scale(tier, 60, 600)):
                    x = G.limb_carry_square(rng, s, n)
                    for nn in (2, 3, -2):
                        out.append(treq(op, S, x, D, nn))
        else:
            vals = {0, 1, -1, hi, lo, hi - 1, lo + 1, one, -one}
            lim = 100 if op == 't_tan' else 200
            for _ in range(k):
                r = rng.random()
                if r < 0.5:
                    v = int(rng.uniform(-lim, lim) * one)
                elif r < 0.8:
                    # neighbourhoods of k*pi/2 (and k*pi/4 for tan)
                    q = rng.randint(-int(lim / (math.pi / 4)), int(lim / (math.pi / 4)))
                    v = int(q * (math.pi / 4) * one) + rng.randint(-4, 4) * (1 << max(0, f - 23)) + rng.randint(-3, 3)
                elif r < 0.9:
                    v = rng.randint(-lim * one, lim * one) >> rng.randint(0, f) << rng.randint(0, 3)
                else:
                    v = G.rand_val(rng, s, n, f, [0, 1, hi, lo])
                vals.add(G.clip(s, n, v))
            for x in sorted(vals):
                out.append(treq(op, S, x))
    if unit == 0:
        out.append('t_consts 1 32 23 0')
    return {'math': out}

ALL_MATH = ['sqrt', 'log2', 'ln', 'exp', 'pow', 'powi', 'sin', 'cos', 'tan']
def gen_C12(tier, seed, unit, nunits): return {'math': G.corpus('C12') * (unit == 0) + math_reqs(tier, seed, unit, nunits, ALL_MATH, 'C12')['math']}
def gen_C13(tier, seed, unit, nunits): return {'math': G.corpus('C13') * (unit == 0) + math_reqs(tier, seed, unit, nunits, ['sqrt'], 'C13')['math']}
def gen_C14(tier, seed, unit, nunits): return {'math': G.corpus('C14') * (unit == 0) + math_reqs(tier, seed, unit, nunits, ['log2', 'ln'], 'C14')['math']}
def gen_C15(tier, seed, unit, nunits): return {'math': G.corpus('C15') * (unit == 0) + math_reqs(tier, seed, unit, nunits, ['exp', 'pow', 'powi'], 'C15')['math']}
def gen_C16(tier, seed, unit, nunits): return {'math': G.corpus('C16') * (unit == 0) + math_reqs(tier, seed, unit, nunits, ['sin', 'cos', 'tan'], 'C16')['math']}
def gen_C17(tier, seed, unit, nunits): return {'math': G.corpus('C17') * (unit == 0) + math_reqs(tier, seed, unit, nunits, ['sqrt', 'log2', 'ln', 'exp', 'pow', 'sin', 'cos', 'tan'], 'C17')['math']}

def hexs(b):
    return b.hex() if b else '-'

PARSE_FORMS = ['plain', 'saturating', 'wrapping', 'overflowing']
def gen_C08(tier, seed, unit, nunits):
    out = G.corpus('C08') if unit == 0 else []
    for (s, n, f) in unit_layouts(G.all_layouts(), unit, nunits):
        rng = random.Random(f'{seed}/C08/h/{s}/{n}/{f}')
        for radix in (10, 10, 2, 8, 16):
            for _ in range(scale(tier, 25, 700)):
                out.append(req('h_from_str', s, n, f, radix, hexs(G.literal_for(rng, s, n, f, radix).encode())))
            for _ in range(scale(tier, 4, 60)):
                out.append(req('h_from_str', s, n, f, radix, hexs(G.malformed(rng, radix))))
    for (s, n, f) in unit_layouts(G.typed_layouts(tier), unit, nunits):
        rng = random.Random(f'{seed}/C08/t/{s}/{n}/{f}')
        for radix in (10, 2, 8, 16):
            for _ in range(scale(tier, 30, 600)):
                h = hexs(G.literal_for(rng, s, n, f, radix).encode())
                for fm in PARSE_FORMS:
                    out.append(req(f'p_{fm}_{radix}', s, n, f, h))
            for _ in range(scale(tier, 6, 60)):
                h = hexs(G.malformed(rng, radix))
                out.append(req(f'p_{rng.choice(PARSE_FORMS)}_{radix}', s, n, f, h))
            if radix in (10, 16):
                # the error's Display text: malformed literals of every kind, overflowing and parsing literals
                for _ in range(scale(tier, 4, 40)):
                    out.append(req(f'p_errmsg_{radix}', s, n, f, hexs(G.malformed(rng, radix))))
                    out.append(req(f'p_errmsg_{radix}', s, n, f, hexs(G.literal_for(rng, s, n, f, radix).encode())))
    return {'text': out}

def gen_C09(tier, seed, unit, nunits):
    out = G.corpus('C09') if unit == 0 else []
    for (s, n, f) in unit_layouts(G.all_layouts(), unit, nunits):
        rng = random.Random(f'{seed}/C09/h/{s}/{n}/{f}')
        for x in G.fmt_vals(rng, s, n, f, scale(tier, 12, 400)):
            for _ in range(2):
                sp = G.fmt_spec(rng, ['d', 'd', 'b', 'o', 'x', 'X'])
                out.append(req('h_fmt', s, n, f, *sp, x))
            out.append(req('h_fmt', s, n, f, 'd', 'n', 0, 0, 0, '-', '-', x))
            out.append(req('h_fmt', s, n, f, 'd', 'n', 0, 0, 0, '-', rng.randint(0, 12), x))
    for (s, n, f) in unit_layouts(G.typed_layouts(tier), unit, nunits):
        rng = random.Random(f'{seed}/C09/t/{s}/{n}/{f}')
        lo, hi = G.rng_range(s, n)
        vals = range(lo, hi + 1) if n == 8 else G.fmt_vals(rng, s, n, f, scale(tier, 60, 2500))
        for x in vals:
            out.append(req('rt', s, n, f, x))
            sp = G.fmt_spec(rng, ['d', 'D', 'b', 'o', 'x', 'X'])
            out.append(req('f_fmt', s, n, f, *sp, x))
            if n == 8:
                out.append(req('f_fmt', s, n, f, 'd', 'n', 0, 0, 0, '-', rng.randint(0, 12), x))
    return {'text': out}

C11_PARTS = [('C01', 4), ('C02', 4), ('C06', 6), ('C07', 8), ('C18', 1), ('C04', 3), ('C05', 3), ('C03', 6), ('C12', 2), ('C08', 2), ('C09', 2), ('C10', 6), ('XBITS', 6)]
def gen_C11(tier, seed, unit, nunits):
    """the union corpus: every family's requests (sub-sampled in quick), run under both build profiles"""
    out = {}
    for prop, stride in C11_PARTS:
        if prop not in PROPS or not PROPS[prop].get('in_c11', True):
            continue
        part = PROPS[prop]['gen'](tier, seed, unit, nunits)
        for b, lines in part.items():
            sel = lines if tier != 'quick' else lines[::stride]
            if tier == 'quick' and prop == 'C05':
                # the exhaustive 16-bit-float hook sweep belongs to C05; the union corpus keeps every 16th of what the stride left
                hk = [l for l in sel if l.startswith('h_to_float_kind 0 16 ')]
                keep = set(hk[::16])
                sel = [l for l in sel if not l.startswith('h_to_float_kind 0 16 ') or l in keep]
            out.setdefault(b, []).extend(sel)
    if unit == 0:
        for b, lines in out.items():
            pass
    return out

import gen_ext_ops, gen_ext_from, gen_ext_bits, gen_ext_serde, gen_ext_cast, gen_ext_f16
def gen_C10x(tier, seed, unit, nunits):
    """C10 requests + the serde representation through serde_json / serde_cbor (tools/gen_ext_serde.py)"""
    out = dict(gen_C10(tier, seed, unit, nunits))
    for b, lines in gen_ext_serde.gen(tier, seed, unit, nunits).items():
        out.setdefault(b, []).extend(lines)
    return out
def gen_C05x(tier, seed, unit, nunits):
    """C05 requests + the From / LossyFrom<Fixed> for f32|f64 impls and lossy_into (tools/gen_ext_from.py)"""
    out = dict(gen_C05(tier, seed, unit, nunits))
    for b, lines in gen_ext_from.gen(tier, seed, unit, nunits).items():
        out.setdefault(b, []).extend(l for l in lines if l.startswith('fcvt_'))
    # the `az` float casts of src/cast.rs (feature az; tools/gen_ext_cast.py)
    for b, lines in gen_ext_cast.gen(tier, seed, unit, nunits).items():
        out.setdefault(b, []).extend(l for l in lines if l.startswith('azf_'))
    # half::f16 / half::bf16 (feature f16; tools/gen_ext_f16.py): every 16-bit pattern through the generic float code.  The comparison requests go to C03.
    # Not taken: f64 -> f16/bf16 with non-zero low 32 bits (convert.rs forwards to half::from_f64, which drops them without a sticky bit: a double rounding
    # inside the `half` dependency, float -> float, outside every listed property; see DESIGN.md 13.11)
    for b, lines in gen_ext_f16.gen(tier, seed, unit, nunits).items():
        out.setdefault(b, []).extend(l for l in lines if not l.startswith('fcmp') and not _half_from_f64_inexact(l))
    return out
def _half_from_f64_inexact(l):
    p = l.split(' ')
    return p[0].startswith('pcvt_') and len(p) >= 7 and p[4] == 'f64' and p[6] in ('f16', 'bf16') and int(p[5]) % (1 << 32) != 0
def gen_C03x(tier, seed, unit, nunits):
    """C03 requests + the comparisons with half::f16 / half::bf16 (feature f16; tools/gen_ext_f16.py)"""
    out = dict(gen_C03(tier, seed, unit, nunits))
    for b, lines in gen_ext_f16.gen(tier, seed, unit, nunits).items():
        out.setdefault(b, []).extend(l for l in lines if l.startswith('fcmp'))
    return out
def gen_C07x(tier, seed, unit, nunits):
    """C07 requests + the integer-remainder forms and `%` impl variants of tools/gen_ext_bits.py"""
    out = dict(gen_C07(tier, seed, unit, nunits))
    for b, lines in gen_ext_bits.gen(tier, seed, unit, nunits).items():
        out.setdefault(b, []).extend(l for l in lines if 'rem' in l.split(' ', 1)[0])
    return out
def gen_XBITS(tier, seed, unit, nunits):
    """shift forms, bit inspection, signum, next_power_of_two, type constants, trait/inherent duplicates (tools/gen_ext_bits.py); part of C11's union corpus"""
    return gen_ext_bits.gen(tier, seed, unit, nunits)
def gen_C04x(tier, seed, unit, nunits):
    """C04 requests + the type-level From / LossyFrom impls between fixed-point types and primitives (tools/gen_ext_from.py)"""
    out = dict(gen_C04(tier, seed, unit, nunits))
    for b, lines in gen_ext_from.gen(tier, seed, unit, nunits).items():
        out.setdefault(b, []).extend(lines)
    # the `az` casts fixed <-> fixed / integer / bool of src/cast.rs (feature az; tools/gen_ext_cast.py)
    for b, lines in gen_ext_cast.gen(tier, seed, unit, nunits).items():
        out.setdefault(b, []).extend(l for l in lines if not l.startswith('azf_'))
    return out
def gen_C02x(tier, seed, unit, nunits):
    """C02 requests + the operator trait impls of plain F in every variant (`fprog`, tools/gen_ext_ops.py)"""
    out = dict(gen_C02(tier, seed, unit, nunits))
    for b, lines in gen_ext_ops.gen(tier, seed, unit, nunits).items():
        out.setdefault(b, []).extend(lines)
    return out

PROPS = {
    'C01': dict(lean_modules=['SfxProps.C01', 'SfxProps.C01Spec'], bins=['arith'], profiles=['chk', 'rel'], gen=gen_C01, thorough_all_fracs=True,
                exhaustive_parts=['mul_overflow / div_overflow helpers: every operand pair of every 8-bit layout (18 x 65 536), both tiers, both profiles']),
    'C06': dict(lean_modules=['SfxProps.C06', 'SfxProps.C06Spec'], bins=['arith'], profiles=['chk', 'rel'], gen=gen_C06, thorough_all_fracs=True),
    'C07': dict(lean_modules=['SfxProps.C07', 'SfxProps.C07Forms', 'SfxProps.C07Spec'], bins=['arith'], profiles=['chk', 'rel'], gen=gen_C07x, thorough_all_fracs=True),
    'XBITS': dict(lean_modules=['SfxProps.C11Bits'], bins=['arith'], profiles=['chk', 'rel'], gen=gen_XBITS),   # not a property: a part of C11's corpus
    'C18': dict(lean_modules=['SfxProps.C18', 'SfxProps.C18Entry', 'SfxProps.C02Spec'], bins=['wrap', 'conv', 'text'], profiles=['chk', 'rel'], gen=gen_C18, thorough_all_fracs=True,
                rule='programs of 1..12 Wrapping operations (every impl variant is a distinct step kind); de-duplicated per unit; '
                     'non-trivial = some operand magnitude > 1; evaluations counts program x profile executions'),
    'C10': dict(lean_modules=['SfxProps.C10', 'SfxProps.C10Serde', 'SfxProps.C10Spec'], bins=['codec'], profiles=['chk', 'rel'], gen=gen_C10x, thorough_all_fracs=True,
                rule='bit patterns (8-bit exhaustive), their encodings, short/long/random byte strings; de-duplicated per unit; '
                     'non-trivial = operand magnitude > 1 or a byte-string argument',
                assumptions=['serde: exercised through serde_json 1.0.151 / serde_cbor 0.11.2 with default features only; little-endian target for *_ne_bytes']),
    'C03': dict(lean_modules=['SfxProps.C03', 'SfxProps.C03Half', 'SfxProps.C03Spec'], bins=['conv'], profiles=['rel'], gen=gen_C03x),
    'C04': dict(lean_modules=['SfxProps.C04', 'SfxProps.C04Prim', 'SfxProps.C04Cast', 'SfxProps.C04Spec'], bins=['conv', 'cast'], profiles=['chk', 'rel'], gen=gen_C04x),
    'C05': dict(lean_modules=['SfxProps.C05', 'SfxProps.C05Half', 'SfxProps.C04Cast', 'SfxProps.C05Spec'], bins=['conv', 'cast'], profiles=['chk', 'rel'], gen=gen_C05x,
                exhaustive_parts=['to_float_kind for half::f16 and half::bf16: all 65 536 bit patterns x 10 (width, frac) pairs in quick, x all 253 pairs in thorough',
                                  'checked_from_num(f16|bf16): all 65 536 patterns on I1F7 and U8F8 in quick, on every typed layout in thorough']),
    'C12': dict(lean_modules=['SfxProps.C12', 'SfxProps.C12Tan', 'SfxProps.C12Pairs'], bins=['math'], profiles=['chk', 'rel'], gen=gen_C12),
    'C13': dict(lean_modules=['SfxProps.C13', 'SfxProps.C13Real'], bins=['math'], profiles=['rel'], gen=gen_C13, oracle=True),
    'C14': dict(lean_modules=['SfxProps.C14'], bins=['math'], profiles=['rel'], gen=gen_C14, oracle=True),
    'C15': dict(lean_modules=['SfxProps.C15', 'SfxProps.C15Acc', 'SfxProps.C15Pairs'], bins=['math'], profiles=['rel'], gen=gen_C15, oracle=True),
    'C16': dict(lean_modules=['SfxProps.C16', 'SfxProps.C16Acc'], bins=['math'], profiles=['rel'], gen=gen_C16, oracle=True),
    'C17': dict(lean_modules=['SfxProps.C17'], bins=['math'], profiles=['rel'], gen=gen_C17, spec_ignore=r'spec=Ok_for_a_result_that_does_not_fit'),
    'C08': dict(lean_modules=['SfxProps.C08', 'SfxProps.C08Holds', 'SfxProps.C08Spec'], bins=['text'], profiles=['chk', 'rel'], gen=gen_C08),
    'C09': dict(lean_modules=['SfxProps.C09', 'SfxProps.C09Verdict'], bins=['text'], profiles=['chk', 'rel'], gen=gen_C09),
    'C11': dict(lean_modules=['SfxProps.C11', 'SfxProps.C11Bits'], bins=['arith', 'wrap', 'conv', 'math', 'text', 'codec', 'cast'], profiles=['chk', 'rel'], gen=gen_C11, spec_ignore=r'spec=Ok_for_a_result_that_does_not_fit',
                rule='union of the request corpora of C01 C02 C06 C07 C18 C04 C05 C03 C12 C08 C09 C10 and the shift/bit-inspection family (sub-sampled in quick), each request executed by the harness built with and '
                     'without debug assertions/overflow checks and compared with the model projections; non-trivial = some operand magnitude > 1'),
    'C02': dict(lean_modules=['SfxProps.C02', 'SfxProps.C02Ops', 'SfxProps.C02Spec'], bins=['arith', 'wrap'], profiles=['chk', 'rel'], gen=gen_C02x, thorough_all_fracs=True),
}
