#!/bin/bash
# usage: seed_eval2.sh <seed id> <worktree> <subdir with patch.diff demo.rs README.md> <checks to run, e.g. "C02 C11">
# Like seed_eval.sh, but the checks run in a private sandbox copy (tools/sandbox.sh), so /repo and /verif/evidence are never touched
# and several seeds can be evaluated at the same time.
# 1. confirms in the scratch worktree: 66 tests pass with the change, demo fails with it and passes without it
# 2. stores the seed under /verif/seeded/<id>/, runs the named quick checks in the sandbox with the change applied, removes the sandbox
set -u
ID="$1"; WT="$2"; SUB="$3"; CHECKS="$4"
export CARGO_NET_OFFLINE=true
DST=/verif/seeded/$ID; mkdir -p $DST
cp "$WT/$SUB/patch.diff" "$WT/$SUB/demo.rs" $DST/ 2>/dev/null; cp "$WT/$SUB/README.md" $DST/README.md 2>/dev/null
cd "$WT" && git checkout -q -- src && rm -f tests/seed_demo.rs
mkdir -p tests && cp $DST/demo.rs tests/seed_demo.rs
: > $DST/confirm_output.txt
{
echo "== demo WITHOUT the change (must pass)"; cargo test --offline ${SEED_FEATURES:-} --test seed_demo 2>&1 | grep -E "^test result|error\[" | head -3
git apply $DST/patch.diff || { echo "PATCH DOES NOT APPLY"; exit 2; }
echo "== 66 unit tests WITH the change (must pass)"; cargo test --offline --lib 2>&1 | grep -E "^test result" | head -2
echo "== doc tests WITH the change"; cargo test --offline --doc 2>&1 | grep -E "^test result" | head -2
echo "== demo WITH the change (must fail)"; cargo test --offline ${SEED_FEATURES:-} --test seed_demo 2>&1 | grep -E "^test result|panicked" | sort -r | head -4
} 2>&1 | tee -a $DST/confirm_output.txt
git checkout -q -- src; rm -f tests/seed_demo.rs
SB=/root/sbx/$ID
/verif/tools/sandbox.sh $SB $DST/patch.diff > /dev/null || { echo "SANDBOX/PATCH FAILED"; exit 2; }
: > $DST/check_output.txt
for c in $CHECKS; do
  SFX_REPO=$SB/repo timeout 1800 $SB/verif/check.sh $c quick > $SB/out.$c 2>&1; rc=$?
  echo "--- $c rc=$rc" | tee -a $DST/check_output.txt
  grep -E "VIOLATION|KNOWN-FINDING|^C[0-9]+ quick" $SB/out.$c | sed "s#$SB/verif#/verif#g" | cut -c1-300 | tee -a $DST/check_output.txt
  rp=$(grep -oE "replay=[^ ]+" $SB/out.$c | head -1 | cut -d= -f2)
  if [ -n "$rp" ] && [ -f "$rp" ]; then head -8 "$rp" | cut -c1-220 | tee -a $DST/check_output.txt; fi
done
rm -rf $SB
