#!/bin/bash
# reeval_seeds.sh <sandbox dir> <seed id>...   — regression test of the machinery: re-applies recorded seeded changes (seeded/<id>/patch.diff) in a private
# sandbox copy and re-runs the quick checks named in their meta.json; prints caught / MISSED per seed.  /repo is never touched.
set -u
SB="$1"; shift
for id in "$@"; do
  d=/verif/seeded/$id
  [ -f $d/patch.diff ] || { echo "$id: no patch"; continue; }
  /verif/tools/sandbox.sh $SB $d/patch.diff > /dev/null 2>&1 || { echo "$id: PATCH DOES NOT APPLY (the repository moved on?)"; continue; }
  checks=$(python3 -c "import json; m=json.load(open('$d/meta.json')); print(' '.join(c for c, v in m['checks'].items() if v.get('violation_reported')))")
  res=""
  for c in $checks; do
    out=$(SFX_REPO=$SB/repo timeout 1500 $SB/verif/check.sh $c quick 2>&1 | grep -E "^VIOLATION" | head -1)
    if [ -z "$out" ]; then res="$res $c:MISSED"; elif echo "$out" | grep -q no-failing-input-found; then res="$res $c:caught(no-failing-input)"; else res="$res $c:caught"; fi
  done
  echo "$id:$res"
done
rm -rf $SB
