#!/usr/bin/env python3
"""Writes /verif/MANIFEST.json from tools/manifest_data.py (kept valid at all times)."""
import json, sys
sys.path.insert(0, '/verif/tools')
import manifest_data as D
ids = [json.loads(l)['id'] for l in open('/verif/properties.jsonl')]
checks = []
for pid in ids:
    if pid in D.CLAIMED:
        c = D.CLAIMED[pid]
        checks.append({
            'property_id': pid,
            'quick_cmd': f'./check.sh {pid} quick',
            'thorough_cmd': f'./check.sh {pid} thorough',
            'evidence_file': f'/verif/evidence/{pid}.json',
            'replay_cmd_template': './check.sh replay {path}',
            'engine': 'lean4-proof+correspondence',
            'level_claimed': {'category': 'proof', 'text': c['text'], 'design_ref': c['design_ref']},
            'level_note': c['note'],
            'technique': c['technique'],
        })
m = {
    'version': 1,
    'setup_cmd': './check.sh setup',
    'hooks': {
        'guard': '--cfg substrate_fixed_verif',
        'enable': 'RUSTFLAGS="--cfg substrate_fixed_verif" (set in /verif/harness/.cargo/config.toml); the harness depends on /repo by path, so every check rebuilds the crate from the working tree',
        'baseline_off_cmd': 'cd /repo && CARGO_NET_OFFLINE=true cargo test --workspace --no-fail-fast --offline',
        'source_commits': D.HOOK_COMMITS,
        'add_only': True,
    },
    'engines': [{
        'name': 'lean4-proof+correspondence',
        'path': '/verif/lean, /verif/harness, /verif/tools',
        'serves_properties': sorted(D.CLAIMED),
        'kind_free_text': 'Lean 4 theorems over a hand-written executable model (SfxModel) + translator for data (Generated.lean) + differential correspondence (Rust harness in two build profiles vs compiled Lean driver)',
    }],
    'checks': checks,
    'notes': D.NOTES,
    'not_applicable': [{'property_id': p, 'reason': D.NOT_YET.get(p, 'check not built yet (work in progress; planned per DESIGN.md section 12)')} for p in ids if p not in D.CLAIMED],
}
json.dump(m, open('/verif/MANIFEST.json', 'w'), indent=1)
print('MANIFEST.json:', len(checks), 'claimed,', len(m['not_applicable']), 'not claimed')
