"""Request generator for the serde representation of the fixed-point types and of `Wrapping<F>` (serdeize.rs, crate feature `serde`),
driven through serde_json and serde_cbor.  Bin `codec`; ops and formats: see harness/src/ext_serde.rs.

Serializer side (`serde_ser[_pretty][_w]`, `serde_cbor_ser[_w]`, round trips `serde_rt[_w]`, `serde_val[_w]`, `serde_cbor_rt[_w]`):
all 10 families, fractional bits {0, 1, mid, n-1, n} (the representation must not depend on them), operands MIN, MAX, 0, +-1, powers of
two and neighbours, powers of ten and neighbours (digit-count boundaries of the decimal printer), the width boundaries of the CBOR
integer heads (23/24, 2^8, 2^16, 2^32, 2^64 and the negative counterparts), the `i64`/`u64` ends (serde_json's `Number`), random mixtures.

Reader side (`serde_de[_w]`): the serializer's outputs, the sequence form `[v]`, white-space variants, escaped spellings of the key, and
one generator per rejection class (extra / missing array elements, nesting, floats and exponents, `-0`, leading zeros, `+`, values just
outside the type and outside i64/u64/i128/u128, strings, null, booleans, trailing bytes, unknown / duplicate / missing / misspelt keys,
syntax damage, every proper prefix, non-UTF-8 bytes, BOM, comments, foreign white space), plus random byte mutations of valid texts
(the model's reader is total: it claims an answer for every byte string).  `serde_cbor_de[_w]` likewise for CBOR: canonical outputs, every
width of every head (integer, map / array / key length), indefinite-length maps / arrays / chunked keys, tags (with the nesting limit),
and the rejection classes (length 0 / 2, wrong / non-text key, non-integer value, out of range, unassigned codes, trailing bytes,
prefixes), plus random mutations.
"""
import random
import sfxgen as G

def req(op, s, n, f, *args):
    return f"{op} {s} {n} {f} " + ' '.join(str(a) for a in args)

def scale(tier, q, t):
    return q if tier == 'quick' else t

def hx(b):
    return b.hex() or '-'

WS = [b' ', b'\n', b'\t', b'\r']

def ser_fracs(n):
    return [0, 1, n // 2, n - 1, n]

def de_fracs(n):
    return [0, n // 2, n]

def values(rng, s, n, nrand):
    lo, hi = G.rng_range(s, n)
    c = {0, 1, -1, 2, -2, lo, lo + 1, hi, hi - 1, 23, 24, 25, -24, -25, -26}
    for k in range(n + 1):
        p = 1 << k
        c.update((p, p - 1, p + 1, -p, -p - 1, -p + 1, -p - 2))
    p = 1
    while p <= (1 << n):
        c.update((p, p - 1, p + 1, -p, -p + 1, -p - 1))
        p *= 10
    E = sorted(x for x in c if lo <= x <= hi)
    return E + [G.rand_val(rng, s, n, 0, E) for _ in range(nrand)]

def outside(s, n):
    """integers that are not values of the Bits type: just outside, and outside every wider primitive"""
    lo, hi = G.rng_range(s, n)
    c = {lo - 1, lo - 2, hi + 1, hi + 2, 1 << n, -(1 << n), (1 << n) + 1, 10 ** 60, -10 ** 60, 10 ** 400}
    for m in (8, 16, 32, 64, 128):
        c.update(((1 << m) - 1, 1 << m, 1 << (m - 1), (1 << (m - 1)) - 1, -(1 << (m - 1)), -(1 << (m - 1)) - 1, -(1 << m), -(1 << m) + 1))
    return sorted(x for x in c if not lo <= x <= hi)

def ws(rng):
    r = rng.random()
    if r < 0.4:
        return b''
    return b''.join(rng.choice(WS) for _ in range(rng.randint(1, 3)))

KEY_SPELL = {'b': [b'b', b'\\u0062'], 'i': [b'i', b'\\u0069'], 't': [b't', b'\\u0074'], 's': [b's', b'\\u0073']}

def key(rng, escaped):
    if not escaped:
        return b'"bits"'
    return b'"' + b''.join(rng.choice(KEY_SPELL[c]) for c in 'bits') + b'"'

def jmap(v, rng=None, escaped=False):
    if rng is None:
        return b'{"bits":%d}' % v
    return ws(rng) + b'{' + ws(rng) + key(rng, escaped) + ws(rng) + b':' + ws(rng) + (b'%d' % v) + ws(rng) + b'}' + ws(rng)

def jseq(v, rng=None):
    if rng is None:
        return b'[%d]' % v
    return ws(rng) + b'[' + ws(rng) + (b'%d' % v) + ws(rng) + b']' + ws(rng)

def json_rejects(rng, v, w):
    """texts that serde_json + the crate's visitor must reject, whatever the type (v, w: any integers)"""
    d = b'%d' % v
    e = b'%d' % w
    a = abs(v)
    out = [
        b'[' + d + b',' + e + b']', b'[' + d + b', ' + e + b' ]', b'[]', b'[ ]', b'[' + d + b',]', b'[,' + d + b']', b'[[' + d + b']]', b'[' + d + b' ' + e + b']',
        b'{"bits":[' + d + b']}', b'{"bits":{"bits":' + d + b'}}', b'[{"bits":' + d + b'}]', b'{"bits":{}}', b'{"bits":[]}',
        b'{"bits":' + d + b'.0}', b'{"bits":' + d + b'e0}', b'{"bits":' + d + b'E0}', b'{"bits":' + d + b'e+0}', b'{"bits":' + d + b'.0e-0}', b'[' + d + b'.0]',
        b'{"bits":' + d + b'.}', b'{"bits":' + d + b'e}', b'{"bits":.' + d.lstrip(b'-') + b'}', b'{"bits":' + d + b'.5}',
        b'{"bits":0.0}', b'{"bits":-0.0}', b'{"bits":0e0}',
        b'{"bits":' + (b'-' if v < 0 else b'') + b'0' + (b'%d' % a) + b'}', b'{"bits":' + (b'-' if v < 0 else b'') + b'00' + (b'%d' % a) + b'}', b'{"bits":00}', b'[0' + (b'%d' % a) + b']',
        b'{"bits":+' + (b'%d' % a) + b'}', b'[+' + (b'%d' % a) + b']', b'{"bits":- ' + (b'%d' % a) + b'}', b'{"bits":-}', b'{"bits":--' + (b'%d' % a) + b'}', b'{"bits":}', b'{"bits": }',
        b'{"bits":"' + d + b'"}', b'["' + d + b'"]', b'{"bits":null}', b'[null]', b'{"bits":true}', b'{"bits":false}', b'null', b'true', d, b'"bits"', b'"{\\"bits\\":' + d + b'}"',
        b'{"bits":0x' + (b'%x' % a) + b'}', b'{"bits":' + d + b'_0}', b'{"bits":1 0}', b'{"bits":NaN}', b'{"bits":Infinity}',
        b'{"bits":' + d + b'}x', b'{"bits":' + d + b'} ' + e, b'{"bits":' + d + b'}{"bits":' + d + b'}', b'{"bits":' + d + b'},', b'{"bits":' + d + b'}}', b'{"bits":' + d + b'}]',
        b'[' + d + b']]', b'[' + d + b']x', b'[' + d + b'] [' + d + b']', b'[' + d + b'],', b'{"bits":' + d + b'}\x00', b'[' + d + b']\x00',
        b'{"bits":' + d + b',}', b'{"bits":' + d + b' , }', b'{,"bits":' + d + b'}', b'{"bits":' + d + b';}',
        b'{"bits":' + d + b',"bits":' + d + b'}', b'{"bits":' + d + b',"bits":' + e + b'}', b'{"bits":' + d + b' , "bits" : ' + d + b'}',
        b'{"bits":' + d + b',"x":' + e + b'}', b'{"x":' + e + b',"bits":' + d + b'}', b'{"x":' + d + b'}', b'{"":' + d + b'}', b'{"bits":' + d + b',"":0}',
        b'{"bits":' + d + b',"frac":4}', b'{"frac":4,"bits":' + d + b'}', b'{"bits":' + d + b',"phantom":null}',
        b'{}', b'{ }', b'{\n}', b'{"bits"}', b'{"bits":' + d + b',"bits"}',
        b'{"Bits":' + d + b'}', b'{"BITS":' + d + b'}', b'{"bits ":' + d + b'}', b'{" bits":' + d + b'}', b'{"bi ts":' + d + b'}', b'{"bit":' + d + b'}', b'{"bitss":' + d + b'}', b'{"bist":' + d + b'}',
        b'{"\\u0042its":' + d + b'}', b'{"\\bits":' + d + b'}', b'{"bits\\u0000":' + d + b'}', b'{"\\u0062\\u0069\\u0074":' + d + b'}', b'{"\\U0062its":' + d + b'}', b'{"\\u062its":' + d + b'}',
        b'{"\\u0062\\u0069\\u0074\\u0073\\u0073":' + d + b'}', b'{"\\x62its":' + d + b'}', b'{"b\\its":' + d + b'}', b'{"bits\\":' + d + b'}', b'{"bits\\"":' + d + b'}',
        b'{"\\ud83d\\ude00":' + d + b'}', b'{"\\ud800its":' + d + b'}', b'{"bits\\n":' + d + b'}', b'{"bits\n":' + d + b'}', b'{"b\\/its":' + d + b'}',
        b"{'bits':" + d + b'}', b'{bits:' + d + b'}', b'{"bits" ' + d + b'}', b'{"bits"::' + d + b'}', b'{"bits"=' + d + b'}', b'{"bits":' + d + b')', b'("bits":' + d + b'}',
        b'{0:' + d + b'}', b'{null:' + d + b'}', b'{["bits"]:' + d + b'}', b'{"bits":"bits":' + d + b'}',
        b'', b' ', b'\n', b'{', b'[', b'}', b']', b':', b',', b'"', b'-',
        b'\xef\xbb\xbf{"bits":' + d + b'}', b'{"bits":' + d + b'}\xef\xbb\xbf', b'{"bits":' + d + b'/**/}', b'{"bits":' + d + b'}//', b'//\n{"bits":' + d + b'}', b'/* */[' + d + b']',
        b'\x0c{"bits":' + d + b'}', b'{"bits":' + d + b'}\x0b', b'{\xc2\xa0"bits":' + d + b'}', b'{"bits"\xe2\x80\x8b:' + d + b'}', b'{"bits":\x0c' + d + b'}', b'{"bits":' + d + b'\x1f}', b'\x00{"bits":' + d + b'}',
        b'{"bits":' + d + b'}\xff', b'\xff{"bits":' + d + b'}', b'{"b\xffts":' + d + b'}', b'{"bits":' + d + b'\xff}', b'{"bits\xed\xa0\x80":' + d + b'}', b'{"\xc3\xa9":' + d + b'}', b'{"bits":\xc0\xb1}', b'{"bits\xc0\x80":' + d + b'}',
        b'{"bits":\xef\xbc\x91}', b'{"bits":\xd9\xa1}',
    ]
    return out

def mutate(rng, b):
    b = bytearray(b)
    for _ in range(rng.choice((1, 1, 1, 2, 3))):
        r = rng.random()
        pos = rng.randrange(len(b) + 1)
        pool = b'{}[]":,-+0123456789 \n\t\re.Ebits\\u\x00\xff' if rng.random() < 0.8 else bytes(range(256))
        if r < 0.4 and pos < len(b):
            b[pos] = rng.choice(pool)
        elif r < 0.7:
            b.insert(pos, rng.choice(pool))
        elif pos < len(b):
            del b[pos]
    return bytes(b)

# ---- CBOR
def cbor_head(major, v, width=None):
    """initial byte + argument; width None = shortest, else 0 (inline) / 1 / 2 / 4 / 8 bytes"""
    if width is None:
        width = 0 if v < 24 else 1 if v < 1 << 8 else 2 if v < 1 << 16 else 4 if v < 1 << 32 else 8
    if width == 0:
        assert v < 24
        return bytes([major << 5 | v])
    ai = {1: 24, 2: 25, 4: 26, 8: 27}[width]
    return bytes([major << 5 | ai]) + v.to_bytes(width, 'big')

def widths_for(v):
    return [w for w in (0, 1, 2, 4, 8) if (v < 24 if w == 0 else v < 1 << (8 * w))]

def cbor_int(v, width=None):
    return cbor_head(0, v, width) if v >= 0 else cbor_head(1, -1 - v, width)

CB_KEY = b'\x64bits'

def cbor_ok(v):
    return -(1 << 64) <= v < (1 << 64)

def cbor_variants(rng, v):
    """encodings of the struct that serde_cbor accepts (v a CBOR integer)"""
    a = v if v >= 0 else -1 - v
    out = []
    ints = [cbor_int(v, w) for w in widths_for(a)]
    keys = [cbor_head(3, 4, w) + b'bits' for w in (0, 1, 2, 4, 8)]
    chunked = [b'\x7f\x62bi\x62ts\xff', b'\x7f\x64bits\xff', b'\x7f\x60\x61b\x60\x63its\x60\xff', b'\x7f\x78\x01b\x79\x00\x03its\xff', b'\x7f\x61b\x61i\x61t\x61s\xff']
    for i in ints:
        out.append(b'\xa1' + CB_KEY + i)
        out.append(b'\x81' + i)
    i = rng.choice(ints)
    for w in (1, 2, 4, 8):
        out.append(cbor_head(5, 1, w) + CB_KEY + i)
        out.append(cbor_head(4, 1, w) + i)
    for k in keys + chunked:
        out.append(b'\xa1' + k + rng.choice(ints))
    out.append(b'\xbf' + rng.choice(keys + chunked) + i + b'\xff')
    out.append(b'\x9f' + i + b'\xff')
    tag = lambda: rng.choice([b'\xc0', b'\xc2', b'\xd7', b'\xd8\x18', b'\xd9\xd9\xf7', b'\xda\x00\x00\x00\x01', b'\xdb' + bytes(8)])
    out.append(tag() + b'\xa1' + CB_KEY + i)
    out.append(b'\xa1' + tag() + CB_KEY + i)
    out.append(b'\xa1' + CB_KEY + tag() + i)
    out.append(tag() + tag() + b'\xbf' + tag() + rng.choice(chunked) + tag() + tag() + i + b'\xff')
    out.append(tag() + b'\x81' + tag() + i)
    return out

def cbor_rejects(rng, v, w):
    i = cbor_int(v)
    j = cbor_int(w)
    m = b'\xa1' + CB_KEY + i
    out = [
        b'', b'\xa0', b'\x80', b'\xbf\xff', b'\x9f\xff', b'\xa2' + CB_KEY + i + CB_KEY + j, b'\xa2' + CB_KEY + i + b'\x61x' + j, b'\xa2\x61x' + j + CB_KEY + i, b'\xa2' + CB_KEY + i,
        b'\x82' + i + j, b'\x82' + i, b'\x9f' + i + j + b'\xff', b'\xbf' + CB_KEY + i + CB_KEY + j + b'\xff', b'\xbf' + CB_KEY + i, b'\x9f' + i, b'\xbf' + CB_KEY + b'\xff', b'\xbf' + CB_KEY + i + b'\xff\xff',
        b'\xa1\x44bits' + i, b'\xa1\x63bit' + i, b'\xa1\x65bitss' + i, b'\xa1\x64Bits' + i, b'\xa1\x64bit\xff' + i, b'\xa1\x00' + i, b'\xa1\xf6' + i, b'\xa1\x81' + CB_KEY + i, b'\xa1\x5f\x44bits\xff' + i,
        b'\xa1\x7f\x44bits\xff' + i, b'\xa1\x7f\x64bits' + i, b'\xa1\x7f\x7f\x64bits\xff\xff' + i, b'\xa1\x7f\x63bit\xff' + i, b'\xa1\x7c' + i, b'\xa1\x78\x05bits' + i, b'\xa1\x7b' + b'\xff' * 8 + b'bits' + i,
        b'\xa1' + CB_KEY + b'\xf9\x3c\x00', b'\xa1' + CB_KEY + b'\xfa\x3f\x80\x00\x00', b'\xa1' + CB_KEY + b'\xfb\x3f\xf0' + bytes(6), b'\xa1' + CB_KEY + b'\xf4', b'\xa1' + CB_KEY + b'\xf5', b'\xa1' + CB_KEY + b'\xf6', b'\xa1' + CB_KEY + b'\xf7',
        b'\xa1' + CB_KEY + b'\x41' + i[:1], b'\xa1' + CB_KEY + b'\x61\x31', b'\xa1' + CB_KEY + b'\x81' + i, b'\xa1' + CB_KEY + m, b'\xa1' + CB_KEY + b'\xc2\x41\x01', b'\xa1' + CB_KEY + b'\xc3\x41\x01',
        b'\xa1' + CB_KEY + b'\x1c', b'\xa1' + CB_KEY + b'\x1f', b'\xa1' + CB_KEY + b'\x3c', b'\xa1' + CB_KEY + b'\x3f', b'\xa1' + CB_KEY + b'\xff', b'\xa1' + CB_KEY + b'\xe0', b'\xa1' + CB_KEY + b'\xf8\x20', b'\xa1' + CB_KEY + b'\xfc',
        b'\xbc' + CB_KEY + i, b'\x9c' + i, b'\xdc' + m, b'\xdf' + m, b'\xb8', b'\xb8\x01', b'\xbb' + b'\xff' * 8 + CB_KEY + i, b'\x9b' + b'\xff' * 8 + i, b'\xb8\x00', b'\x98\x00', b'\xb8\x02' + CB_KEY + i + CB_KEY + i,
        m + b'\x00', m + b'\xff', m + m, b'\x81' + i + b'\x00', b'\x81' + i + b'\xff', b'\xbf' + CB_KEY + i + b'\xff\x00', b'\x9f' + i + b'\xff\x00',
        i, b'\x64bits', b'\xf6', b'\xf4', b'\xff', b'\x41\x00', b'\xc0', b'\xd8', b'\xc0\xc0', b'\x81\x81' + i, b'\x81' + m, b'\xa1' + CB_KEY,
        b'\xa1\xc0', b'\xa1' + CB_KEY + b'\xc0', b'\xa1' + CB_KEY + b'\xd8',
    ]
    return out

def gen(tier, seed, unit, nunits):
    out = []
    T = set(G.typed_layouts(tier))
    items = []
    for s in (0, 1):
        for n in G.WIDTHS:
            items += [('ser', (s, n, f)) for f in ser_fracs(n) if (s, n, f) in T]
            items += [('de', (s, n, f)) for f in de_fracs(n) if (s, n, f) in T]
            items += [('cde', (s, n, f)) for f in de_fracs(n) if (s, n, f) in T]
    # the nesting limit of serde_cbor (127 levels) is a property of the format crate: one layout per signedness is enough
    items += [('cdepth', (s, 8, 4)) for s in (0, 1) if (s, 8, 4) in T]
    for i, (kind, (s, n, f)) in enumerate(items):
        if i % nunits != unit:
            continue
        rng = random.Random(f'{seed}/ExtSerde/{kind}/{s}/{n}/{f}')
        lo, hi = G.rng_range(s, n)
        if kind == 'ser':
            # the answer may not depend on f: the same operands for every f of the family
            vrng = random.Random(f'{seed}/ExtSerde/ser-values/{s}/{n}')
            vals = values(vrng, s, n, scale(tier, 30, 2000))
            for x in vals:
                for op in ('serde_ser', 'serde_ser_w', 'serde_cbor_ser', 'serde_cbor_ser_w'):
                    out.append(req(op, s, n, f, x))
            for x in rng.sample(vals, min(len(vals), scale(tier, 60, 600))):
                for op in ('serde_ser_pretty', 'serde_ser_pretty_w', 'serde_rt', 'serde_rt_w', 'serde_val', 'serde_val_w', 'serde_cbor_rt', 'serde_cbor_rt_w'):
                    out.append(req(op, s, n, f, x))
        elif kind == 'de':
            vals = values(rng, s, n, scale(tier, 20, 1000))
            outs = outside(s, n)
            def both(b):
                out.append(req('serde_de', s, n, f, hx(b)))
                if rng.random() < 0.25:
                    out.append(req('serde_de_w', s, n, f, hx(b)))
            for x in vals:
                both(jmap(x)); both(jseq(x))
                both(jmap(x, rng)); both(jseq(x, rng)); both(jmap(x, rng, escaped=True))
            for x in outs:
                both(jmap(x)); both(jseq(x)); both(jmap(x, rng, escaped=True))
            both(b'{"bits":-0}'); both(b'[-0]'); both(b' { "bits" : -0 } '); both(b'{"bits":-00}'); both(b'{"bits":-0.0}'); both(b'{"bits":-0e0}')
            anyv = vals + outs
            for _ in range(scale(tier, 4, 40)):
                for b in json_rejects(rng, rng.choice(anyv), rng.choice(anyv)):
                    both(b)
            for x in rng.sample(vals, min(len(vals), scale(tier, 6, 40))):
                t = jmap(x, rng, escaped=rng.random() < 0.3)
                for k in range(len(t)):
                    both(t[:k])
                t = jseq(x, rng)
                for k in range(len(t)):
                    both(t[:k])
            for _ in range(scale(tier, 400, 20000)):
                x = rng.choice(anyv)
                t = rng.choice([jmap(x), jseq(x), jmap(x, rng), jmap(x, rng, True), jseq(x, rng)])
                both(mutate(rng, t))
        elif kind == 'cde':
            vals = [x for x in values(rng, s, n, scale(tier, 10, 500))]
            outs = [x for x in outside(s, n) if cbor_ok(x)]
            def both(b):
                out.append(req('serde_cbor_de', s, n, f, hx(b)))
                if rng.random() < 0.25:
                    out.append(req('serde_cbor_de_w', s, n, f, hx(b)))
            for x in vals:
                if cbor_ok(x):
                    both(b'\xa1' + CB_KEY + cbor_int(x)); both(b'\x81' + cbor_int(x))
            for x in rng.sample(vals, min(len(vals), scale(tier, 25, 300))) + outs:
                if cbor_ok(x):
                    for b in cbor_variants(rng, x):
                        both(b)
            anyv = [x for x in vals + outs if cbor_ok(x)]
            for _ in range(scale(tier, 3, 30)):
                for b in cbor_rejects(rng, rng.choice(anyv), rng.choice(anyv)):
                    both(b)
            for x in rng.sample(anyv, min(len(anyv), scale(tier, 6, 40))):
                t = rng.choice(cbor_variants(rng, x))
                for k in range(len(t)):
                    both(t[:k])
            for _ in range(scale(tier, 400, 20000)):
                t = rng.choice(cbor_variants(rng, rng.choice(anyv)))
                b = bytearray(t)
                for _ in range(rng.choice((1, 1, 2))):
                    r = rng.random(); pos = rng.randrange(len(b) + 1)
                    if r < 0.5 and pos < len(b):
                        b[pos] = rng.getrandbits(8) if rng.random() < 0.5 else b[pos] ^ (1 << rng.randrange(8))
                    elif r < 0.75:
                        b.insert(pos, rng.choice(b'\x00\x01\x17\x18\x20\x40\x60\x64\x7f\x80\x81\xa0\xa1\xbf\x9f\xc0\xd8\xf6\xff'))
                    elif pos < len(b):
                        del b[pos]
                both(bytes(b))
        else:   # cdepth
            x = rng.choice([1, 23, 24, lo, hi])
            i = cbor_int(x)
            for k in (1, 2, 100, 125, 126, 127, 128, 129, 200, 255, 256, 300):
                out.append(req('serde_cbor_de', s, n, f, hx(b'\xc0' * k + b'\xa1' + CB_KEY + i)))
                out.append(req('serde_cbor_de', s, n, f, hx(b'\xd8\x20' * k + b'\x81' + i)))
            for k in (123, 124, 125, 126, 127):
                out.append(req('serde_cbor_de', s, n, f, hx(b'\xc1' * k + b'\xa1\xc2' + CB_KEY + b'\xc3' + i)))
                out.append(req('serde_cbor_de', s, n, f, hx(b'\xc1' * k + b'\xa1\xc2\xc2' + CB_KEY + b'\xc3' + i)))
                out.append(req('serde_cbor_de', s, n, f, hx(b'\xc1' * k + b'\xa1\xc2' + CB_KEY + b'\xc3\xc3' + i)))
                out.append(req('serde_cbor_de_w', s, n, f, hx(b'\xc1' * k + b'\x9f\xc3\xc3' + i + b'\xff')))
                out.append(req('serde_cbor_de', s, n, f, hx(b'\xc1' * k + b'\xbf\x7f\x64bits\xff\xc3\xc3' + i + b'\xff')))
            for a, b in ((126, 126), (127, 126), (126, 127), (127, 127), (0, 126), (0, 127), (126, 0), (127, 0)):
                out.append(req('serde_cbor_de', s, n, f, hx(b'\xa1' + b'\xc5' * a + CB_KEY + b'\xc5' * b + i)))
    return {'codec': out}
