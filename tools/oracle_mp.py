#!/usr/bin/env python3-vt
"""Search oracle for C13–C16 (mpmath, 300 bits): judges the implementation's answers against the real-valued functions.
Search support only: a verdict "holds" never rests on it (DESIGN.md §10); a failure it finds is replayed on the implementation.
stdin: harness output lines `request => answer`; stdout: `ORACLE <line> err=.. bound=..` for violations, then `ORACLESTATS ...`."""
import sys
from mpmath import mp, mpf, sqrt, log, exp, sin, cos, tan, power, ldexp, fabs
mp.prec = 320

def val(bits, f):
    return ldexp(mpf(bits), -f)

def tdiv(a, b):
    q = abs(a) // abs(b)
    return q if (a < 0) == (b < 0) else -q

def powi_neg_clause(lines):
    """C15: `powi(x, n)` for n < 0 equals the truncated reciprocal of the implementation's own `powi(x, |n|)` (Err when that is Err, zero, or the
    reciprocal does not fit).  Judged exactly, on pairs of answers of the implementation (the generator issues the twin request)."""
    ans = {}
    for line in lines:
        if not line.startswith('t_powi ') or ' => ' not in line:
            continue
        req, a = line.split(' => ')
        p = req.split(' ')
        ans[(p[1], p[2], p[3], p[4], p[5], p[6], p[7], int(p[8]))] = (a, line)
    out = []
    for key, (a, line) in ans.items():
        nn = key[7]
        if nn >= 0 or a in ('P', 'SKIP') or (key[:7] + (-nn,)) not in ans or int(key[3]) == 0:
            continue
        b = ans[key[:7] + (-nn,)][0]
        if b in ('P', 'SKIP'):
            continue
        sd, nd, fd = int(key[4]), int(key[5]), int(key[6])
        lo, hi = (-(1 << (nd - 1)), (1 << (nd - 1)) - 1) if sd else (0, (1 << nd) - 1)
        if b.startswith('E'):
            exp = 'E'
        else:
            r1 = int(b.split(';')[0][2:])
            if r1 == 0:
                exp = 'E'
            else:
                q = tdiv(1 << (2 * fd), r1)
                exp = f'O:{q}' if lo <= q <= hi else 'E'
        got = 'E' if a.startswith('E') else a.split(';')[0]
        if got != exp:
            out.append(f'ORACLE {line} err=powi_negative_is_not_the_truncated_reciprocal_of_{b.split(";")[0]} bound={exp}')
    return out

def main():
    n = 0; fails = 0
    worst = {}
    all_lines = [l.strip() for l in sys.stdin]
    for o in powi_neg_clause(all_lines):
        print(o); fails += 1
    for line in all_lines:
        if ' => ' not in line:
            continue
        req, ans = line.split(' => ')
        p = req.split(' ')
        op = p[0]
        if not op.startswith('t_') or op == 't_consts' or ans in ('P', 'SKIP') or ans.startswith('E;'):
            continue
        s, nb, f, x = int(p[1]), int(p[2]), int(p[3]), int(p[4])
        v = ans.split(';')[0]
        r_bits = int(v[2:]) if v.startswith('O:') else int(v)
        if op in ('t_sin', 't_cos', 't_tan'):
            fd = f
        else:
            fd = int(p[7])
        xv = val(x, f); rv = val(r_bits, fd); ulp = ldexp(mpf(1), -fd)
        bound = None; err = None
        if op == 't_sqrt':
            if x < 0: continue
            err = fabs(rv - sqrt(xv)); bound = 4 * ulp
        elif op == 't_log2':
            if x <= 0: continue
            err = fabs(rv - log(xv, 2)); bound = 8 * ulp
        elif op == 't_ln':
            if x <= 0: continue
            t = log(xv); err = fabs(rv - t); bound = ldexp(fabs(t), -23) + 8 * ulp
        elif op == 't_exp':
            t = exp(xv); err = fabs(rv - t); bound = ldexp(t, -20) + 64 * ulp
        elif op == 't_pow':
            y = val(int(p[8]), f)
            if x <= 0 or int(p[8]) == 0 or int(p[8]) == (1 << f): continue
            t = power(xv, y); yl = fabs(y * log(xv))
            rel = ldexp(mpf(1), -18) + ldexp(yl, -22) + 16 * fabs(y) * ulp
            err = fabs(rv - t); bound = rel * t + 64 * ulp
        elif op in ('t_sin', 't_cos'):
            if fabs(xv) > 200: continue
            t = sin(xv) if op == 't_sin' else cos(xv)
            err = fabs(rv - t); bound = ldexp(mpf(1), -16)
            if fabs(rv) > 1 + ldexp(mpf(1), -16): err = bound * 2
        elif op == 't_tan':
            if fabs(xv) > 100: continue
            t = tan(xv)
            if fabs(t) > 64: continue
            err = fabs(rv - t); bound = ldexp(1 + t * t, -14)
        else:
            continue
        n += 1
        ratio = float(err / bound) if bound > 0 else (0.0 if err == 0 else float('inf'))
        key = f'{op}/{s}.{nb}.{f}->{fd}'
        if ratio > worst.get(key, (0, ''))[0]:
            worst[key] = (ratio, line)
        if err > bound:
            fails += 1
            print(f'ORACLE {line} err={float(err):.3e} bound={float(bound):.3e}')
    print('ORACLESTATS n=%d fail=%d' % (n, fails))
    for k in sorted(worst):
        print('ORACLEWORST %s ratio=%.4f %s' % (k, worst[k][0], worst[k][1]))

if __name__ == '__main__':
    main()
