#!/usr/bin/env python3
"""Mutation campaign — a MEASUREMENT of the correspondence checks' detection power (not a check; supports DESIGN.md 13.11).

  mutate.py list  <file.rs> [--seed N] [--max K]         print K sampled single-line mutants of /repo/src/<file.rs>
  mutate.py run   <sandbox dir> <file.rs> [--seed N] [--max K] [--log FILE]
        for each sampled mutant: apply it to <sandbox>/repo, run the quick checks mapped to the file in the sandbox
        (tools/sandbox.sh must have created it), stop at the first VIOLATION (killed); a mutant that no check reports is
        run through the crate's own test-suite (`cargo test --lib`), and logged as SURVIVED(tests pass) or SURVIVED(tests fail).
        Mutants that do not compile are logged as INVALID.

Mutation operators are textual, one site per mutant, on executable lines only (doc comments and doc templates are skipped).
Everything random derives from --seed.  /repo itself is never modified.
"""
import sys, os, re, random, subprocess, argparse, json, time

REPO = os.environ.get('SFX_REPO_SRC', '/repo')
FILE_CHECKS = {
    'arith.rs': ['C01', 'C02', 'C18'], 'wide_div.rs': ['C01', 'C08', 'C09'], 'macros_frac.rs': ['C02', 'C07', 'C06'],
    'macros_no_frac.rs': ['C02', 'C07', 'C11'], 'macros_round.rs': ['C06', 'C18'], 'cmp.rs': ['C03'],
    'int_helper.rs': ['C04', 'C03', 'C05'], 'float_helper.rs': ['C05', 'C03'], 'traits.rs': ['C04', 'C05', 'C02'],
    'convert.rs': ['C04', 'C05'], 'from_str.rs': ['C08', 'C18'], 'display.rs': ['C09'], 'lib.rs': ['C10', 'C02'],
    'serdeize.rs': ['C10'], 'transcendental.rs': ['C12', 'C13', 'C14', 'C15', 'C16', 'C17'], 'wrapping.rs': ['C18', 'C11'],
    'helpers.rs': ['C05', 'C04', 'C03'], 'macros_from_to.rs': ['C04', 'C05', 'C10'],
}

OPS = [
    (r' < ', ' <= '), (r' <= ', ' < '), (r' > ', ' >= '), (r' >= ', ' > '), (r' == ', ' != '), (r' != ', ' == '),
    (r' \+ ', ' - '), (r' - ', ' + '), (r' \+ 1\b', ''), (r' - 1\b', ''), (r' \+ 1\b', ' + 2'), (r' - 1\b', ' - 2'),
    (r' >> ', ' << '), (r' << ', ' >> '), (r' && ', ' || '), (r' \|\| ', ' && '), (r' \| ', ' & '), (r' & ', ' | '), (r' \^ ', ' | '),
    (r'\btrue\b', 'false'), (r'\bfalse\b', 'true'), (r' \* ', ' + '), (r' / ', ' * '), (r' % ', ' / '),
    (r'wrapping_add', 'wrapping_sub'), (r'wrapping_sub', 'wrapping_add'), (r'overflowing_add', 'overflowing_sub'),
    (r'overflowing_sub', 'overflowing_add'), (r'wrapping_neg', 'wrapping_abs'), (r'checked_add', 'checked_sub'),
    (r'checked_sub', 'checked_add'), (r'wrapping_shl', 'wrapping_shr'), (r'wrapping_shr', 'wrapping_shl'),
    (r'leading_zeros', 'trailing_zeros'), (r'\.is_some\(\)', '.is_none()'), (r'\.is_none\(\)', '.is_some()'),
    (r'Ordering::Less', 'Ordering::Greater'), (r'Ordering::Greater', 'Ordering::Less'), (r'Ordering::Equal', 'Ordering::Less'),
    (r'\bif !', 'if '), (r'\bmax\(', 'min('), (r'\bmin\(', 'max('), (r'\.min\(', '.max('), (r'\.max\(', '.min('),
    (r'(?<![\w.])(\d+)(?![\w.])', 'INC'), (r'(?<![\w.])(\d+)(?![\w.])', 'DEC'),
    (r' \+= ', ' -= '), (r' -= ', ' += '), (r' \|= ', ' &= '), (r' <<= ', ' >>= '), (r' >>= ', ' <<= '),
    (r'^(\s*)([a-z_][\w.]*(\(.*\))?\s*([+\-|&^]|<<|>>)?= .*;)\s*$', 'DELETE'),
]

def executable_lines(path):
    out = []
    in_doc_macro = False
    for i, line in enumerate(open(path).read().split('\n')):
        s = line.strip()
        if not s or s.startswith('//') or s.startswith('#[') or s.startswith('#!['):
            continue
        if s.startswith('comment!(') or s.startswith('"') or s.startswith('r#"') or s.endswith('";') and '(' not in s:
            continue
        if re.match(r'^(use|pub use|mod|pub mod|extern) ', s):
            continue
        out.append(i)
    return out

def strip_strings(line):
    return re.sub(r'"[^"]*"', lambda m: '"' + ' ' * (len(m.group(0)) - 2) + '"', line.split('//')[0])

def mutants(file):
    path = f'{REPO}/src/{file}'
    lines = open(path).read().split('\n')
    res = []
    # skip text inside doc-comment templates (lines within `comment!(` … `;` blocks) and #[cfg(test)] modules
    skip = set()
    depth_doc = False
    test_from = None
    for i, l in enumerate(lines):
        if re.search(r'#\[cfg\(test\)\]', l):
            test_from = i
        if test_from is not None:
            skip.add(i)
        if 'comment!(' in l or re.search(r'doc\s*=\s*', l):
            depth_doc = True
        if depth_doc:
            skip.add(i)
            if l.rstrip().endswith(';') or l.strip() in (')', '),', ');'):
                depth_doc = False
        if 'substrate_fixed_verif' in l:
            skip.add(i); skip.add(i + 1)
    # lines inside multi-line string literals (the doc-example templates of the `comment!` macros) are documentation, not code
    in_str = False
    for i, l in enumerate(lines):
        if in_str:
            skip.add(i)
        q = len(re.findall(r'(?<!\\)"', re.sub(r"'\\?\"'", '', l.split('//')[0] if not in_str else l)))
        if q % 2 == 1:
            in_str = not in_str
            skip.add(i)
    for i in executable_lines(path):
        if i in skip:
            continue
        code = strip_strings(lines[i])
        for k, (pat, rep) in enumerate(OPS):
            for m in re.finditer(pat, code):
                if rep == 'INC' or rep == 'DEC':
                    v = int(m.group(1))
                    nv = v + 1 if rep == 'INC' else v - 1
                    if nv < 0:
                        continue
                    new = lines[i][:m.start(1)] + str(nv) + lines[i][m.end(1):]
                elif rep == 'DELETE':
                    if 'let ' in code or 'return' in code:
                        continue
                    new = m.group(1) + '{}'
                else:
                    new = lines[i][:m.start()] + rep + lines[i][m.end():]
                if new != lines[i]:
                    res.append(dict(file=file, line=i + 1, op=f'{pat}->{rep}', old=lines[i], new=new))
    return res

def sample(file, seed, maxn):
    ms = mutants(file)
    rng = random.Random(f'{seed}/{file}')
    rng.shuffle(ms)
    # at most one mutant per line first, then fill up
    seen, first, rest = set(), [], []
    for m in ms:
        (first if m['line'] not in seen else rest).append(m)
        seen.add(m['line'])
    return (first + rest)[:maxn], len(ms)

def apply(sbx, m):
    p = f'{sbx}/repo/src/{m["file"]}'
    lines = open(p).read().split('\n')
    assert lines[m['line'] - 1] == m['old'], 'sandbox source differs from /repo'
    lines[m['line'] - 1] = m['new']
    open(p, 'w').write('\n'.join(lines))

def restore(sbx, m):
    p = f'{sbx}/repo/src/{m["file"]}'
    lines = open(p).read().split('\n')
    lines[m['line'] - 1] = m['old']
    open(p, 'w').write('\n'.join(lines))

def run(sbx, file, seed, maxn, log, checks=None):
    ms, total = sample(file, seed, maxn)
    checks = checks or FILE_CHECKS[file]
    env = dict(os.environ, SFX_REPO=f'{sbx}/repo', CARGO_NET_OFFLINE='true')
    with open(log, 'a') as fh:
        fh.write(f'# {file}: {total} candidate mutants, {len(ms)} sampled (seed {seed}); checks {checks}\n'); fh.flush()
        for m in ms:
            t0 = time.time()
            apply(sbx, m)
            verdict, by = None, ''
            try:
                # does it compile at all?  (release profile of the harness lib is enough)
                p = subprocess.run('cargo build --offline --profile rel --lib', shell=True, cwd=f'{sbx}/verif/harness', env=env,
                                   stdout=subprocess.PIPE, stderr=subprocess.STDOUT, text=True)
                if p.returncode != 0:
                    verdict = 'INVALID'
                else:
                    for c in checks:
                        p = subprocess.run(f'{sbx}/verif/check.sh {c} quick', shell=True, env=env, stdout=subprocess.PIPE,
                                           stderr=subprocess.STDOUT, text=True, timeout=2400)
                        v = [l for l in p.stdout.splitlines() if l.startswith('VIOLATION')]
                        if v:
                            verdict, by = 'KILLED', c + (' (no-failing-input-found)' if 'no-failing-input-found' in v[0] else '')
                            break
                    if verdict is None:
                        p = subprocess.run('cargo test --offline --lib', shell=True, cwd=f'{sbx}/repo', env=env,
                                           stdout=subprocess.PIPE, stderr=subprocess.STDOUT, text=True)
                        verdict = 'SURVIVED(tests pass)' if p.returncode == 0 else 'SURVIVED(tests fail)'
            finally:
                restore(sbx, m)
            rec = dict(m, verdict=verdict, by=by, secs=round(time.time() - t0))
            fh.write(json.dumps(rec) + '\n'); fh.flush()

if __name__ == '__main__':
    ap = argparse.ArgumentParser()
    ap.add_argument('cmd'); ap.add_argument('args', nargs='*')
    ap.add_argument('--seed', type=int, default=1); ap.add_argument('--max', type=int, default=20)
    ap.add_argument('--log', default='/root/sbx/mutants.log'); ap.add_argument('--checks', default='')
    a = ap.parse_args()
    if a.cmd == 'list':
        ms, total = sample(a.args[0], a.seed, a.max)
        print(f'# {total} candidates')
        for m in ms:
            print(f"{m['file']}:{m['line']} [{m['op']}]\n   - {m['old'].strip()}\n   + {m['new'].strip()}")
    elif a.cmd == 'run':
        run(a.args[0], a.args[1], a.seed, a.max, a.log, a.checks.split(',') if a.checks else None)
