#!/bin/bash
# coverage.sh — MEASURES which parts of /repo/src the correspondence requests execute (not a check; supports DESIGN.md §13.8 and the
# "modelled vs not modelled" statement of the trusted base).  Builds the harness with the nightly toolchain and -C instrument-coverage
# (profile chk), replays the request files that the last quick run of every property left under /verif/work/<Cxx>-quick/req, merges the
# profiles and prints llvm-cov's per-file summary for the crate's sources plus the list of never-executed functions.
# usage: tools/coverage.sh [outdir]      (outdir default /root/work/cov-out; scratch build dir /root/work/cov is removed at the end)
set -u
OUT=${1:-/root/work/cov-out}
T=/root/work/cov
LLVM=$(dirname "$(find /root/.rustup/toolchains/nightly-x86_64-unknown-linux-gnu -name llvm-profdata | head -1)")
mkdir -p "$OUT" "$T/prof"
cd /verif/harness || exit 2
export CARGO_NET_OFFLINE=true
LLVM_PROFILE_FILE="$T/prof/build-%p-%m.profraw" RUSTFLAGS="--cfg substrate_fixed_verif -C instrument-coverage" cargo +nightly build --offline --profile chk --target-dir "$T" 2>&1 | tail -2
objs=""
for b in arith wrap codec conv math text; do
  [ -x "$T/chk/$b" ] || { echo "missing bin $b"; continue; }
  objs="$objs -object $T/chk/$b"
  i=0
  for f in /verif/work/C*-quick/req/$b.*.req; do
    [ -f "$f" ] || continue
    i=$((i+1))
    LLVM_PROFILE_FILE="$T/prof/$b.$i.profraw" timeout 600 "$T/chk/$b" < "$f" > /dev/null 2>&1 &
    if [ $((i % 16)) -eq 0 ]; then wait; fi
  done
  wait
  echo "$b: $i request files replayed"
done
rm -f "$T"/prof/build-*.profraw
"$LLVM/llvm-profdata" merge -sparse "$T"/prof/*.profraw -o "$T/all.profdata" || exit 2
first=$(echo $objs | cut -d' ' -f2)
rest=$(echo $objs | cut -d' ' -f3-)
"$LLVM/llvm-cov" report "$first" $rest -instr-profile="$T/all.profdata" /repo/src 2>/dev/null > "$OUT/summary.txt"
"$LLVM/llvm-cov" export "$first" $rest -instr-profile="$T/all.profdata" -format=lcov /repo/src 2>/dev/null > "$OUT/cov.lcov"
python3 - "$OUT" <<'EOF'
import sys, re, collections
out = sys.argv[1]
# never-executed functions (by demangled-ish name) and uncovered lines per file from the lcov export
files = collections.OrderedDict(); cur = None
for l in open(out + '/cov.lcov'):
    l = l.strip()
    if l.startswith('SF:'):
        cur = l[3:]; files[cur] = dict(fn={}, lines={})
    elif l.startswith('FNDA:') and cur:
        c, n = l[5:].split(',', 1); files[cur]['fn'][n] = files[cur]['fn'].get(n, 0) + int(c)
    elif l.startswith('DA:') and cur:
        ln, c = l[3:].split(',')[:2]; files[cur]['lines'][int(ln)] = files[cur]['lines'].get(int(ln), 0) + int(c)
with open(out + '/uncovered.txt', 'w') as fh:
    for f, d in files.items():
        if '/repo/src' not in f: continue
        tot = len(d['lines']); hit = sum(1 for c in d['lines'].values() if c > 0)
        fh.write(f'{f}: lines {hit}/{tot}\n')
        miss = sorted(ln for ln, c in d['lines'].items() if c == 0)
        # compress to ranges
        rng = [];
        for ln in miss:
            if rng and ln == rng[-1][1] + 1: rng[-1][1] = ln
            else: rng.append([ln, ln])
        fh.write('   uncovered line ranges: ' + ' '.join(f'{a}-{b}' if a != b else str(a) for a, b in rng) + '\n')
print(open(out + '/summary.txt').read())
EOF
rm -rf "$T"
echo "details: $OUT/summary.txt $OUT/uncovered.txt"
